NOTE = ("Trusted: rustc name resolution/type checking/MIR construction; std contracts used as axioms (Vec::drain removes its range on drop, "
        "mem::swap exchanges, Ord::min <= both arguments, str::chars yields in order); reference tables written from the specifications. "
        "The effect analysis is a may-analysis (over-approximates writes/reads) and relies on the crate having no unsafe code and no interior mutability, both re-checked on every run.")

CLAIMS = {
 "C19": {
  "text": "Decides RIS completeness structurally: (H1) every field of the terminal state that is neither the size nor never-written configuration is assigned on EVERY path of the Function::Ris handler (interprocedural must-write analysis over MIR); (H2) each value assigned equals the constructor's term for that field modulo parameter<->field (sibling agreement); (H3) from every parser state ESC enters Escape with the collected state cleared and `c` dispatches Ris ending in Ground (extracted transition table); (H4) Vt has no state besides parser and terminal. Exhaustive over the fields / states. Not decided: nothing structural - observational equality with a fresh terminal follows from state equality.",
  "design_ref": "DESIGN.md section 4, C19",
  "note": NOTE,
  "technique": "field-coverage must-write analysis + sibling-agreement of provenance terms over MIR; parser table extraction from HIR",
 },
}

NOT_APPLICABLE = [
 {"property_id": "C10", "reason": "content preservation under reflow is a relation between unbounded cell sequences computed by data-dependent trimming and cursor-translation arithmetic; no structural clause is both necessary and robust (see DESIGN.md section 4, C10); the one robust clause (pending wrap cleared on width change) is checked under C02"},
]
