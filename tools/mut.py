#!/usr/bin/env python3
"""Try a one-edit mutant of /repo in a scratch copy (outside /repo and /verif)
and run one or more checks against it.

  tools/mut.py -p C03 [-p C20] -f src/parser.rs --old 'text' --new 'text' [--test] [--patch FILE]

Exit status: 0 if at least one of the checks reported a VIOLATION (mutant
killed), 1 if all were silent.  The scratch copy is always removed."""
import argparse, os, shutil, subprocess, sys, tempfile

HERE = os.path.dirname(os.path.dirname(os.path.abspath(__file__)))
ap = argparse.ArgumentParser()
ap.add_argument("-p", "--prop", action="append", required=True)
ap.add_argument("-f", "--file")
ap.add_argument("--old")
ap.add_argument("--new")
ap.add_argument("--patch")
ap.add_argument("--test", action="store_true", help="also run the repo's test suite on the mutant")
ap.add_argument("--count", type=int, default=1)
ap.add_argument("-q", "--quiet", action="store_true")
a = ap.parse_args()

tmp = tempfile.mkdtemp(prefix="avt-mut-")
dst = os.path.join(tmp, "repo")
try:
    shutil.copytree("/repo", dst, ignore=shutil.ignore_patterns("target", ".git"))
    if a.patch:
        r = subprocess.run(["patch", "-p1", "-s", "-i", os.path.abspath(a.patch)], cwd=dst)
        if r.returncode != 0:
            print("patch failed"); sys.exit(3)
    else:
        p = os.path.join(dst, a.file)
        s = open(p).read()
        if s.count(a.old) != a.count:
            print("old text occurs %d times (expected %d)" % (s.count(a.old), a.count)); sys.exit(3)
        s = s.replace(a.old, a.new)
        open(p, "w").write(s)
    if a.test:
        env = dict(os.environ, CARGO_TARGET_DIR=os.path.join(tmp, "tgt"), CARGO_NET_OFFLINE="true")
        r = subprocess.run(["cargo", "test", "--workspace", "--no-fail-fast", "--offline", "-q"], cwd=dst, env=env,
                           stdout=subprocess.PIPE, stderr=subprocess.STDOUT, text=True)
        res = [l for l in r.stdout.splitlines() if l.startswith("test result") or "FAILED" in l or "error" in l.lower()]
        print("SUITE:", "PASS" if r.returncode == 0 else "FAIL", "; ".join(res)[:300])
    killed = False
    for prop in a.prop:
        env = dict(os.environ, AVT_REPO=dst, AVT_EVIDENCE_DIR=os.path.join(tmp, "evidence"))
        r = subprocess.run([sys.executable, os.path.join(HERE, "engine", "main.py"), prop, "quick"], env=env, cwd=HERE,
                           stdout=subprocess.PIPE, stderr=subprocess.STDOUT, text=True)
        out = r.stdout
        viol = [l for l in out.splitlines() if l.startswith("VIOLATION")]
        if viol:
            killed = True
        if a.quiet:
            print("%s: %s (%d violation lines)" % (prop, "KILLED" if viol else "silent", len(viol)))
        else:
            print("\n".join(out.splitlines()[:40]).replace(dst, "<mutant>"))
    # restore evidence files of the real tree are rewritten by these runs: note it
    sys.exit(0 if killed else 1)
finally:
    shutil.rmtree(tmp, ignore_errors=True)
