#!/usr/bin/env python3
"""Regenerate /verif/MANIFEST.json from the claims table below.
Only properties that have a rule module under engine/rules are claimed."""
import json, os
HERE = os.path.dirname(os.path.dirname(os.path.abspath(__file__)))
import sys
sys.path.insert(0, os.path.join(HERE, "tools"))
from claims import CLAIMS, NOT_APPLICABLE

checks = []
na = list(NOT_APPLICABLE)
ALL = [json.loads(l)["id"] for l in open(os.path.join(HERE, "properties.jsonl"))]
na_ids = {n["property_id"] for n in na}
for pid in ALL:
    if pid in na_ids:
        continue
    c = CLAIMS.get(pid)
    if c is None or not os.path.exists(os.path.join(HERE, "engine", "rules", pid.lower() + ".py")):
        na.append({"property_id": pid, "reason": "check not built yet (static rules designed in DESIGN.md section 4, not yet implemented)"})
        continue
    checks.append({
        "property_id": pid,
        "quick_cmd": "./check %s quick" % pid,
        "thorough_cmd": "./check %s thorough" % pid,
        "evidence_file": "/verif/evidence/%s.json" % pid,
        "replay_cmd_template": "./check %s --replay {path}" % pid,
        "engine": "avt-facts+rules",
        "level_claimed": {"category": "other", "text": c["text"], "design_ref": c["design_ref"]},
        "level_note": c["note"],
        "technique": c["technique"],
    })
m = {
    "version": 1,
    "setup_cmd": "cd /verif/driver && CARGO_NET_OFFLINE=true cargo build --release --offline",
    "hooks": {
        "guard": "asciinema_avt_verif",
        "enable": "none needed: the checks read the type-checked program (HIR/MIR) through a rustc driver; no instrumentation is compiled into /repo",
        "baseline_off_cmd": "cd /repo && cargo test --workspace --no-fail-fast --offline",
        "source_commits": [],
        "add_only": True,
    },
    "engines": [
        {"name": "avt-facts", "path": "/verif/driver", "serves_properties": sorted(CLAIMS),
         "kind_free_text": "rustc_private driver exporting ADTs, constants, signatures, HIR (resolved) and MIR CFGs of /repo's working tree as JSON; contains no rule"},
        {"name": "rules", "path": "/verif/engine", "serves_properties": sorted(CLAIMS),
         "kind_free_text": "Python rule engine: match-table extraction, may-effect summaries, CFG path rules, operand provenance, finite-domain abstract interpretation"},
    ],
    "checks": checks,
    "notes": "Static analysis only: no check executes avt. Every claimed check decides named structural clauses of its property (listed in level_claimed.text and in the evidence explanation), never the whole behavioural statement. Genuine defects repaired by fix: commits in /repo: 2b7e617 (C19), d049085 (C05), 940f202 (C18); see known_findings.json.",
    "not_applicable": na,
}
with open(os.path.join(HERE, "MANIFEST.json"), "w") as f:
    json.dump(m, f, indent=1)
print("claimed:", [c["property_id"] for c in checks], "not_applicable:", [n["property_id"] for n in na])
