#!/usr/bin/env python3
"""Confirm a sub-agent's seeded change and file it under /verif/seeded/.

  tools/seed_verify.py <src-dir> <seed-id> <property>

<src-dir> holds patch.diff, seed_demo.rs, notes.md.  In a scratch git worktree
of /repo (removed afterwards) this confirms: (1) the patch applies, (2) the
existing suite passes with it, (3) the demonstration fails with it and (4)
passes without it.  Then runs every claimed check against the mutant (scratch
copy, evidence redirected) and records which ones report a violation."""
import json, os, shutil, subprocess, sys, tempfile, time

HERE = os.path.dirname(os.path.dirname(os.path.abspath(__file__)))
src, sid, prop = sys.argv[1], sys.argv[2], sys.argv[3]
TGT = os.environ.get("SV_TARGET", "/tmp/sv-target")
wt = tempfile.mkdtemp(prefix="sv-wt-")
os.rmdir(wt)
env = dict(os.environ, CARGO_TARGET_DIR=TGT, CARGO_NET_OFFLINE="true")

def run(cmd, cwd, **kw):
    return subprocess.run(cmd, cwd=cwd, env=env, stdout=subprocess.PIPE, stderr=subprocess.STDOUT, text=True, **kw)

meta = {"seed": sid, "breaks_property": prop, "verified_at": time.strftime("%Y-%m-%dT%H:%M:%SZ", time.gmtime())}
try:
    r = run(["git", "-C", "/repo", "worktree", "add", "-q", "--detach", wt, "HEAD"], "/")
    assert r.returncode == 0, r.stdout
    r = run(["git", "apply", os.path.abspath(os.path.join(src, "patch.diff"))], wt)
    if r.returncode != 0:       # context drifted (a later fix: commit nearby): the more tolerant patch(1)
        r = run(["patch", "-p1", "-s", "-i", os.path.abspath(os.path.join(src, "patch.diff"))], wt)
        meta["applied_with_fuzz"] = r.returncode == 0
    meta["patch_applies"] = r.returncode == 0
    if r.returncode != 0:
        print("patch does not apply:", r.stdout); sys.exit(2)
    r = run(["cargo", "test", "--workspace", "--no-fail-fast", "--offline", "-q"], wt)
    res = [l for l in r.stdout.splitlines() if l.startswith("test result")]
    meta["suite_with_patch"] = {"pass": r.returncode == 0, "results": res}
    shutil.copy(os.path.join(src, "seed_demo.rs"), os.path.join(wt, "tests", "seed_demo.rs"))
    r = run(["cargo", "test", "--offline", "-q", "--test", "seed_demo"], wt)
    meta["demo_with_patch_fails"] = r.returncode != 0
    demo_out = [l for l in r.stdout.splitlines() if "panicked" in l or l.startswith("test result")][:4]
    meta["demo_with_patch_output"] = demo_out
    run(["git", "checkout", "--", "src"], wt)
    r = run(["cargo", "test", "--offline", "-q", "--test", "seed_demo"], wt)
    meta["demo_without_patch_passes"] = r.returncode == 0
    ok = meta["suite_with_patch"]["pass"] and meta["demo_with_patch_fails"] and meta["demo_without_patch_passes"]
    meta["confirmed"] = ok
finally:
    subprocess.run(["git", "-C", "/repo", "worktree", "remove", "--force", wt], stdout=subprocess.DEVNULL, stderr=subprocess.DEVNULL)
    shutil.rmtree(wt, ignore_errors=True)

# which checks catch it
manifest = json.load(open(os.path.join(HERE, "MANIFEST.json")))
claimed = [c["property_id"] for c in manifest["checks"]]
caught = []
tmp = tempfile.mkdtemp(prefix="avt-mut-")
try:
    dst = os.path.join(tmp, "repo")
    shutil.copytree("/repo", dst, ignore=shutil.ignore_patterns("target", ".git"))
    subprocess.run(["patch", "-p1", "-s", "-i", os.path.abspath(os.path.join(src, "patch.diff"))], cwd=dst, check=True)
    e2 = dict(os.environ, AVT_REPO=dst, AVT_EVIDENCE_DIR=os.path.join(tmp, "ev"))
    r = subprocess.run([sys.executable, os.path.join(HERE, "engine", "main.py"), "all", "quick"], env=e2, cwd=HERE, stdout=subprocess.PIPE, stderr=subprocess.STDOUT, text=True)
    cur = None
    keys = {}
    for l in r.stdout.splitlines():
        if l.startswith("VIOLATION property="):
            cur = l.split("property=")[1].split()[0]
            if cur not in caught:
                caught.append(cur)
        if l.strip().startswith("subject") and cur:
            keys.setdefault(cur, []).append(l.split(":", 1)[1].strip())
    meta["caught_by"] = caught
    meta["caught_subjects"] = {k: v[:4] for k, v in keys.items()}
    meta["checks_run"] = claimed
finally:
    shutil.rmtree(tmp, ignore_errors=True)

meta["what_it_needs"] = open(os.path.join(src, "notes.md")).read()[:3000] if os.path.exists(os.path.join(src, "notes.md")) else ""
meta["commands"] = ["git apply patch.diff", "cargo test --workspace --no-fail-fast --offline", "cargo test --offline --test seed_demo (with / without the patch)", "./check all quick against a scratch copy with the patch"]
print(json.dumps({k: meta[k] for k in ("seed", "confirmed", "suite_with_patch", "demo_with_patch_fails", "demo_without_patch_passes", "caught_by", "caught_subjects")}, indent=1))
if meta.get("confirmed"):
    out = os.path.join(HERE, "seeded", sid)
    os.makedirs(out, exist_ok=True)
    for f in ("patch.diff", "seed_demo.rs", "notes.md"):
        if os.path.exists(os.path.join(src, f)):
            shutil.copy(os.path.join(src, f), os.path.join(out, f))
    json.dump(meta, open(os.path.join(out, "meta.json"), "w"), indent=1)
