// MIR body export: CFG with field-named places and resolved callees.
use crate::json::J;
use crate::{span_loc, ty_json};
use rustc_hir::def::DefKind;
use rustc_middle::mir::{
    self, AggregateKind, BasicBlock, Body, ConstValue, Operand, Place, PlaceElem, Rvalue,
    StatementKind, TerminatorKind,
};
use rustc_middle::ty::{self, Instance, Ty, TyCtxt, TypingEnv};
use rustc_span::def_id::DefId;

pub fn const_value_json<'tcx>(tcx: TyCtxt<'tcx>, val: ConstValue, t: Ty<'tcx>) -> J {
    match val {
        ConstValue::Scalar(_) => {
            if let Some(si) = val.try_to_scalar_int() {
                let size = si.size();
                let bits = si.to_bits(size);
                let mut o = J::obj();
                match t.kind() {
                    ty::Bool => o.put("bool", J::Bool(bits != 0)),
                    ty::Char => o.put("char", J::Int(bits as i128)),
                    ty::Int(_) => {
                        // sign-extend
                        let sz = size.bits();
                        let v = if sz < 128 && (bits >> (sz - 1)) & 1 == 1 {
                            (bits as i128) - (1i128 << sz)
                        } else {
                            bits as i128
                        };
                        o.put("int", J::Int(v));
                    }
                    _ => o.put("int", J::Int(bits as i128)),
                }
                o
            } else {
                J::obj().set("ptr", J::Bool(true))
            }
        }
        ConstValue::ZeroSized => J::obj().set("zst", J::Bool(true)),
        ConstValue::Slice { alloc_id, meta } => {
            let alloc = tcx.global_alloc(alloc_id).unwrap_memory();
            let a = alloc.inner();
            let len = (meta as usize).min(a.len());
            let bytes = a.inspect_with_uninit_and_ptr_outside_interpreter(0..len);
            match std::str::from_utf8(bytes) {
                Ok(s) if matches!(t.kind(), ty::Ref(_, inner, _) if inner.is_str()) => {
                    J::obj().set("str", J::s(s))
                }
                _ => J::obj().set(
                    "bytes",
                    J::Arr(bytes.iter().map(|b| J::Int(*b as i128)).collect()),
                ),
            }
        }
        ConstValue::Indirect { alloc_id, offset } => {
            let mut o = J::obj();
            if let ty::Array(elem, _) = t.kind() {
                let alloc = tcx.global_alloc(alloc_id).unwrap_memory();
                let a = alloc.inner();
                let off = offset.bytes() as usize;
                let bytes = a.inspect_with_uninit_and_ptr_outside_interpreter(off..a.len());
                let esz = match elem.kind() {
                    ty::Char => 4,
                    ty::Uint(u) => u.bit_width().map(|b| b / 8).unwrap_or(8) as usize,
                    ty::Int(u) => u.bit_width().map(|b| b / 8).unwrap_or(8) as usize,
                    ty::Bool => 1,
                    _ => 0,
                };
                if esz > 0 {
                    let mut arr = Vec::new();
                    for ch in bytes.chunks(esz) {
                        let mut v: u128 = 0;
                        for (i, b) in ch.iter().enumerate() {
                            v |= (*b as u128) << (8 * i);
                        }
                        arr.push(J::Int(v as i128));
                    }
                    o.put("array", J::Arr(arr));
                    o.put("elem", J::s(format!("{}", elem)));
                }
            }
            o.put("indirect", J::Bool(true));
            o
        }
    }
}

struct Mx<'a, 'tcx> {
    tcx: TyCtxt<'tcx>,
    body: &'a Body<'tcx>,
    did: DefId,
    env: TypingEnv<'tcx>,
}

impl<'a, 'tcx> Mx<'a, 'tcx> {
    fn field_name(&self, base_ty: mir::PlaceTy<'tcx>, fidx: usize) -> String {
        let t = base_ty.ty;
        match t.kind() {
            ty::Adt(def, _) => {
                let v = match base_ty.variant_index {
                    Some(v) => def.variant(v),
                    None => {
                        if def.is_enum() {
                            return format!("{}", fidx);
                        }
                        def.non_enum_variant()
                    }
                };
                v.fields
                    .iter()
                    .nth(fidx)
                    .map(|f| f.name.to_string())
                    .unwrap_or_else(|| format!("{}", fidx))
            }
            ty::Closure(cdid, _) => {
                let names = self.tcx.closure_saved_names_of_captured_variables(*cdid);
                names
                    .iter()
                    .nth(fidx)
                    .map(|s| s.to_string())
                    .unwrap_or_else(|| format!("{}", fidx))
            }
            _ => format!("{}", fidx),
        }
    }

    fn place(&self, p: &Place<'tcx>) -> J {
        let mut proj = Vec::new();
        let mut pty = mir::PlaceTy::from_ty(self.body.local_decls[p.local].ty);
        for elem in p.projection.iter() {
            let mut o = J::obj();
            match elem {
                PlaceElem::Deref => o.put("k", J::s("deref")),
                PlaceElem::Field(f, fty) => {
                    o.put("k", J::s("field"));
                    o.put("i", J::Int(f.as_usize() as i128));
                    o.put("name", J::s(self.field_name(pty, f.as_usize())));
                    o.put("ty", J::s(format!("{}", fty)));
                    if let ty::Adt(def, _) = pty.ty.kind() {
                        o.put("of", J::s(self.tcx.def_path_str(def.did())));
                    } else if let ty::Closure(..) = pty.ty.kind() {
                        o.put("of", J::s("closure"));
                    } else if let ty::Tuple(..) = pty.ty.kind() {
                        o.put("of", J::s("tuple"));
                    }
                }
                PlaceElem::Index(l) => {
                    o.put("k", J::s("index"));
                    o.put("local", J::Int(l.as_usize() as i128));
                }
                PlaceElem::ConstantIndex { offset, min_length, from_end } => {
                    o.put("k", J::s("constindex"));
                    o.put("offset", J::Int(offset as i128));
                    o.put("min_length", J::Int(min_length as i128));
                    o.put("from_end", J::Bool(from_end));
                }
                PlaceElem::Subslice { from, to, from_end } => {
                    o.put("k", J::s("subslice"));
                    o.put("from", J::Int(from as i128));
                    o.put("to", J::Int(to as i128));
                    o.put("from_end", J::Bool(from_end));
                }
                PlaceElem::Downcast(name, v) => {
                    o.put("k", J::s("downcast"));
                    o.put("variant", J::Int(v.as_usize() as i128));
                    if let Some(n) = name {
                        o.put("name", J::s(n.to_string()));
                    }
                }
                _ => {
                    o.put("k", J::s("other"));
                    o.put("dbg", J::s(format!("{:?}", elem)));
                }
            }
            proj.push(o);
            pty = pty.projection_ty(self.tcx, elem);
        }
        J::obj()
            .set("local", J::Int(p.local.as_usize() as i128))
            .set("proj", J::Arr(proj))
            .set("ty", J::s(format!("{}", pty.ty)))
            .set("hp", J::Bool(crate::ty_has_ptr(self.tcx, pty.ty, 0)))
    }

    fn constant(&self, c: &mir::ConstOperand<'tcx>) -> J {
        let t = c.const_.ty();
        let mut o = J::obj().set("k", J::s("const")).set("ty", ty_json(self.tcx, t));
        if let ty::FnDef(did, args) = t.kind() {
            o.put("fn", J::s(self.tcx.def_path_str(*did)));
            o.put("fn_args", J::s(format!("{:?}", args)));
            return o;
        }
        match c.const_.eval(self.tcx, self.env, c.span) {
            Ok(v) => {
                o.put("val", const_value_json(self.tcx, v, t));
            }
            Err(_) => {
                o.put("val", J::Null);
            }
        }
        if let mir::Const::Unevaluated(u, _) = c.const_ {
            o.put("uneval", J::s(self.tcx.def_path_str(u.def)));
            if let Some(p) = u.promoted {
                o.put("promoted", J::Int(p.as_usize() as i128));
            }
        }
        o
    }

    fn operand(&self, op: &Operand<'tcx>) -> J {
        match op {
            Operand::Copy(p) => {
                let mut o = self.place(p);
                o.put("k", J::s("copy"));
                o
            }
            Operand::Move(p) => {
                let mut o = self.place(p);
                o.put("k", J::s("move"));
                o
            }
            Operand::Constant(c) => self.constant(c),
            #[allow(unreachable_patterns)]
            other => J::obj()
                .set("k", J::s("other"))
                .set("dbg", J::s(format!("{:?}", other))),
        }
    }

    fn rvalue(&self, rv: &Rvalue<'tcx>) -> J {
        let mut o = J::obj();
        match rv {
            Rvalue::Use(op, ..) => {
                o.put("k", J::s("use"));
                o.put("op", self.operand(op));
            }
            Rvalue::Repeat(op, n) => {
                o.put("k", J::s("repeat"));
                o.put("op", self.operand(op));
                o.put("n", J::s(format!("{}", n)));
            }
            Rvalue::Ref(_, bk, p) => {
                o.put("k", J::s("ref"));
                o.put(
                    "mut",
                    J::Bool(matches!(bk, mir::BorrowKind::Mut { .. })),
                );
                o.put("bk", J::s(format!("{:?}", bk)));
                o.put("place", self.place(p));
            }
            Rvalue::RawPtr(kind, p) => {
                o.put("k", J::s("rawptr"));
                o.put("mut", J::Bool(matches!(kind, mir::RawPtrKind::Mut)));
                o.put("place", self.place(p));
            }
            Rvalue::Cast(kind, op, t) => {
                o.put("k", J::s("cast"));
                o.put("cast", J::s(format!("{:?}", kind)));
                o.put("op", self.operand(op));
                o.put("to", J::s(format!("{}", t)));
            }
            Rvalue::BinaryOp(bop, ops) => {
                o.put("k", J::s("binop"));
                o.put("op", J::s(format!("{:?}", bop)));
                o.put("l", self.operand(&ops.0));
                o.put("r", self.operand(&ops.1));
            }
            Rvalue::UnaryOp(uop, op) => {
                o.put("k", J::s("unop"));
                o.put("op", J::s(format!("{:?}", uop)));
                o.put("e", self.operand(op));
            }
            Rvalue::Discriminant(p) => {
                o.put("k", J::s("discr"));
                o.put("place", self.place(p));
            }
            Rvalue::Aggregate(kind, ops) => {
                o.put("k", J::s("aggregate"));
                match &**kind {
                    AggregateKind::Array(_) => o.put("agg", J::s("array")),
                    AggregateKind::Tuple => o.put("agg", J::s("tuple")),
                    AggregateKind::Adt(did, vidx, _, _, _) => {
                        o.put("agg", J::s("adt"));
                        let def = self.tcx.adt_def(*did);
                        o.put("adt", J::s(self.tcx.def_path_str(*did)));
                        let v = def.variant(*vidx);
                        o.put("variant", J::s(v.name.to_string()));
                        o.put("variant_idx", J::Int(vidx.as_usize() as i128));
                        o.put(
                            "field_names",
                            J::Arr(v.fields.iter().map(|f| J::s(f.name.to_string())).collect()),
                        );
                    }
                    AggregateKind::Closure(did, _) => {
                        o.put("agg", J::s("closure"));
                        o.put("closure", J::s(self.tcx.def_path_str(*did)));
                    }
                    other => {
                        o.put("agg", J::s("other"));
                        o.put("dbg", J::s(format!("{:?}", other)));
                    }
                }
                o.put("ops", J::Arr(ops.iter().map(|x| self.operand(x)).collect()));
            }
            Rvalue::CopyForDeref(p) => {
                o.put("k", J::s("use"));
                let mut po = self.place(p);
                po.put("k", J::s("copy"));
                o.put("op", po);
            }
            other => {
                o.put("k", J::s("other"));
                o.put("dbg", J::s(format!("{:?}", other)));
            }
        }
        o
    }

    fn bb(&self, b: BasicBlock) -> J {
        J::Int(b.as_usize() as i128)
    }

    fn callee(&self, func: &Operand<'tcx>) -> J {
        let mut o = J::obj();
        if let Operand::Constant(c) = func {
            if let ty::FnDef(did, args) = c.const_.ty().kind() {
                o.put("decl", J::s(self.tcx.def_path_str(*did)));
                o.put("decl_name", J::s(self.tcx.item_name(*did).to_string()));
                let mut targs = Vec::new();
                for ga in args.iter() {
                    if let Some(t) = ga.as_type() {
                        targs.push(ty_json(self.tcx, t));
                    }
                }
                o.put("type_args", J::Arr(targs));
                // trait method? record the trait
                if let Some(tr) = self.tcx.trait_of_assoc(*did) {
                    o.put("trait", J::s(self.tcx.def_path_str(tr)));
                }
                let resolved = Instance::try_resolve(self.tcx, self.env, *did, args);
                match resolved {
                    Ok(Some(inst)) => {
                        let rdid = inst.def_id();
                        o.put("resolved", J::s(self.tcx.def_path_str(rdid)));
                        o.put("resolved_local", J::Bool(rdid.is_local()));
                        o.put("instance_kind", J::s(format!("{:?}", inst.def).chars().take(60).collect::<String>()));
                        if rdid.is_local() {
                            let k = self.tcx.def_kind(rdid);
                            o.put("resolved_kind", J::s(format!("{:?}", k)));
                        }
                    }
                    _ => {
                        o.put("resolved", J::Null);
                    }
                }
                return o;
            }
        }
        o.put("indirect", self.operand(func));
        o
    }

    fn export(&self) -> J {
        let body = self.body;
        let tcx = self.tcx;
        let mut locals = Vec::new();
        for (l, decl) in body.local_decls.iter_enumerated() {
            locals.push(
                J::obj()
                    .set("i", J::Int(l.as_usize() as i128))
                    .set("ty", ty_json(tcx, decl.ty))
                    .set("mut", J::Bool(decl.mutability.is_mut()))
            );
        }
        let mut dbg = Vec::new();
        for v in &body.var_debug_info {
            let mut o = J::obj().set("name", J::s(v.name.to_string()));
            match &v.value {
                mir::VarDebugInfoContents::Place(p) => o.put("place", self.place(p)),
                mir::VarDebugInfoContents::Const(_) => o.put("const", J::Bool(true)),
            }
            if let Some(a) = v.argument_index {
                o.put("arg", J::Int(a as i128));
            }
            dbg.push(o);
        }
        let mut blocks = Vec::new();
        for (bbi, data) in body.basic_blocks.iter_enumerated() {
            let mut stmts = Vec::new();
            for st in &data.statements {
                let mut o = J::obj();
                match &st.kind {
                    StatementKind::Assign(b) => {
                        o.put("k", J::s("assign"));
                        o.put("place", self.place(&b.0));
                        o.put("rv", self.rvalue(&b.1));
                    }
                    StatementKind::SetDiscriminant { place, variant_index } => {
                        o.put("k", J::s("setdiscr"));
                        o.put("place", self.place(place));
                        o.put("variant", J::Int(variant_index.as_usize() as i128));
                    }
                    StatementKind::StorageLive(_)
                    | StatementKind::StorageDead(_)
                    | StatementKind::Nop
                    | StatementKind::FakeRead(..)
                    | StatementKind::PlaceMention(..)
                    | StatementKind::AscribeUserType(..)
                    | StatementKind::Coverage(..)
                    | StatementKind::ConstEvalCounter => continue,
                    other => {
                        o.put("k", J::s("other"));
                        o.put("dbg", J::s(format!("{:?}", other)));
                    }
                }
                o.put("loc", span_loc(tcx, st.source_info.span));
                stmts.push(o);
            }
            let term = data.terminator();
            let mut t = J::obj();
            match &term.kind {
                TerminatorKind::Goto { target } => {
                    t.put("k", J::s("goto"));
                    t.put("target", self.bb(*target));
                }
                TerminatorKind::SwitchInt { discr, targets } => {
                    t.put("k", J::s("switch"));
                    t.put("discr", self.operand(discr));
                    let mut arr = Vec::new();
                    for (v, b) in targets.iter() {
                        arr.push(J::Arr(vec![J::Int(v as i128), self.bb(b)]));
                    }
                    t.put("targets", J::Arr(arr));
                    t.put("otherwise", self.bb(targets.otherwise()));
                }
                TerminatorKind::Return => t.put("k", J::s("return")),
                TerminatorKind::Unreachable => t.put("k", J::s("unreachable")),
                TerminatorKind::UnwindResume => t.put("k", J::s("resume")),
                TerminatorKind::UnwindTerminate(_) => t.put("k", J::s("terminate")),
                TerminatorKind::Drop { place, target, .. } => {
                    t.put("k", J::s("drop"));
                    t.put("place", self.place(place));
                    t.put("target", self.bb(*target));
                }
                TerminatorKind::Call { func, args, destination, target, fn_span, .. } => {
                    t.put("k", J::s("call"));
                    t.put("callee", self.callee(func));
                    t.put(
                        "args",
                        J::Arr(args.iter().map(|a| self.operand(&a.node)).collect()),
                    );
                    t.put("dest", self.place(destination));
                    t.put("target", target.map(|b| self.bb(b)).unwrap_or(J::Null));
                    t.put("fn_loc", span_loc(tcx, *fn_span));
                }
                TerminatorKind::Assert { cond, expected, msg, target, .. } => {
                    t.put("k", J::s("assert"));
                    t.put("cond", self.operand(cond));
                    t.put("expected", J::Bool(*expected));
                    let kind = match &**msg {
                        mir::AssertKind::BoundsCheck { len, index } => {
                            t.put("len", self.operand(len));
                            t.put("index", self.operand(index));
                            "BoundsCheck".to_string()
                        }
                        mir::AssertKind::Overflow(op, a, b) => {
                            t.put("l", self.operand(a));
                            t.put("r", self.operand(b));
                            format!("Overflow({:?})", op)
                        }
                        mir::AssertKind::OverflowNeg(a) => {
                            t.put("l", self.operand(a));
                            "OverflowNeg".to_string()
                        }
                        mir::AssertKind::DivisionByZero(a) => {
                            t.put("l", self.operand(a));
                            "DivisionByZero".to_string()
                        }
                        mir::AssertKind::RemainderByZero(a) => {
                            t.put("l", self.operand(a));
                            "RemainderByZero".to_string()
                        }
                        other => format!("{:?}", other).chars().take(40).collect(),
                    };
                    t.put("msg", J::s(kind));
                    t.put("target", self.bb(*target));
                }
                other => {
                    t.put("k", J::s("other"));
                    t.put("dbg", J::s(format!("{:?}", other).chars().take(120).collect::<String>()));
                    let succ: Vec<J> = term.successors().map(|b| self.bb(b)).collect();
                    t.put("succ", J::Arr(succ));
                }
            }
            t.put("loc", span_loc(tcx, term.source_info.span));
            blocks.push(
                J::obj()
                    .set("i", J::Int(bbi.as_usize() as i128))
                    .set("cleanup", J::Bool(data.is_cleanup))
                    .set("stmts", J::Arr(stmts))
                    .set("term", t),
            );
        }
        J::obj()
            .set("path", J::s(tcx.def_path_str(self.did)))
            .set("kind", J::s(format!("{:?}", tcx.def_kind(self.did))))
            .set("arg_count", J::Int(body.arg_count as i128))
            .set("locals", J::Arr(locals))
            .set("debug", J::Arr(dbg))
            .set("blocks", J::Arr(blocks))
            .set("loc", span_loc(tcx, body.span))
    }
}

pub fn export_body<'tcx>(tcx: TyCtxt<'tcx>, did: DefId) -> J {
    let body = tcx.optimized_mir(did);
    let env = TypingEnv::post_analysis(tcx, did);
    let mx = Mx { tcx, body, did, env };
    let mut o = mx.export();
    // promoted bodies
    let promoted = tcx.promoted_mir(did);
    let mut ps = Vec::new();
    for (pi, pb) in promoted.iter_enumerated() {
        let pmx = Mx { tcx, body: pb, did, env };
        let mut po = pmx.export();
        po.put("promoted", J::Int(pi.as_usize() as i128));
        ps.push(po);
    }
    o.put("promoteds", J::Arr(ps));
    let _ = DefKind::Fn;
    o
}
