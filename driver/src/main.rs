// avt-facts: a rustc_private driver that exports facts about the crate being
// compiled (ADTs, constants, signatures, HIR expression trees with resolved
// paths, MIR control-flow graphs with field-named places) as one JSON file.
//
// It contains NO rule: everything property-specific lives in /verif/engine.
//
// Usage: injected through RUSTC_WORKSPACE_WRAPPER; cargo calls
//   avt-facts <rustc> <args...>
// The fact file is written to $AVT_FACTS_OUT when the crate named
// $AVT_FACTS_CRATE (default "avt") is compiled as a lib (not a test harness).
#![feature(rustc_private)]
#![allow(clippy::all)]

extern crate rustc_abi;
extern crate rustc_ast;
extern crate rustc_driver;
extern crate rustc_hir;
extern crate rustc_interface;
extern crate rustc_middle;
extern crate rustc_span;

mod hirx;
mod json;
mod mirx;

use json::J;
use rustc_driver::Compilation;
use rustc_hir::def::DefKind;
use rustc_interface::interface::Compiler;
use rustc_middle::ty::{self, TyCtxt};
use rustc_span::def_id::{DefId, LOCAL_CRATE};

struct Cb;

pub fn span_loc(tcx: TyCtxt<'_>, span: rustc_span::Span) -> J {
    let sm = tcx.sess.source_map();
    let sp = span.source_callsite();
    let lo = sm.lookup_char_pos(sp.lo());
    let hi = sm.lookup_char_pos(sp.hi());
    let file = match &lo.file.name {
        rustc_span::FileName::Real(r) => match r.local_path() {
            Some(p) => p.to_string_lossy().to_string(),
            None => format!("{:?}", r),
        },
        other => format!("{:?}", other),
    };
    J::obj()
        .set("file", J::s(file))
        .set("line", J::Int(lo.line as i128))
        .set("col", J::Int(lo.col.0 as i128 + 1))
        .set("end_line", J::Int(hi.line as i128))
        .set("exp", J::Bool(span.from_expansion()))
}

/// May a value of this type carry a pointer into memory that someone else
/// can observe (a reference, raw pointer, trait object, closure capturing
/// one, or a std container/iterator parameterised by a lifetime)?  Owning
/// containers (Vec, Box, String) do not count by themselves.
pub fn ty_has_ptr<'tcx>(tcx: TyCtxt<'tcx>, t: ty::Ty<'tcx>, depth: usize) -> bool {
    if depth > 8 {
        return true;
    }
    match t.kind() {
        ty::Bool | ty::Char | ty::Int(_) | ty::Uint(_) | ty::Float(_) | ty::Str | ty::Never => false,
        ty::Ref(..) | ty::RawPtr(..) | ty::FnPtr(..) | ty::Dynamic(..) => true,
        ty::FnDef(..) => false,
        ty::Array(inner, _) | ty::Slice(inner) => ty_has_ptr(tcx, *inner, depth + 1),
        ty::Tuple(ts) => ts.iter().any(|x| ty_has_ptr(tcx, x, depth + 1)),
        ty::Closure(_, args) => args
            .as_closure()
            .upvar_tys()
            .iter()
            .any(|x| ty_has_ptr(tcx, x, depth + 1)),
        ty::Adt(def, args) => {
            if args.iter().any(|ga| ga.as_region().is_some()) {
                return true;
            }
            if def.did().is_local() {
                def.all_fields().any(|f| {
                    let ft = f.ty(tcx, args);
                    ty_has_ptr(tcx, ft, depth + 1)
                })
            } else {
                args.iter()
                    .any(|ga| ga.as_type().map(|x| ty_has_ptr(tcx, x, depth + 1)).unwrap_or(false))
            }
        }
        _ => true,
    }
}

pub fn ty_json<'tcx>(tcx: TyCtxt<'tcx>, t: ty::Ty<'tcx>) -> J {
    // string form + structured head for ADTs / refs
    let mut o = J::obj()
        .set("s", J::s(format!("{}", t)))
        .set("hp", J::Bool(ty_has_ptr(tcx, t, 0)));
    match t.kind() {
        ty::Adt(def, args) => {
            o.put("adt", J::s(tcx.def_path_str(def.did())));
            let mut a = Vec::new();
            for ga in args.iter() {
                if let Some(t2) = ga.as_type() {
                    a.push(ty_json(tcx, t2));
                }
            }
            if !a.is_empty() {
                o.put("args", J::Arr(a));
            }
        }
        ty::Ref(_, inner, m) => {
            o.put("ref", J::s(if m.is_mut() { "mut" } else { "shared" }));
            o.put("inner", ty_json(tcx, *inner));
        }
        ty::RawPtr(inner, m) => {
            o.put("ptr", J::s(if m.is_mut() { "mut" } else { "const" }));
            o.put("inner", ty_json(tcx, *inner));
        }
        ty::Array(inner, len) => {
            o.put("array", ty_json(tcx, *inner));
            if let Some(n) = len.try_to_target_usize(tcx) {
                o.put("len", J::Int(n as i128));
            } else if let ty::ConstKind::Unevaluated(uv) = len.kind() {
                if let Ok(v) = tcx.const_eval_poly(uv.def) {
                    if let Some(si) = v.try_to_scalar_int() {
                        o.put("len", J::Int(si.to_bits(si.size()) as i128));
                    }
                }
            }
        }
        ty::Slice(inner) => {
            o.put("slice", ty_json(tcx, *inner));
        }
        ty::Tuple(ts) => {
            o.put("tuple", J::Arr(ts.iter().map(|x| ty_json(tcx, x)).collect()));
        }
        ty::Closure(did, _) => {
            o.put("closure", J::s(tcx.def_path_str(*did)));
        }
        ty::FnDef(did, _) => {
            o.put("fndef", J::s(tcx.def_path_str(*did)));
        }
        ty::Param(p) => {
            o.put("param", J::s(p.name.to_string()));
        }
        ty::Dynamic(..) => {
            o.put("dyn", J::Bool(true));
        }
        ty::Alias(..) => {
            o.put("alias", J::Bool(true));
        }
        _ => {}
    }
    o
}

fn vis_json(tcx: TyCtxt<'_>, did: DefId) -> J {
    let v = tcx.visibility(did);
    let s = match v {
        ty::Visibility::Public => "pub".to_string(),
        ty::Visibility::Restricted(m) => {
            if m.is_top_level_module() {
                "crate".to_string()
            } else {
                format!("in {}", tcx.def_path_str(m))
            }
        }
    };
    J::s(s)
}

fn export_adts(tcx: TyCtxt<'_>) -> J {
    let mut out = Vec::new();
    let ev = tcx.effective_visibilities(());
    for id in tcx.hir_free_items() {
        let did = id.owner_id.to_def_id();
        let kind = tcx.def_kind(did);
        if !matches!(kind, DefKind::Struct | DefKind::Enum | DefKind::Union) {
            continue;
        }
        let adt = tcx.adt_def(did);
        let mut o = J::obj()
            .set("path", J::s(tcx.def_path_str(did)))
            .set(
                "kind",
                J::s(match kind {
                    DefKind::Struct => "struct",
                    DefKind::Enum => "enum",
                    _ => "union",
                }),
            )
            .set("vis", vis_json(tcx, did))
            .set("exported", J::Bool(ev.is_exported(id.owner_id.def_id)))
            .set("reachable", J::Bool(ev.is_reachable(id.owner_id.def_id)))
            .set("loc", span_loc(tcx, tcx.def_span(did)));
        let mut variants = Vec::new();
        for (vidx, v) in adt.variants().iter_enumerated() {
            let mut fields = Vec::new();
            for (fidx, f) in v.fields.iter_enumerated() {
                let fty = tcx.type_of(f.did).instantiate_identity().skip_norm_wip();
                let f_exported = f
                    .did
                    .as_local()
                    .map(|l| ev.is_exported(l))
                    .unwrap_or(false);
                fields.push(
                    J::obj()
                        .set("idx", J::Int(fidx.as_usize() as i128))
                        .set("name", J::s(f.name.to_string()))
                        .set("ty", ty_json(tcx, fty))
                        .set("vis", vis_json(tcx, f.did))
                        .set("exported", J::Bool(f_exported)),
                );
            }
            let discr = if adt.is_enum() {
                let d = adt.discriminant_for_variant(tcx, vidx);
                J::Int(d.val as i128)
            } else {
                J::Null
            };
            variants.push(
                J::obj()
                    .set("idx", J::Int(vidx.as_usize() as i128))
                    .set("name", J::s(v.name.to_string()))
                    .set("path", J::s(tcx.def_path_str(v.def_id)))
                    .set("discr", discr)
                    .set("ctor_kind", J::s(format!("{:?}", v.ctor_kind())))
                    .set("fields", J::Arr(fields)),
            );
        }
        o.put("variants", J::Arr(variants));
        out.push(o);
    }
    J::Arr(out)
}

fn export_consts(tcx: TyCtxt<'_>) -> J {
    let mut out = Vec::new();
    for id in tcx.hir_free_items() {
        let did = id.owner_id.to_def_id();
        let kind = tcx.def_kind(did);
        if !matches!(kind, DefKind::Const { .. } | DefKind::Static { .. }) {
            continue;
        }
        let t = tcx.type_of(did).instantiate_identity().skip_norm_wip();
        let mut o = J::obj()
            .set("path", J::s(tcx.def_path_str(did)))
            .set("ty", ty_json(tcx, t))
            .set("loc", span_loc(tcx, tcx.def_span(did)));
        if matches!(kind, DefKind::Const { .. }) {
            match tcx.const_eval_poly(did) {
                Ok(val) => {
                    o.put("value", mirx::const_value_json(tcx, val, t));
                }
                Err(_) => {
                    o.put("value", J::Null);
                }
            }
        }
        out.push(o);
    }
    J::Arr(out)
}

fn export_fns(tcx: TyCtxt<'_>) -> J {
    let mut out = Vec::new();
    let ev = tcx.effective_visibilities(());
    for ldid in tcx.hir_body_owners() {
        let did = ldid.to_def_id();
        let kind = tcx.def_kind(did);
        let mut o = J::obj()
            .set("path", J::s(tcx.def_path_str(did)))
            .set("kind", J::s(format!("{:?}", kind)))
            .set("loc", span_loc(tcx, tcx.def_span(did)));
        let is_fn = matches!(kind, DefKind::Fn | DefKind::AssocFn);
        if is_fn {
            o.put("vis", vis_json(tcx, did));
            o.put("exported", J::Bool(ev.is_exported(ldid)));
            o.put("reachable", J::Bool(ev.is_reachable(ldid)));
            let sig = tcx.fn_sig(did).instantiate_identity().skip_norm_wip().skip_binder();
            o.put(
                "inputs",
                J::Arr(sig.inputs().iter().map(|t| ty_json(tcx, *t)).collect()),
            );
            o.put("output", ty_json(tcx, sig.output()));
            if kind == DefKind::AssocFn {
                let parent = tcx.parent(did);
                match tcx.def_kind(parent) {
                    DefKind::Impl { of_trait } => {
                        let self_ty = tcx.type_of(parent).instantiate_identity().skip_norm_wip();
                        o.put("impl_self", ty_json(tcx, self_ty));
                        if of_trait {
                            let tr = tcx.impl_trait_ref(parent).instantiate_identity().skip_norm_wip();
                            o.put("impl_trait", J::s(tcx.def_path_str(tr.def_id)));
                            o.put("impl_trait_full", J::s(format!("{}", tr)));
                        }
                    }
                    _ => {}
                }
                o.put("name", J::s(tcx.item_name(did).to_string()));
            } else {
                o.put("name", J::s(tcx.item_name(did).to_string()));
            }
        }
        if kind == DefKind::Closure {
            o.put("parent", J::s(tcx.def_path_str(tcx.parent(did))));
        }
        // test-only?
        let in_test = tcx
            .hir_attrs(tcx.local_def_id_to_hir_id(ldid))
            .iter()
            .any(|a| a.has_name(rustc_span::sym::test));
        if in_test {
            o.put("test", J::Bool(true));
        }
        out.push(o);
    }
    J::Arr(out)
}

impl rustc_driver::Callbacks for Cb {
    fn after_analysis<'tcx>(&mut self, _c: &Compiler, tcx: TyCtxt<'tcx>) -> Compilation {
        let want = std::env::var("AVT_FACTS_CRATE").unwrap_or_else(|_| "avt".to_string());
        let name = tcx.crate_name(LOCAL_CRATE).to_string();
        if name != want {
            return Compilation::Continue;
        }
        let out_path = match std::env::var("AVT_FACTS_OUT") {
            Ok(p) => p,
            Err(_) => return Compilation::Continue,
        };
        // skip test-harness builds of the same crate
        if tcx.sess.opts.test {
            return Compilation::Continue;
        }
        let _g1 = rustc_middle::ty::print::NoVisibleGuard::new();
        let _g2 = rustc_middle::ty::print::NoTrimmedGuard::new();
        let mut root = J::obj()
            .set("crate", J::s(name))
            .set("rustc", J::s(option_env!("CFG_VERSION").unwrap_or("nightly")))
            .set(
                "overflow_checks",
                J::Bool(tcx.sess.overflow_checks()),
            )
            .set(
                "debug_assertions",
                J::Bool(tcx.sess.opts.debug_assertions),
            );
        root.put("adts", export_adts(tcx));
        root.put("consts", export_consts(tcx));
        root.put("fns", export_fns(tcx));
        let mut hir = Vec::new();
        let mut mir = Vec::new();
        for ldid in tcx.hir_body_owners() {
            let did = ldid.to_def_id();
            let kind = tcx.def_kind(did);
            hir.push(hirx::export_body(tcx, ldid));
            if matches!(kind, DefKind::Fn | DefKind::AssocFn | DefKind::Closure) {
                mir.push(mirx::export_body(tcx, did));
            }
        }
        root.put("hir", J::Arr(hir));
        root.put("mir", J::Arr(mir));
        let mut s = String::with_capacity(1 << 24);
        root.write(&mut s);
        std::fs::write(&out_path, s).expect("write facts");
        Compilation::Continue
    }
}

fn main() {
    let mut args: Vec<String> = std::env::args().collect();
    // argv[1] is the path of the real rustc (RUSTC_WORKSPACE_WRAPPER protocol)
    if args.len() > 1 {
        args.remove(1);
    }
    let mut cb = Cb;
    rustc_driver::run_compiler(&args, &mut cb);
}
