// HIR body export: a small JSON AST with resolved paths.
use crate::json::J;
use crate::{span_loc, ty_json};
use rustc_ast::ast::LitKind;
use rustc_hir as hir;
use rustc_hir::def::{DefKind, Res};
use rustc_middle::ty::{TyCtxt, TypeckResults};
use rustc_span::def_id::LocalDefId;

struct Cx<'tcx> {
    tcx: TyCtxt<'tcx>,
    tr: &'tcx TypeckResults<'tcx>,
}

pub fn export_body<'tcx>(tcx: TyCtxt<'tcx>, ldid: LocalDefId) -> J {
    let body = tcx.hir_body_owned_by(ldid);
    let tr = tcx.typeck(ldid);
    let cx = Cx { tcx, tr };
    let mut params = Vec::new();
    for p in body.params {
        params.push(cx.pat(p.pat));
    }
    J::obj()
        .set("path", J::s(tcx.def_path_str(ldid.to_def_id())))
        .set("kind", J::s(format!("{:?}", tcx.def_kind(ldid.to_def_id()))))
        .set("params", J::Arr(params))
        .set("body", cx.expr(body.value))
}

fn lit_json(l: &hir::Lit, negated: bool) -> J {
    let mut o = J::obj().set("k", J::s("lit"));
    match &l.node {
        LitKind::Str(s, _) => {
            o.put("t", J::s("str"));
            o.put("v", J::s(s.to_string()));
        }
        LitKind::ByteStr(b, _) | LitKind::CStr(b, _) => {
            o.put("t", J::s("bytes"));
            o.put(
                "v",
                J::Arr(b.as_byte_str().iter().map(|x| J::Int(*x as i128)).collect()),
            );
        }
        LitKind::Byte(b) => {
            o.put("t", J::s("byte"));
            o.put("v", J::Int(*b as i128));
        }
        LitKind::Char(c) => {
            o.put("t", J::s("char"));
            o.put("v", J::Int(*c as u32 as i128));
        }
        LitKind::Int(n, _) => {
            o.put("t", J::s("int"));
            let v = n.get() as i128;
            o.put("v", J::Int(if negated { -v } else { v }));
        }
        LitKind::Float(s, _) => {
            o.put("t", J::s("float"));
            o.put("v", J::s(s.to_string()));
        }
        LitKind::Bool(b) => {
            o.put("t", J::s("bool"));
            o.put("v", J::Bool(*b));
        }
        LitKind::Err(_) => {
            o.put("t", J::s("err"));
        }
    }
    o
}

impl<'tcx> Cx<'tcx> {
    fn res(&self, res: Res) -> J {
        match res {
            Res::Def(kind, did) => {
                let mut o = J::obj()
                    .set("res", J::s("def"))
                    .set("dk", J::s(format!("{:?}", kind)))
                    .set("path", J::s(self.tcx.def_path_str(did)));
                // constructor -> variant / struct it constructs
                if let DefKind::Ctor(..) = kind {
                    let parent = self.tcx.parent(did);
                    o.put("ctor_of", J::s(self.tcx.def_path_str(parent)));
                }
                if did.is_local() {
                    o.put("local", J::Bool(true));
                }
                o
            }
            Res::Local(hid) => {
                let name = self.tcx.hir_name(hid).to_string();
                J::obj()
                    .set("res", J::s("local"))
                    .set("name", J::s(name))
                    .set("id", J::s(format!("{}.{}", hid.owner.def_id.local_def_index.as_u32(), hid.local_id.as_u32())))
            }
            Res::SelfTyAlias { alias_to, .. } => J::obj()
                .set("res", J::s("selfty"))
                .set("path", J::s(self.tcx.def_path_str(alias_to))),
            Res::SelfCtor(did) => J::obj()
                .set("res", J::s("selfctor"))
                .set("path", J::s(self.tcx.def_path_str(did))),
            Res::PrimTy(p) => J::obj()
                .set("res", J::s("prim"))
                .set("name", J::s(p.name_str())),
            other => J::obj()
                .set("res", J::s("other"))
                .set("dbg", J::s(format!("{:?}", other))),
        }
    }

    fn qpath(&self, qp: &hir::QPath<'tcx>, hid: hir::HirId) -> J {
        let res = self.tr.qpath_res(qp, hid);
        let mut o = self.res(res);
        // textual form, for diagnostics only
        let txt = match qp {
            hir::QPath::Resolved(_, p) => p
                .segments
                .iter()
                .map(|s| s.ident.to_string())
                .collect::<Vec<_>>()
                .join("::"),
            hir::QPath::TypeRelative(_, seg) => format!("<_>::{}", seg.ident),
        };
        o.put("text", J::s(txt));
        o
    }

    fn pat_expr(&self, pe: &hir::PatExpr<'tcx>) -> J {
        match &pe.kind {
            hir::PatExprKind::Lit { lit, negated } => lit_json(lit, *negated),
            hir::PatExprKind::Path(qp) => {
                let mut o = self.qpath(qp, pe.hir_id);
                o.put("k", J::s("path"));
                o
            }
        }
    }

    fn pat(&self, p: &hir::Pat<'tcx>) -> J {
        let mut o = J::obj();
        match &p.kind {
            hir::PatKind::Missing => o.put("p", J::s("missing")),
            hir::PatKind::Wild => o.put("p", J::s("wild")),
            hir::PatKind::Never => o.put("p", J::s("never")),
            hir::PatKind::Binding(mode, hid, ident, sub) => {
                o.put("p", J::s("bind"));
                o.put("name", J::s(ident.to_string()));
                o.put(
                    "id",
                    J::s(format!("{}.{}", hid.owner.def_id.local_def_index.as_u32(), hid.local_id.as_u32())),
                );
                o.put("mode", J::s(format!("{:?}", mode)));
                if let Some(s) = sub {
                    o.put("sub", self.pat(s));
                }
            }
            hir::PatKind::Struct(qp, fields, rest) => {
                o.put("p", J::s("struct"));
                o.put("path", self.qpath(qp, p.hir_id));
                o.put(
                    "fields",
                    J::Arr(
                        fields
                            .iter()
                            .map(|f| {
                                J::obj()
                                    .set("name", J::s(f.ident.to_string()))
                                    .set("pat", self.pat(f.pat))
                            })
                            .collect(),
                    ),
                );
                o.put("rest", J::Bool(rest.is_some()));
            }
            hir::PatKind::TupleStruct(qp, pats, ddpos) => {
                o.put("p", J::s("tuplestruct"));
                o.put("path", self.qpath(qp, p.hir_id));
                o.put("pats", J::Arr(pats.iter().map(|x| self.pat(x)).collect()));
                if let Some(d) = ddpos.as_opt_usize() {
                    o.put("dotdot", J::Int(d as i128));
                }
            }
            hir::PatKind::Or(pats) => {
                o.put("p", J::s("or"));
                o.put("pats", J::Arr(pats.iter().map(|x| self.pat(x)).collect()));
            }
            hir::PatKind::Tuple(pats, ddpos) => {
                o.put("p", J::s("tuple"));
                o.put("pats", J::Arr(pats.iter().map(|x| self.pat(x)).collect()));
                if let Some(d) = ddpos.as_opt_usize() {
                    o.put("dotdot", J::Int(d as i128));
                }
            }
            hir::PatKind::Box(inner) => {
                o.put("p", J::s("box"));
                o.put("pat", self.pat(inner));
            }
            hir::PatKind::Deref(inner) => {
                o.put("p", J::s("deref"));
                o.put("pat", self.pat(inner));
            }
            hir::PatKind::Ref(inner, _, m) => {
                o.put("p", J::s("ref"));
                o.put("mut", J::Bool(m.is_mut()));
                o.put("pat", self.pat(inner));
            }
            hir::PatKind::Expr(pe) => {
                o.put("p", J::s("expr"));
                o.put("e", self.pat_expr(pe));
            }
            hir::PatKind::Guard(inner, g) => {
                o.put("p", J::s("guard"));
                o.put("pat", self.pat(inner));
                o.put("guard", self.expr(g));
            }
            hir::PatKind::Range(lo, hi, end) => {
                o.put("p", J::s("range"));
                o.put("lo", lo.map(|x| self.pat_expr(x)).unwrap_or(J::Null));
                o.put("hi", hi.map(|x| self.pat_expr(x)).unwrap_or(J::Null));
                o.put(
                    "inclusive",
                    J::Bool(matches!(end, hir::RangeEnd::Included)),
                );
            }
            hir::PatKind::Slice(before, mid, after) => {
                o.put("p", J::s("slice"));
                o.put("before", J::Arr(before.iter().map(|x| self.pat(x)).collect()));
                o.put("mid", mid.map(|x| self.pat(x)).unwrap_or(J::Null));
                o.put("after", J::Arr(after.iter().map(|x| self.pat(x)).collect()));
            }
            hir::PatKind::Err(_) => o.put("p", J::s("err")),
        }
        o.put("ty", J::s(format!("{}", self.tr.pat_ty(p))));
        o.put("line", J::Int(self.line(p.span)));
        o
    }

    fn line(&self, span: rustc_span::Span) -> i128 {
        let sm = self.tcx.sess.source_map();
        sm.lookup_char_pos(span.source_callsite().lo()).line as i128
    }

    fn block(&self, b: &hir::Block<'tcx>) -> J {
        let mut stmts = Vec::new();
        for s in b.stmts {
            match &s.kind {
                hir::StmtKind::Let(l) => {
                    let mut o = J::obj().set("k", J::s("let")).set("pat", self.pat(l.pat));
                    if let Some(init) = l.init {
                        o.put("init", self.expr(init));
                    }
                    if let Some(els) = l.els {
                        o.put("els", self.block(els));
                    }
                    o.put("line", J::Int(self.line(s.span)));
                    stmts.push(o);
                }
                hir::StmtKind::Item(_) => {
                    stmts.push(J::obj().set("k", J::s("item")));
                }
                hir::StmtKind::Expr(e) => {
                    stmts.push(
                        J::obj()
                            .set("k", J::s("expr"))
                            .set("e", self.expr(e))
                            .set("line", J::Int(self.line(s.span))),
                    );
                }
                hir::StmtKind::Semi(e) => {
                    stmts.push(
                        J::obj()
                            .set("k", J::s("semi"))
                            .set("e", self.expr(e))
                            .set("line", J::Int(self.line(s.span))),
                    );
                }
            }
        }
        let mut o = J::obj().set("k", J::s("block")).set("stmts", J::Arr(stmts));
        if let hir::BlockCheckMode::UnsafeBlock(src) = b.rules {
            o.put("unsafe", J::s(format!("{:?}", src)));
        }
        if let Some(e) = b.expr {
            o.put("expr", self.expr(e));
        }
        o
    }

    fn macro_info(&self, e: &hir::Expr<'tcx>) -> Option<J> {
        if !e.span.from_expansion() {
            return None;
        }
        let mut names = Vec::new();
        let mut outer = e.span;
        for ed in e.span.macro_backtrace() {
            if let rustc_span::ExpnKind::Macro(_, name) = ed.kind {
                names.push(J::s(name.to_string()));
            } else {
                names.push(J::s(format!("{:?}", ed.kind)));
            }
            outer = ed.call_site;
        }
        let sm = self.tcx.sess.source_map();
        let snippet = sm.span_to_snippet(outer).unwrap_or_default();
        Some(
            J::obj()
                .set("names", J::Arr(names))
                .set("snippet", J::s(snippet))
                .set("line", J::Int(self.line(outer))),
        )
    }

    fn expr(&self, e: &hir::Expr<'tcx>) -> J {
        let mut o = J::obj();
        match &e.kind {
            hir::ExprKind::ConstBlock(_) => o.put("k", J::s("constblock")),
            hir::ExprKind::Array(es) => {
                o.put("k", J::s("array"));
                o.put("elems", J::Arr(es.iter().map(|x| self.expr(x)).collect()));
            }
            hir::ExprKind::Call(f, args) => {
                o.put("k", J::s("call"));
                o.put("f", self.expr(f));
                o.put("args", J::Arr(args.iter().map(|x| self.expr(x)).collect()));
            }
            hir::ExprKind::MethodCall(seg, recv, args, _) => {
                o.put("k", J::s("mcall"));
                o.put("name", J::s(seg.ident.to_string()));
                if let Some(did) = self.tr.type_dependent_def_id(e.hir_id) {
                    o.put("callee", J::s(self.tcx.def_path_str(did)));
                    o.put("callee_local", J::Bool(did.is_local()));
                }
                o.put("recv", self.expr(recv));
                o.put("args", J::Arr(args.iter().map(|x| self.expr(x)).collect()));
            }
            hir::ExprKind::Use(x, _) => {
                o.put("k", J::s("use"));
                o.put("e", self.expr(x));
            }
            hir::ExprKind::Tup(es) => {
                o.put("k", J::s("tuple"));
                o.put("elems", J::Arr(es.iter().map(|x| self.expr(x)).collect()));
            }
            hir::ExprKind::Binary(op, a, b) => {
                o.put("k", J::s("binary"));
                o.put("op", J::s(op.node.as_str()));
                if let Some(did) = self.tr.type_dependent_def_id(e.hir_id) {
                    o.put("callee", J::s(self.tcx.def_path_str(did)));
                }
                o.put("l", self.expr(a));
                o.put("r", self.expr(b));
            }
            hir::ExprKind::Unary(op, a) => {
                o.put("k", J::s("unary"));
                o.put("op", J::s(op.as_str()));
                o.put("e", self.expr(a));
            }
            hir::ExprKind::Lit(l) => {
                o = lit_json(l, false);
            }
            hir::ExprKind::Cast(a, _) => {
                o.put("k", J::s("cast"));
                o.put("e", self.expr(a));
            }
            hir::ExprKind::Type(a, _) => {
                o.put("k", J::s("type"));
                o.put("e", self.expr(a));
            }
            hir::ExprKind::DropTemps(a) => {
                // transparent
                return self.expr(a);
            }
            hir::ExprKind::Let(l) => {
                o.put("k", J::s("letexpr"));
                o.put("pat", self.pat(l.pat));
                o.put("init", self.expr(l.init));
            }
            hir::ExprKind::If(c, t, f) => {
                o.put("k", J::s("if"));
                o.put("cond", self.expr(c));
                o.put("then", self.expr(t));
                if let Some(f) = f {
                    o.put("else", self.expr(f));
                }
            }
            hir::ExprKind::Loop(b, label, src, _) => {
                o.put("k", J::s("loop"));
                o.put("src", J::s(format!("{:?}", src)));
                if let Some(l) = label {
                    o.put("label", J::s(l.ident.to_string()));
                }
                o.put("body", self.block(b));
            }
            hir::ExprKind::Match(scrut, arms, src) => {
                o.put("k", J::s("match"));
                o.put("src", J::s(format!("{:?}", src)));
                o.put("scrut", self.expr(scrut));
                let mut arr = Vec::new();
                for arm in *arms {
                    let mut a = J::obj().set("pat", self.pat(arm.pat));
                    if let Some(g) = arm.guard {
                        a.put("guard", self.expr(g));
                    }
                    a.put("body", self.expr(arm.body));
                    a.put("line", J::Int(self.line(arm.span)));
                    arr.push(a);
                }
                o.put("arms", J::Arr(arr));
            }
            hir::ExprKind::Closure(c) => {
                o.put("k", J::s("closure"));
                o.put("def", J::s(self.tcx.def_path_str(c.def_id.to_def_id())));
            }
            hir::ExprKind::Block(b, label) => {
                o = self.block(b);
                if let Some(l) = label {
                    o.put("label", J::s(l.ident.to_string()));
                }
            }
            hir::ExprKind::Assign(l, r, _) => {
                o.put("k", J::s("assign"));
                o.put("l", self.expr(l));
                o.put("r", self.expr(r));
            }
            hir::ExprKind::AssignOp(op, l, r) => {
                o.put("k", J::s("assignop"));
                o.put("op", J::s(op.node.as_str()));
                o.put("l", self.expr(l));
                o.put("r", self.expr(r));
            }
            hir::ExprKind::Field(base, ident) => {
                o.put("k", J::s("field"));
                o.put("name", J::s(ident.to_string()));
                o.put("base", self.expr(base));
            }
            hir::ExprKind::Index(base, idx, _) => {
                o.put("k", J::s("index"));
                if let Some(did) = self.tr.type_dependent_def_id(e.hir_id) {
                    o.put("callee", J::s(self.tcx.def_path_str(did)));
                }
                o.put("base", self.expr(base));
                o.put("idx", self.expr(idx));
            }
            hir::ExprKind::Path(qp) => {
                o = self.qpath(qp, e.hir_id);
                o.put("k", J::s("path"));
            }
            hir::ExprKind::AddrOf(_, m, a) => {
                o.put("k", J::s("ref"));
                o.put("mut", J::Bool(m.is_mut()));
                o.put("e", self.expr(a));
            }
            hir::ExprKind::Break(dest, val) => {
                o.put("k", J::s("break"));
                if let Some(l) = dest.label {
                    o.put("label", J::s(l.ident.to_string()));
                }
                if let Some(v) = val {
                    o.put("e", self.expr(v));
                }
            }
            hir::ExprKind::Continue(_) => o.put("k", J::s("continue")),
            hir::ExprKind::Ret(val) => {
                o.put("k", J::s("return"));
                if let Some(v) = val {
                    o.put("e", self.expr(v));
                }
            }
            hir::ExprKind::Struct(qp, fields, tail) => {
                o.put("k", J::s("struct"));
                o.put("path", self.qpath(qp, e.hir_id));
                o.put(
                    "fields",
                    J::Arr(
                        fields
                            .iter()
                            .map(|f| {
                                J::obj()
                                    .set("name", J::s(f.ident.to_string()))
                                    .set("e", self.expr(f.expr))
                            })
                            .collect(),
                    ),
                );
                if let hir::StructTailExpr::Base(b) = tail {
                    o.put("base", self.expr(b));
                }
            }
            hir::ExprKind::Repeat(x, _) => {
                o.put("k", J::s("repeat"));
                o.put("e", self.expr(x));
            }
            other => {
                o.put("k", J::s("other"));
                let d = format!("{:?}", other);
                o.put("dbg", J::s(d.chars().take(80).collect::<String>()));
            }
        }
        o.put("ty", J::s(format!("{}", self.tr.expr_ty(e))));
        let adj = self.tr.expr_ty_adjusted(e);
        if adj != self.tr.expr_ty(e) {
            o.put("adj_ty", J::s(format!("{}", adj)));
        }
        o.put("line", J::Int(self.line(e.span)));
        if let Some(m) = self.macro_info(e) {
            o.put("macro", m);
        }
        let _ = ty_json;
        let _ = span_loc;
        o
    }
}
