//! Type-level witnesses for C02.R6 / C16: a user of the crate cannot obtain
//! mutable access to, or construct, screen storage.  Every `compile_fail`
//! witness is paired with a compiling twin that differs only by the offending
//! line, so a witness that fails for an unrelated reason (a wrong path) is
//! caught by its twin failing too.
//!
//! Run with: cargo +nightly test --doc --offline   (stable ignores the error codes)

/// twin: reading the view and a line's cells compiles
/// ```no_run
/// let vt = avt::Vt::new(4, 2);
/// let v: &[avt::Line] = vt.view();
/// let _n = v[0].cells().len();
/// ```
/// witness: the view cannot be bound mutably
/// ```compile_fail,E0308
/// let mut vt = avt::Vt::new(4, 2);
/// let v: &mut [avt::Line] = vt.view();
/// ```
pub struct ViewIsShared;

/// twin: `lines()` is readable
/// ```no_run
/// let vt = avt::Vt::new(4, 2);
/// let _l: &[avt::Line] = vt.lines();
/// ```
/// witness: the soft-wrap flag is not writable from outside
/// ```compile_fail,E0616
/// let vt = avt::Vt::new(4, 2);
/// let mut l = vt.lines()[0].clone();
/// l.wrapped = true;
/// ```
pub struct WrappedIsPrivate;

/// twin: cells are readable through the accessor
/// ```no_run
/// let vt = avt::Vt::new(4, 2);
/// let l = vt.line(0);
/// let _c = l.cells()[0].char();
/// ```
/// witness: the cell vector itself is private
/// ```compile_fail,E0616
/// let vt = avt::Vt::new(4, 2);
/// let l = vt.line(0).clone();
/// let _c = l.cells.len();
/// ```
pub struct CellsArePrivate;

/// twin: a line can be cloned
/// ```no_run
/// let vt = avt::Vt::new(4, 2);
/// let _l: avt::Line = vt.line(0).clone();
/// ```
/// witness: a line of arbitrary width cannot be built
/// ```compile_fail,E0624
/// let _l = avt::Line::blank(7, avt::Pen::default());
/// ```
pub struct NoLineConstructor;

/// twin: a cell's pen is readable
/// ```no_run
/// let vt = avt::Vt::new(4, 2);
/// let _p: &avt::Pen = vt.line(0).cells()[0].pen();
/// ```
/// witness: a cell cannot be constructed from outside
/// ```compile_fail,E0624
/// let _c = avt::Cell::new('x', avt::Pen::default());
/// ```
pub struct NoCellConstructor;

/// twin: the terminal is reachable only through Vt's methods
/// ```no_run
/// let vt = avt::Vt::new(4, 2);
/// let _ = vt.size();
/// ```
/// witness: Vt's fields are private
/// ```compile_fail,E0616
/// let vt = avt::Vt::new(4, 2);
/// let _t = &vt.terminal;
/// ```
pub struct VtFieldsPrivate;
