#!/usr/bin/env python3
"""Entry point: ./check <property|all> [quick|thorough] [--replay FILE] [--facts FILE]"""
import importlib
import json
import os
import sys
import time
import traceback

sys.path.insert(0, os.path.dirname(os.path.abspath(__file__)))
import facts as FX      # noqa: E402
import report           # noqa: E402
import world as WD      # noqa: E402
import hir as H         # noqa: E402

PROPS = ["C01", "C02", "C03", "C04", "C05", "C06", "C07", "C08", "C09", "C10", "C11",
         "C12", "C13", "C14", "C15", "C16", "C17", "C18", "C19", "C20"]


def common_rules(ctx, w):
    """Assumptions of the effect analysis, checked on every run."""
    ctx.rule("COMMON.unsafe", "the crate contains no user-written unsafe block (aliases obtained through & cannot be written)")
    n = 0
    for p, h in w.facts.hir.items():
        for b in H.find(h["body"], lambda x: H.is_k(x, "block") and x.get("unsafe") == "UserProvided"):
            ctx.violation("COMMON.unsafe", p, "unsafe block in %s: the alias analysis no longer over-approximates writes" % p)
            n += 1
    if n == 0:
        ctx.ok("COMMON.unsafe", "crate", {"bodies_scanned": len(w.facts.hir)})
    ctx.rule("COMMON.interior", "no field of a crate type uses interior mutability")
    bad = ("Cell<", "RefCell<", "Mutex<", "RwLock<", "Atomic", "UnsafeCell<", "OnceCell<")
    m = 0
    for path, a in w.facts.adts.items():
        for v in a["variants"]:
            for f in v["fields"]:
                s = f["ty"]["s"]
                if any(("::" + b) in s or s.startswith(b) for b in bad) and "cell::Cell" not in s.replace("core::cell::Cell", "XX"):
                    ctx.violation("COMMON.interior", "%s.%s" % (path, f["name"]), "interior mutability (%s) defeats the shared-borrow argument" % s)
                    m += 1
                if "core::cell::" in s or "std::sync::" in s or "core::sync::atomic" in s:
                    ctx.violation("COMMON.interior", "%s.%s" % (path, f["name"]), "interior mutability (%s) defeats the shared-borrow argument" % s)
                    m += 1
    if m == 0:
        ctx.ok("COMMON.interior", "crate", {"adts_scanned": len(w.facts.adts)})


_ALT = {}


def config_independence(ctx, w):
    """Thorough tier: the facts the rules rely on (HIR, effect summaries) do not
    depend on the build configuration (overflow checks / debug assertions off)."""
    ctx.rule("COMMON.config", "HIR and may-effect summaries are identical with overflow checks and debug assertions disabled")
    if "w2" not in _ALT:
        try:
            f2 = FX.extract(repo=w.facts.repo, overflow_checks="off")
            _ALT["w2"] = canonical_world(f2)
        except FX.ExtractError as e:
            _ALT["w2"] = e
    w2 = _ALT["w2"]
    if isinstance(w2, Exception):
        ctx.violation("COMMON.config", "extract", "second extraction (overflow checks off) failed: %s" % w2)
        return
    same_hir = json.dumps(w.facts.data["hir"], sort_keys=True) == json.dumps(w2.facts.data["hir"], sort_keys=True)
    ctx.check(same_hir, "COMMON.config", "hir", "the HIR differs between build configurations (cfg-dependent code?)", sample={"bodies": len(w.facts.hir)})
    diff = [p for p in w.E.summaries if p in w2.E.summaries and (w.E.summaries[p].W != w2.E.summaries[p].W or w.E.summaries[p].R != w2.E.summaries[p].R)]
    missing = sorted(set(w.E.summaries) ^ set(w2.E.summaries))
    ctx.check(not diff and not missing, "COMMON.config", "effects", "effect summaries differ between build configurations for %s %s" % (diff[:3], missing[:3]), sample={"functions": len(w.E.summaries)})


def canonical_world(f):
    """World over the facts, with the two structurally recognised private type names rewritten to their canonical
    spelling when the source spells them differently (engine/canon.py)."""
    import canon
    w = WD.World(f)
    try:
        pr, vr = canon.renames(w)
    except Exception:
        return w
    if not pr and not vr:
        return w
    f2 = FX.Facts(canon.apply(f.data, pr, vr), f.repo)
    f2.canonical_renames = {"paths": pr, "variants": {"%s::%s" % k: v for k, v in vr.items()}}
    return WD.World(f2)


def run_property(prop, tier, w, seed):
    ctx = report.Ctx(prop, tier, w.facts, seed)
    try:
        mod = importlib.import_module("rules.%s" % prop.lower())
        common_rules(ctx, w)
        if tier == "thorough":
            config_independence(ctx, w)
        mod.run(ctx, w)
    except WD.AnchorError as e:
        ctx.violation("ANCHOR", "derive", "anchor derivation failed: %s" % e)
    except H.Unsupported as e:
        ctx.violation("ENGINE", "unsupported", "construct outside the analysed fragment (fail closed): %s" % e,
                      detail=traceback.format_exc())
    except Exception as e:  # fail closed, never silently pass
        ctx.violation("ENGINE", "internal", "internal error in the checker (fail closed): %r" % e,
                      detail=traceback.format_exc())
    return ctx.finish()


def main(argv):
    if len(argv) < 2:
        print(__doc__)
        return 2
    prop = argv[1]
    tier = os.environ.get("VERIF_TIER", "quick")
    facts_file = None
    replay = None
    i = 2
    while i < len(argv):
        if argv[i] in ("quick", "thorough"):
            tier = argv[i]
        elif argv[i] == "--facts":
            facts_file = argv[i + 1]
            i += 1
        elif argv[i] == "--replay":
            replay = argv[i + 1]
            i += 1
        i += 1
    seed = int(os.environ.get("VERIF_SEED", "0") or 0)
    t0 = time.time()
    try:
        if facts_file:
            f = FX.Facts(json.load(open(facts_file)))
        else:
            f = FX.extract()
    except FX.ExtractError as e:
        # cannot analyse => cannot claim the property holds
        props = PROPS if prop == "all" else [prop]
        rc = 0
        for p in props:
            ctx = report.Ctx(p, tier, FX.Facts({"crate": "avt", "adts": [], "consts": [], "fns": [], "hir": [], "mir": []}), seed)
            ctx.violation("EXTRACT", "facts", "could not extract facts from /repo (does it build?): %s" % e)
            rc |= ctx.finish()
        return rc
    w = canonical_world(f)
    if replay:
        r = json.load(open(replay))
        prop = r.get("property", prop)
        print("replaying %s (re-evaluating all rules of %s on the current tree; looking for key %s)" % (replay, prop, r.get("key")))
    have = [p for p in PROPS if os.path.exists(os.path.join(os.path.dirname(os.path.abspath(__file__)), "rules", p.lower() + ".py"))]
    props = have if prop == "all" else [prop]
    rc = 0
    for p in props:
        rc |= run_property(p, tier, w, seed)
    return rc


if __name__ == "__main__":
    sys.exit(main(sys.argv))
