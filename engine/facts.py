"""Fact extraction and loading.

Facts are re-extracted from the repository's *current working tree* on every
run by the avt-facts rustc driver (see /verif/driver).  Nothing is cached
between runs.
"""
import json
import os
import subprocess
import tempfile
import time

HERE = os.path.dirname(os.path.dirname(os.path.abspath(__file__)))
REPO = os.environ.get("AVT_REPO", "/repo")


class ExtractError(Exception):
    pass


def extract(repo=None, overflow_checks="on"):
    repo = repo or REPO
    fd, out = tempfile.mkstemp(prefix="avt-facts-", suffix=".json")
    os.close(fd)
    t0 = time.time()
    try:
        p = subprocess.run(
            [os.path.join(HERE, "bin", "extract-facts"), out, repo, overflow_checks],
            stdout=subprocess.PIPE,
            stderr=subprocess.PIPE,
            text=True,
        )
        if p.returncode != 0:
            raise ExtractError(
                "fact extraction failed (exit %d):\n%s" % (p.returncode, p.stderr[-4000:])
            )
        st = os.stat(out)
        if st.st_size == 0 or st.st_mtime < t0 - 1:
            raise ExtractError("fact file missing or stale")
        with open(out) as f:
            data = json.load(f)
        if data.get("crate") != "avt":
            raise ExtractError("fact file is for crate %r, expected 'avt'" % data.get("crate"))
        return Facts(data, repo)
    finally:
        try:
            os.unlink(out)
        except OSError:
            pass


class Facts:
    def __init__(self, data, repo=REPO):
        self.repo = repo
        self.data = data
        self.adts = {a["path"]: a for a in data["adts"]}
        self.consts = {c["path"]: c for c in data["consts"]}
        self.fns = {f["path"]: f for f in data["fns"]}
        self.hir = {h["path"]: h for h in data["hir"]}
        # the destructuring-assignment desugaring binds several temporaries under the one name `lhs` (distinct ids): make the names distinct
        def _uniq(n):
            if isinstance(n, dict):
                if n.get("name") == "lhs" and n.get("id") and (n.get("p") == "bind" or (n.get("k") == "path" and n.get("res") == "local")):
                    n["name"] = "lhs#%s" % n["id"]
                for v in n.values():
                    _uniq(v)
            elif isinstance(n, list):
                for v in n:
                    _uniq(v)
        for h in self.hir.values():
            _uniq(h)
        self.mir = {m["path"]: m for m in data["mir"]}
        self.overflow_checks = data.get("overflow_checks")

    # ---- ADT helpers -------------------------------------------------
    def struct_fields(self, path):
        a = self.adts.get(path)
        if a is None or a["kind"] != "struct":
            return None
        return a["variants"][0]["fields"]

    def field_names(self, path):
        fs = self.struct_fields(path)
        return None if fs is None else [f["name"] for f in fs]

    def enum_variants(self, path):
        a = self.adts.get(path)
        if a is None or a["kind"] != "enum":
            return None
        return [v["name"] for v in a["variants"]]

    def const_int(self, path):
        c = self.consts.get(path)
        if c is None or not c.get("value") or "int" not in c["value"]:
            return None
        return c["value"]["int"]

    def rel(self, file):
        """Path of a source file relative to the repo root (for reports)."""
        if file and file.startswith(self.repo.rstrip("/") + "/"):
            return file[len(self.repo.rstrip("/")) + 1 :]
        return file

    def is_test_path(self, path):
        return "::tests::" in path or path.startswith("tests::") or "::tests" == path[-7:]

    def nontest_mir(self):
        for p, b in self.mir.items():
            if not self.is_test_path(p):
                yield p, b
