"""HIR utilities: walkers, pattern semantics (A1 match-table extraction),
a pure-expression evaluator for guards/offsets on class representatives, and
the decoder for format_args! templates.

Generic; no avt-specific rule lives here.
"""
import json


class Unsupported(Exception):
    """The construct is outside what this analysis understands: callers must
    fail closed (report), never guess."""


# ----------------------------------------------------------------------
# walking
# ----------------------------------------------------------------------
def children(n):
    if isinstance(n, dict):
        for k, v in n.items():
            if k in ("macro",):
                continue
            if isinstance(v, (dict, list)):
                yield v
    elif isinstance(n, list):
        for v in n:
            if isinstance(v, (dict, list)):
                yield v


def walk(n):
    """Pre-order over all dict nodes."""
    st = [n]
    while st:
        x = st.pop()
        if isinstance(x, dict):
            yield x
            st.extend(reversed(list(children(x))))
        elif isinstance(x, list):
            st.extend(reversed(x))


def find(n, pred):
    return [x for x in walk(n) if pred(x)]


def is_k(n, k):
    return isinstance(n, dict) and n.get("k") == k


def unwrap(n):
    """Strip transparent wrappers: blocks with only a tail expr, `use`, type
    ascription, DropTemps (already stripped by the exporter)."""
    while isinstance(n, dict):
        if n.get("k") == "block" and not n.get("stmts") and "expr" in n and not n.get("unsafe"):
            n = n["expr"]
        elif n.get("k") in ("use", "type"):
            n = n["e"]
        else:
            break
    return n


def path_of(n):
    n = unwrap(n)
    if is_k(n, "path") and n.get("res") in ("def", "selfctor"):
        return n.get("path")
    return None


def local_name(n):
    n = unwrap(n)
    if is_k(n, "path") and n.get("res") == "local":
        return n.get("name")
    return None


def self_field(n):
    """self.a.b.c -> ('a','b','c'); None if not rooted at `self`."""
    n = unwrap(n)
    parts = []
    while is_k(n, "field"):
        parts.append(n["name"])
        n = unwrap(n["base"])
    if is_k(n, "unary") and n.get("op") == "*":
        n = unwrap(n["e"])
    if local_name(n) == "self":
        return tuple(reversed(parts))
    return None


def field_chain(n):
    """x.a.b -> ('x', ('a','b')) for a local root; else None."""
    n = unwrap(n)
    parts = []
    while is_k(n, "field"):
        parts.append(n["name"])
        n = unwrap(n["base"])
    while is_k(n, "unary") and n.get("op") == "*":
        n = unwrap(n["e"])
    nm = local_name(n)
    if nm is None:
        return None
    return nm, tuple(reversed(parts))


def stmts_of(block):
    """Statement expressions of a block, tail expr included, in order."""
    block = block if is_k(block, "block") else {"k": "block", "stmts": [], "expr": block}
    out = []
    for s in block.get("stmts", []):
        out.append(s)
    if "expr" in block:
        out.append({"k": "tail", "e": block["expr"], "line": block["expr"].get("line")})
    return out


# ----------------------------------------------------------------------
# concrete values for pattern matching
#   enum unit variant / unit struct: ("v", path)
#   tuple-like variant with payload:  ("v", path, (args...))
#   ints / chars:                     int
#   bool:                             bool
#   tuple:                            ("t", (items...))
#   slice / array:                    ("s", (items...))
#   reference: transparent
# ----------------------------------------------------------------------
SOME = "core::option::Option::Some"
NONE = "core::option::Option::None"


def some(x):
    return ("v", SOME, (x,))


NONE_V = ("v", NONE)


def lit_value(e):
    t = e.get("t")
    if t in ("char", "int", "byte"):
        return e["v"]
    if t == "bool":
        return e["v"]
    if t == "str":
        return ("str", e["v"])
    raise Unsupported("literal %r" % t)


def pat_matches(p, v, env):
    """Does pattern p match concrete value v?  Bindings are added to env.
    Exact Rust semantics for the supported pattern forms."""
    k = p["p"]
    if k == "wild":
        return True
    if k == "bind":
        env[p["name"]] = v
        if "sub" in p:
            return pat_matches(p["sub"], v, env)
        return True
    if k in ("ref", "deref", "box"):
        return pat_matches(p["pat"], v, env)
    if k == "expr":
        e = p["e"]
        if e["k"] == "lit":
            return lit_value(e) == v
        if e["k"] == "path":
            return isinstance(v, tuple) and v[0] == "v" and v[1] == e.get("path") and len(v) == 2
        raise Unsupported("pattern expr %r" % e["k"])
    if k == "range":
        lo = lit_value(p["lo"]) if p["lo"] else None
        hi = lit_value(p["hi"]) if p["hi"] else None
        if not isinstance(v, int) or isinstance(v, bool):
            return False
        if lo is not None and v < lo:
            return False
        if hi is not None:
            if p["inclusive"]:
                return v <= hi
            return v < hi
        return True
    if k == "tuple":
        if not (isinstance(v, tuple) and v[0] == "t"):
            raise Unsupported("tuple pattern against %r" % (v,))
        items = v[1]
        pats = p["pats"]
        if "dotdot" in p:
            raise Unsupported("tuple pattern with ..")
        if len(pats) != len(items):
            return False
        return all(pat_matches(q, x, env) for q, x in zip(pats, items))
    if k == "tuplestruct":
        path = p["path"].get("path")
        if not (isinstance(v, tuple) and v[0] == "v"):
            raise Unsupported("tuplestruct pattern against %r" % (v,))
        if v[1] != path:
            return False
        args = v[2] if len(v) > 2 else ()
        pats = p["pats"]
        if "dotdot" in p:
            raise Unsupported("tuplestruct pattern with ..")
        if len(args) != len(pats):
            return False
        return all(pat_matches(q, x, env) for q, x in zip(pats, args))
    if k == "or":
        for q in p["pats"]:
            e2 = dict(env)
            if pat_matches(q, v, e2):
                env.update(e2)
                return True
        return False
    if k == "slice":
        if not (isinstance(v, tuple) and v[0] == "s"):
            raise Unsupported("slice pattern against %r" % (v,))
        items = v[1]
        before, mid, after = p["before"], p["mid"], p["after"]
        if mid is None:
            if len(items) != len(before):
                return False
            return all(pat_matches(q, x, env) for q, x in zip(before, items))
        if len(items) < len(before) + len(after):
            return False
        ok = all(pat_matches(q, x, env) for q, x in zip(before, items))
        if after:
            ok = ok and all(pat_matches(q, x, env) for q, x in zip(after, items[len(items) - len(after):]))
        if ok and mid.get("p") == "bind":
            env[mid["name"]] = ("s", tuple(items[len(before):len(items) - len(after)]))
        return ok
    if k == "struct":
        path = (p.get("path") or {}).get("path")
        if isinstance(v, tuple) and v and v[0] == "obj" and v[1] == path:
            for f in p.get("fields", []):
                if f["name"] not in v[2]:
                    raise Unsupported("struct pattern field %s" % f["name"])
                if not pat_matches(f["pat"], v[2][f["name"]], env):
                    return False
            return True
        if isinstance(v, tuple) and v and v[0] == "range" and path == "core::ops::range::Range" and not v[3]:
            vals = {"start": v[1], "end": v[2]}
            return all(pat_matches(f["pat"], vals[f["name"]], env) for f in p.get("fields", []))
        if isinstance(v, tuple) and v and v[0] == "v" and path and path.endswith("::Some") and v[1] == path:
            flds = p.get("fields", [])
            return all(pat_matches(f["pat"], v[2][int(f["name"])], env) for f in flds)
        if isinstance(v, tuple) and v and v[0] == "v" and path and (path.endswith("::Some") or path.endswith("::None")):
            return False
        raise Unsupported("struct pattern")
    raise Unsupported("pattern kind %r" % k)


def pat_literals(p, out=None):
    """All integer/char literal boundaries mentioned by a pattern (for
    building the class partition)."""
    out = out if out is not None else set()
    for n in walk(p):
        if n.get("p") == "expr" and n["e"].get("k") == "lit" and n["e"].get("t") in ("char", "int", "byte"):
            v = n["e"]["v"]
            out.add(v)
            out.add(v + 1)
        elif n.get("p") == "range":
            if n["lo"]:
                out.add(lit_value(n["lo"]))
            if n["hi"]:
                h = lit_value(n["hi"])
                out.add(h + 1 if n["inclusive"] else h)
    return out


def expr_literals(e, out=None):
    out = out if out is not None else set()
    for n in walk(e):
        if n.get("k") == "lit" and n.get("t") in ("char", "int", "byte"):
            out.add(n["v"])
            out.add(n["v"] + 1)
    return out


def partition(boundaries, lo, hi):
    """Half-open atoms [a,b) covering [lo,hi) split at the given boundaries."""
    bs = sorted({b for b in boundaries if lo < b < hi} | {lo, hi})
    return [(bs[i], bs[i + 1]) for i in range(len(bs) - 1)]


# ----------------------------------------------------------------------
# pure expression evaluation on concrete representatives
# ----------------------------------------------------------------------
INT_BITS = {"u8": 8, "u16": 16, "u32": 32, "u64": 64, "usize": 64, "i8": 8, "i16": 16, "i32": 32, "i64": 64, "isize": 64}


def eval_expr(e, env):
    e = unwrap(e)
    k = e["k"]
    if k == "lit":
        return lit_value(e)
    if k == "path":
        if e.get("res") == "local":
            if e["name"] not in env:
                raise Unsupported("unbound local %s" % e["name"])
            return env[e["name"]]
        if e.get("res") == "def":
            if e.get("dk", "").startswith("Const") or e.get("dk") == "Const":
                c = env.get(("const", e["path"]))
                if c is None:
                    raise Unsupported("constant %s" % e["path"])
                return c
            return ("v", e["path"])
        raise Unsupported("path %r" % e.get("res"))
    if k == "unary":
        v = eval_expr(e["e"], env)
        if e["op"] == "*":
            return v
        if e["op"] == "!":
            if isinstance(v, bool):
                return not v
            raise Unsupported("bitwise not")
        if e["op"] == "-":
            return -v
        raise Unsupported("unary %s" % e["op"])
    if k == "ref":
        return eval_expr(e["e"], env)
    if k == "cast":
        v = eval_expr(e["e"], env)
        ty = e.get("ty")
        if isinstance(v, bool):
            v = int(v)
        if ty in INT_BITS and isinstance(v, int):
            bits = INT_BITS[ty]
            if v >= 0 and v >> bits:
                # a narrowing cast makes the outcome periodic in the input: the
                # interval partition by literals is no longer exact -> fail closed
                raise Unsupported("narrowing cast of %d to %s loses bits" % (v, ty))
            v &= (1 << bits) - 1
            if ty.startswith("i") and v >> (bits - 1):
                v -= 1 << bits
            return v
        if ty == "char" and isinstance(v, int):
            return v
        raise Unsupported("cast to %s" % ty)
    if k == "binary":
        op = e["op"]
        if op == "&&":
            return bool(eval_expr(e["l"], env)) and bool(eval_expr(e["r"], env))
        if op == "||":
            return bool(eval_expr(e["l"], env)) or bool(eval_expr(e["r"], env))
        a = eval_expr(e["l"], env)
        b = eval_expr(e["r"], env)
        if op in ("==", "!="):
            return (a == b) if op == "==" else (a != b)
        if not (isinstance(a, int) and isinstance(b, int)):
            raise Unsupported("binary %s on non-integers" % op)
        if op == "+":
            r = a + b
        elif op == "-":
            r = a - b
        elif op == "*":
            r = a * b
        elif op == "/":
            if b == 0:
                raise Unsupported("division by zero")
            r = a // b
        elif op == "%":
            if b == 0:
                raise Unsupported("remainder by zero")
            r = a % b
        elif op == "<":
            return a < b
        elif op == "<=":
            return a <= b
        elif op == ">":
            return a > b
        elif op == ">=":
            return a >= b
        elif op == "&":
            r = a & b
        elif op == "|":
            r = a | b
        elif op == "<<":
            r = a << b
        elif op == ">>":
            r = a >> b
        else:
            raise Unsupported("binary %s" % op)
        ty = e.get("ty")
        if ty in INT_BITS:
            bits = INT_BITS[ty]
            if ty.startswith("u") and not (0 <= r < (1 << bits)):
                raise Unsupported("overflow in %s %s %s (%s)" % (a, op, b, ty))
        return r
    if k == "tuple":
        return ("t", tuple(eval_expr(x, env) for x in e["elems"]))
    if k == "field":
        v = eval_expr(e["base"], env)
        if isinstance(v, tuple) and v[0] == "t":
            return v[1][int(e["name"])]
        if isinstance(v, dict):
            return v[e["name"]]
        raise Unsupported("field %s of %r" % (e["name"], v))
    if k == "struct":
        p = e["path"].get("path", "")
        if p.startswith("core::ops::range::Range"):
            f = {x["name"]: eval_expr(x["e"], env) for x in e["fields"]}
            return ("range", f.get("start"), f.get("end"), False)
        raise Unsupported("struct %s" % p)
    if k == "call":
        f = path_of(e["f"])
        if f and f.startswith("core::ops::range::RangeInclusive") and f.endswith("::new"):
            a, b = [eval_expr(x, env) for x in e["args"]]
            return ("range", a, b, True)
        if f == SOME:
            return some(eval_expr(e["args"][0], env))
        if f is not None and unwrap(e["f"]).get("dk", "").startswith("Ctor"):
            return ("v", f, tuple(eval_expr(x, env) for x in e["args"]))
        raise Unsupported("call %s" % f)
    if k == "mcall":
        if e["name"] == "contains" and e.get("callee", "").startswith("core::ops::range::"):
            r = eval_expr(e["recv"], env)
            x = eval_expr(e["args"][0], env)
            if not (isinstance(r, tuple) and r[0] == "range"):
                raise Unsupported("contains on %r" % (r,))
            lo, hi, incl = r[1], r[2], r[3]
            if lo is not None and x < lo:
                return False
            if hi is not None:
                return x <= hi if incl else x < hi
            return True
        raise Unsupported("method %s" % e.get("callee", e["name"]))
    raise Unsupported("expr kind %s" % k)


# ----------------------------------------------------------------------
# match: first matching arm
# ----------------------------------------------------------------------
def first_arm(match_node, value, env=None):
    """Index, arm and bindings of the first arm whose pattern (and guard)
    accepts `value`.  Rust semantics: arms are tried in order."""
    base = env or {}
    for i, arm in enumerate(match_node["arms"]):
        e2 = dict(base)
        if pat_matches(arm["pat"], value, e2):
            if "guard" in arm:
                if not eval_expr(arm["guard"], e2):
                    continue
            return i, arm, e2
    return None, None, None


# ----------------------------------------------------------------------
# format_args! template decoding (encoding of rustc_ast_lowering::format)
# ----------------------------------------------------------------------
def decode_format_template(bs):
    """bytes -> list of pieces: ('lit', str) | ('arg', index, has_options)."""
    i = 0
    out = []
    implicit = 0
    n = len(bs)
    while i < n:
        b = bs[i]
        i += 1
        if b == 0:
            if i != n:
                raise Unsupported("format template: trailing bytes")
            return out
        if b < 0x80:
            out.append(("lit", bytes(bs[i:i + b]).decode("utf-8")))
            i += b
        elif b == 0x80:
            ln = bs[i] | (bs[i + 1] << 8)
            i += 2
            out.append(("lit", bytes(bs[i:i + ln]).decode("utf-8")))
            i += ln
        elif b & 0xC0 == 0xC0:
            opts = False
            if b & 1:
                i += 4
                opts = True
            if b & 2:
                i += 2
            if b & 4:
                i += 2
            pos = implicit
            if b & 8:
                pos = bs[i] | (bs[i + 1] << 8)
                i += 2
            implicit = pos + 1
            out.append(("arg", pos, opts))
        else:
            raise Unsupported("format template opcode 0x%02x" % b)
    raise Unsupported("format template: missing terminator")


def format_call(n):
    """If n is the HIR of a format!/format_args!-style invocation return
    (pieces, [arg exprs]); else None.  Recognises
      must_use({ fmt::format({ let args = (&a, &b); let args = [Argument::new_*(args.N) ...]; Arguments::new(b"..", &args) }) })
    and the literal-only form Arguments::from_str("...")."""
    calls = find(n, lambda x: is_k(x, "call") and (path_of(x["f"]) or "").startswith("core::fmt::Arguments"))
    if not calls:
        return None
    c = calls[0]
    f = path_of(c["f"])
    if f.endswith("::from_str") or f.endswith("::from_str_nonconst"):
        a = unwrap(c["args"][0])
        if is_k(a, "lit") and a.get("t") == "str":
            return [("lit", a["v"])], []
        raise Unsupported("from_str with non-literal")
    if not f.endswith("::new"):
        raise Unsupported("fmt::Arguments constructor %s" % f)
    tmpl = unwrap(c["args"][0])
    if not (is_k(tmpl, "lit") and tmpl.get("t") == "bytes"):
        raise Unsupported("format template is not a byte string")
    pieces = decode_format_template(tmpl["v"])
    # argument tuple: `let args = (&a, &b, ...)`
    tuples = [s for s in find(n, lambda x: is_k(x, "let") and x["pat"].get("name") == "args" and is_k(unwrap(x.get("init", {})), "tuple"))]
    arrays = [s for s in find(n, lambda x: is_k(x, "let") and x["pat"].get("name") == "args" and is_k(unwrap(x.get("init", {})), "array"))]
    exprs = []
    if tuples:
        for el in unwrap(tuples[0]["init"])["elems"]:
            el = unwrap(el)
            exprs.append(el["e"] if is_k(el, "ref") else el)
    order = []
    if arrays:
        for el in unwrap(arrays[0]["init"])["elems"]:
            el = unwrap(el)
            if not is_k(el, "call"):
                raise Unsupported("format argument array element")
            fn = path_of(el["f"]) or ""
            a = unwrap(el["args"][0])
            if is_k(a, "field") and local_name(a["base"]) == "args":
                order.append((int(a["name"]), fn.rsplit("::", 1)[-1]))
            else:
                raise Unsupported("format argument reference")
    args = []
    for (idx, kind) in order:
        args.append((exprs[idx], kind))
    return pieces, args


def macro_name(n):
    m = n.get("macro") if isinstance(n, dict) else None
    if not m:
        return None
    return m["names"][-1] if m["names"] else None
