"""Reference tables (the oracle).  Written from the specifications and the
property statements - Paul Williams' DEC-compatible parser diagram
(vt100.net/emu/dec_ansi_parser), ECMA-48 / xterm control functions, the VT100
special graphics set - NOT from avt's source.  Part of the trusted base.
"""

STATES = [
    "Ground", "Escape", "EscapeIntermediate", "CsiEntry", "CsiParam",
    "CsiIntermediate", "CsiIgnore", "DcsEntry", "DcsParam", "DcsIntermediate",
    "DcsPassthrough", "DcsIgnore", "OscString", "SosPmApcString",
]

C0X = [(0x00, 0x17), (0x19, 0x19), (0x1C, 0x1F)]


def _in(ch, ranges):
    return any(lo <= ch <= hi for lo, hi in ranges)


def fold(ch):
    """Deviation stated by the property: every code point >= U+00A0 is handled
    like an ordinary final-class printable."""
    return 0x41 if ch >= 0xA0 else ch


def transition(state, ch):
    """-> (next_state, action, clear_on_entry)
    action in: ignore print execute collect param esc_dispatch csi_dispatch none
    ('none' = pure transition; put / osc_put count as ignore)."""
    c = fold(ch)
    # anywhere
    if c in (0x18, 0x1A):
        return "Ground", "execute", False
    if c == 0x1B:
        return "Escape", "none", True
    if _in(c, [(0x80, 0x8F), (0x91, 0x97), (0x99, 0x9A)]):
        return "Ground", "execute", False
    if c == 0x9C:
        return "Ground", "none", False
    if c == 0x90:
        return "DcsEntry", "none", True
    if c == 0x9B:
        return "CsiEntry", "none", True
    if c == 0x9D:
        return "OscString", "none", False
    if c in (0x98, 0x9E, 0x9F):
        return "SosPmApcString", "none", False
    s = state
    c0 = _in(c, C0X)
    if s == "Ground":
        if c0:
            return s, "execute", False
        if 0x20 <= c <= 0x7F:
            return s, "print", False
    elif s == "Escape":
        if c0:
            return s, "execute", False
        if c == 0x7F:
            return s, "ignore", False
        if 0x20 <= c <= 0x2F:
            return "EscapeIntermediate", "collect", False
        if c == 0x5B:
            return "CsiEntry", "none", True
        if c == 0x5D:
            return "OscString", "none", False
        if c == 0x50:
            return "DcsEntry", "none", True
        if c in (0x58, 0x5E, 0x5F):
            return "SosPmApcString", "none", False
        if 0x30 <= c <= 0x7E:
            return "Ground", "esc_dispatch", False
    elif s == "EscapeIntermediate":
        if c0:
            return s, "execute", False
        if 0x20 <= c <= 0x2F:
            return s, "collect", False
        if c == 0x7F:
            return s, "ignore", False
        if 0x30 <= c <= 0x7E:
            return "Ground", "esc_dispatch", False
    elif s == "CsiEntry":
        if c0:
            return s, "execute", False
        if c == 0x7F:
            return s, "ignore", False
        if 0x20 <= c <= 0x2F:
            return "CsiIntermediate", "collect", False
        if c == 0x3A:
            return "CsiIgnore", "none", False
        if 0x30 <= c <= 0x39 or c == 0x3B:
            return "CsiParam", "param", False
        if 0x3C <= c <= 0x3F:
            return "CsiParam", "collect", False
        if 0x40 <= c <= 0x7E:
            return "Ground", "csi_dispatch", False
    elif s == "CsiParam":
        if c0:
            return s, "execute", False
        if 0x30 <= c <= 0x3B:      # deviation: ':' separates sub-parameters
            return s, "param", False
        if c == 0x7F:
            return s, "ignore", False
        if 0x3C <= c <= 0x3F:
            return "CsiIgnore", "none", False
        if 0x20 <= c <= 0x2F:
            return "CsiIntermediate", "collect", False
        if 0x40 <= c <= 0x7E:
            return "Ground", "csi_dispatch", False
    elif s == "CsiIntermediate":
        if c0:
            return s, "execute", False
        if 0x20 <= c <= 0x2F:
            return s, "collect", False
        if c == 0x7F:
            return s, "ignore", False
        if 0x30 <= c <= 0x3F:
            return "CsiIgnore", "none", False
        if 0x40 <= c <= 0x7E:
            return "Ground", "csi_dispatch", False
    elif s == "CsiIgnore":
        if c0:
            return s, "execute", False
        if 0x20 <= c <= 0x3F or c == 0x7F:
            return s, "ignore", False
        if 0x40 <= c <= 0x7E:
            return "Ground", "none", False
    elif s == "DcsEntry":
        if c0 or c == 0x7F:
            return s, "ignore", False
        if 0x20 <= c <= 0x2F:
            return "DcsIntermediate", "collect", False
        if c == 0x3A:
            return "DcsIgnore", "none", False
        if 0x30 <= c <= 0x39 or c == 0x3B:
            return "DcsParam", "param", False
        if 0x3C <= c <= 0x3F:
            return "DcsParam", "collect", False
        if 0x40 <= c <= 0x7E:
            return "DcsPassthrough", "none", False
    elif s == "DcsParam":
        if c0 or c == 0x7F:
            return s, "ignore", False
        if 0x30 <= c <= 0x39 or c == 0x3B:
            return s, "param", False
        if c == 0x3A or 0x3C <= c <= 0x3F:
            return "DcsIgnore", "none", False
        if 0x20 <= c <= 0x2F:
            return "DcsIntermediate", "collect", False
        if 0x40 <= c <= 0x7E:
            return "DcsPassthrough", "none", False
    elif s == "DcsIntermediate":
        if c0 or c == 0x7F:
            return s, "ignore", False
        if 0x20 <= c <= 0x2F:
            return s, "collect", False
        if 0x30 <= c <= 0x3F:
            return "DcsIgnore", "none", False
        if 0x40 <= c <= 0x7E:
            return "DcsPassthrough", "none", False
    elif s == "DcsPassthrough":
        if c0 or 0x20 <= c <= 0x7F:
            return s, "ignore", False      # put == ignore while put has no effect
    elif s == "DcsIgnore":
        if c0 or 0x20 <= c <= 0x7F:
            return s, "ignore", False
    elif s == "OscString":
        if c == 0x07:                         # deviation: BEL ends an OSC string
            return "Ground", "none", False
        if c0 or 0x20 <= c <= 0x7F:
            return s, "ignore", False
    elif s == "SosPmApcString":
        if c0 or 0x20 <= c <= 0x7F:
            return s, "ignore", False
    raise AssertionError("reference table incomplete for %s U+%04X" % (state, ch))


# C0 / C1 control functions implemented (everything else executes to nothing)
EXECUTE = {
    0x08: ("Bs",), 0x09: ("Ht",), 0x0A: ("Lf",), 0x0B: ("Lf",), 0x0C: ("Lf",), 0x0D: ("Cr",),
    0x0E: ("So",), 0x0F: ("Si",), 0x84: ("Lf",), 0x85: ("Nel",), 0x88: ("Hts",), 0x8D: ("Ri",),
}


def esc(intermediate, final):
    """ESC <intermediate?> <final> -> function description or None."""
    if intermediate is None:
        if 0x40 <= final <= 0x5F:
            return EXECUTE.get(final + 0x40)      # 7-bit Fe == 8-bit C1
        return {0x37: ("Decsc",), 0x38: ("Decrc",), 0x63: ("Ris",)}.get(final)
    if intermediate == 0x23:
        return ("Decaln",) if final == 0x38 else None
    if intermediate == 0x28:
        return ("Gzd4", ("charset::Charset::Drawing",)) if final == 0x30 else ("Gzd4", ("charset::Charset::Ascii",))
    if intermediate == 0x29:
        return ("G1d4", ("charset::Charset::Drawing",)) if final == 0x30 else ("G1d4", ("charset::Charset::Ascii",))
    return None


P0 = ("param", 0)
P1 = ("param", 1)
P2 = ("param", 2)

ANSI_MODES = {4: "Insert", 20: "NewLine"}
DEC_MODES = {1: "CursorKeys", 6: "Origin", 7: "AutoWrap", 25: "TextCursorEnable", 47: "AltScreenBuffer",
             1047: "AltScreenBuffer", 1048: "SaveCursor", 1049: "SaveCursorAltScreenBuffer"}

CSI_PLAIN = {
    "@": ("Ich", P0), "A": ("Cuu", P0), "B": ("Cud", P0), "C": ("Cuf", P0), "a": ("Cuf", P0),
    "D": ("Cub", P0), "E": ("Cnl", P0), "F": ("Cpl", P0), "G": ("Cha", P0), "`": ("Cha", P0),
    "H": ("Cup", P0, P1), "f": ("Cup", P0, P1), "I": ("Cht", P0),
    "J": ("switch", P0, {0: ("Ed", ("EdScope::Below",)), 1: ("Ed", ("EdScope::Above",)),
                         2: ("Ed", ("EdScope::All",)), 3: ("Ed", ("EdScope::SavedLines",))}, None),
    "K": ("switch", P0, {0: ("El", ("ElScope::ToRight",)), 1: ("El", ("ElScope::ToLeft",)),
                         2: ("El", ("ElScope::All",))}, None),
    "L": ("Il", P0), "M": ("Dl", P0), "P": ("Dch", P0), "S": ("Su", P0), "T": ("Sd", P0),
    "W": ("switch", P0, {0: ("Ctc", ("CtcOp::Set",)), 2: ("Ctc", ("CtcOp::ClearCurrentColumn",)),
                         5: ("Ctc", ("CtcOp::ClearAll",))}, None),
    "X": ("Ech", P0), "Z": ("Cbt", P0), "b": ("Rep", P0), "d": ("Vpa", P0), "e": ("Vpr", P0),
    "g": ("switch", P0, {0: ("Tbc", ("TbcScope::CurrentColumn",)), 3: ("Tbc", ("TbcScope::All",))}, None),
    "h": ("Sm", ("modes", "ansi")), "l": ("Rm", ("modes", "ansi")),
    "m": ("Sgr", ("collect", "sgr")),
    "r": ("Decstbm", P0, P1), "s": ("Scosc",), "u": ("Scorc",),
    # XTWINOPS 8 ; rows ; cols  ->  Resize(cols, rows)
    "t": ("switch", P0, {8: ("Xtwinops", ("XtwinopsOp::Resize", P2, P1))}, None),
}


def csi(intermediate, final):
    f = chr(final)
    if intermediate is None:
        return CSI_PLAIN.get(f)
    if intermediate == 0x21 and f == "p":
        return ("Decstr",)
    if intermediate == 0x3F and f == "h":
        return ("Decset", ("modes", "dec"))
    if intermediate == 0x3F and f == "l":
        return ("Decrst", ("modes", "dec"))
    return None


# VT100 special graphics (DEC Special Character and Line Drawing Set), 0x60..0x7E
SPECIAL_GRAPHICS = [
    0x25C6, 0x2592, 0x2409, 0x240C, 0x240D, 0x240A, 0x00B0, 0x00B1, 0x2424, 0x240B,
    0x2518, 0x2510, 0x250C, 0x2514, 0x253C, 0x23BA, 0x23BB, 0x2500, 0x23BC, 0x23BD,
    0x251C, 0x2524, 0x2534, 0x252C, 0x2502, 0x2264, 0x2265, 0x03C0, 0x2260, 0x00A3, 0x22C5,
]
# avt deliberately uses U+2666 BLACK DIAMOND SUIT for 0x60 (xterm uses U+25C6);
# both are accepted renderings of the VT100 diamond.
SPECIAL_GRAPHICS_ALT = {0: (0x25C6, 0x2666), 30: (0x00B7, 0x22C5)}


def sgr_single(n):
    """Reference for one-part SGR parameters -> op description or None (unknown)."""
    simple = {
        0: ("Reset",), 1: ("SetBoldIntensity",), 2: ("SetFaintIntensity",), 3: ("SetItalic",),
        4: ("SetUnderline",), 5: ("SetBlink",), 7: ("SetInverse",), 9: ("SetStrikethrough",),
        21: ("ResetIntensity",), 22: ("ResetIntensity",), 23: ("ResetItalic",), 24: ("ResetUnderline",),
        25: ("ResetBlink",), 27: ("ResetInverse",), 29: ("ResetStrikethrough",),
        39: ("ResetForegroundColor",), 49: ("ResetBackgroundColor",),
    }
    if n in simple:
        return simple[n]
    if 30 <= n <= 37:
        return ("SetForegroundColor", ("Indexed", n - 30))
    if 40 <= n <= 47:
        return ("SetBackgroundColor", ("Indexed", n - 40))
    if 90 <= n <= 97:
        return ("SetForegroundColor", ("Indexed", n - 90 + 8))
    if 100 <= n <= 107:
        return ("SetBackgroundColor", ("Indexed", n - 100 + 8))
    return None
