"""A small abstract interpreter for HIR bodies over *class representatives*:
integers are either concrete (a representative of a class of the exact literal
partition) or symbolic (a value no pattern/guard inspects, tracked as a term
through casts and constructor calls).  Anything outside the supported
fragment raises hir.Unsupported: callers fail closed.

Used to extract decision tables (SGR decoder, small selector functions); it is
never run on program inputs, only on one representative per cell of the
partition induced by the literals of the analysed function itself.
"""
import hir as H

SOME, NONE = H.SOME, H.NONE


class Break(Exception):
    pass


class Ret(Exception):
    def __init__(self, v):
        self.v = v


def sym(name):
    return ("sym", name)


def is_symbolic(v):
    if isinstance(v, tuple):
        if v and v[0] in ("sym", "symcast"):
            return True
        return any(is_symbolic(x) for x in v if isinstance(x, tuple))
    return False


INT_TYS = ("u8", "u16", "u32", "u64", "u128", "usize", "i8", "i16", "i32", "i64", "i128", "isize")


class Interp:
    def __init__(self, facts, max_steps=20000):
        self.facts = facts
        self.steps = 0
        self.max_steps = max_steps
        self.self_obj = None          # dict field -> value (mutable)
        self.local_calls = []

    def tick(self):
        self.steps += 1
        if self.steps > self.max_steps:
            raise H.Unsupported("evaluation does not terminate within %d steps (no progress?)" % self.max_steps)

    # objects: ("obj", adt, dict)
    def call_fn(self, path, args):
        h = self.facts.hir.get(path)
        if h is None:
            raise H.Unsupported("no body for %s" % path)
        self.local_calls.append(path)
        env = {}
        if len(h["params"]) != len(args):
            raise H.Unsupported("arity of %s" % path)
        for p, a in zip(h["params"], args):
            if not H.pat_matches(p, a, env) if p["p"] != "bind" else False:
                raise H.Unsupported("parameter pattern of %s" % path)
            if p["p"] == "bind":
                env[p["name"]] = a
        try:
            return self.block(h["body"], env)
        except Ret as r:
            return r.v

    def block(self, b, env):
        b = b if H.is_k(b, "block") else {"k": "block", "stmts": [], "expr": b}
        for s in b.get("stmts", []):
            self.tick()
            k = s["k"]
            if k == "item":
                continue
            if k == "let":
                v = self.ev(s["init"], env) if "init" in s else None
                e2 = dict(env)
                if not self.match_pat(s["pat"], v, e2):
                    if "els" in s:
                        self.block(s["els"], env)
                        raise H.Unsupported("let-else fell through")
                    raise H.Unsupported("irrefutable let pattern did not match")
                env.update(e2)
            else:
                self.ev(s["e"], env)
        if "expr" in b:
            return self.ev(b["expr"], env)
        return ("t", ())

    def match_pat(self, p, v, env):
        # references are transparent; objects match struct patterns by field
        if isinstance(v, tuple) and v and v[0] in ("sym", "symcast"):
            k = p["p"]
            if k == "bind":
                env[p["name"]] = v
                return True
            if k == "wild":
                return True
            if k in ("ref", "deref"):
                return self.match_pat(p["pat"], v, env)
            raise H.Unsupported("pattern inspects a symbolic value")
        return H.pat_matches(p, v, env)

    def ev(self, e, env):
        self.tick()
        e = H.unwrap(e)
        k = e["k"]
        if k == "lit":
            return H.lit_value(e)
        if k == "path":
            if e.get("res") == "local":
                if e["name"] not in env:
                    raise H.Unsupported("unbound local %s" % e["name"])
                return env[e["name"]]
            if e.get("res") == "def":
                dk = e.get("dk", "")
                if dk.startswith("Const") or dk == "AssocConst":
                    c = self.facts.const_int(e["path"])
                    if c is None:
                        raise H.Unsupported("constant %s" % e["path"])
                    return c
                if dk == "Fn" or dk == "AssocFn":
                    return ("fn", e["path"])
                return ("v", e.get("ctor_of", e["path"]))
            raise H.Unsupported("path %r" % e.get("res"))
        if k in ("ref",):
            return self.ev(e["e"], env)
        if k == "unary":
            v = self.ev(e["e"], env)
            if e["op"] == "*":
                return v
            if e["op"] == "!" and isinstance(v, bool):
                return not v
            raise H.Unsupported("unary %s" % e["op"])
        if k == "cast":
            v = self.ev(e["e"], env)
            ty = e.get("ty")
            if is_symbolic(v):
                return ("symcast", v, ty)
            if getattr(self, "truncating_casts", False) and isinstance(v, int) and not isinstance(v, bool) and str(ty) in ("u8", "u16", "u32"):
                return v & ((1 << int(str(ty)[1:])) - 1)         # `as` truncates; used where the VALUE does not matter (progress rule)
            return H.eval_expr({"k": "cast", "ty": ty, "e": _lit(v)}, {})
        if k == "binary":
            op = e["op"]
            if op in ("&&", "||"):
                a = self.ev(e["l"], env)
                if is_symbolic(a):
                    raise H.Unsupported("symbolic condition")
                if op == "&&" and not a:
                    return False
                if op == "||" and a:
                    return True
                b = self.ev(e["r"], env)
                if is_symbolic(b):
                    raise H.Unsupported("symbolic condition")
                return bool(b)
            a = self.ev(e["l"], env)
            b = self.ev(e["r"], env)
            if is_symbolic(a) or is_symbolic(b):
                raise H.Unsupported("arithmetic/comparison on a symbolic value (%s)" % op)
            if op in ("==", "!=") and not (isinstance(a, int) and isinstance(b, int)):
                return (a == b) if op == "==" else (a != b)
            return H.eval_expr({"k": "binary", "op": op, "ty": e.get("ty"), "l": _lit(a), "r": _lit(b)}, {})
        if k == "tuple":
            return ("t", tuple(self.ev(x, env) for x in e["elems"]))
        if k == "array":
            return ("s", tuple(self.ev(x, env) for x in e["elems"]))
        if k == "field":
            base = self.ev(e["base"], env)
            return self.field(base, e["name"])
        if k == "index":
            base = self.ev(e["base"], env)
            idx = self.ev(e["idx"], env)
            return self.index(base, idx)
        if k == "struct":
            p = e["path"].get("path", "")
            flds = {x["name"]: self.ev(x["e"], env) for x in e["fields"]}
            if p == "core::ops::range::RangeFrom":
                return ("rangefrom", flds["start"])
            if p == "core::ops::range::RangeToInclusive":
                return ("rangetoincl", flds["end"])
            if p == "core::ops::range::Range":
                return ("range", flds["start"], flds["end"], False)
            return ("obj", p, flds)
        if k == "call":
            f = H.unwrap(e["f"])
            fp = H.path_of(f)
            if fp is None:
                raise H.Unsupported("indirect call")
            args = [self.ev(a, env) for a in e["args"]]
            dk = f.get("dk", "")
            if fp.startswith("core::ops::range::RangeInclusive") and fp.endswith("::new"):
                return ("range", args[0], args[1], True)
            if dk.startswith("Ctor"):
                return ("v", f.get("ctor_of", fp), tuple(args))
            if fp.endswith("TryFrom::try_from") and len(args) == 1 and isinstance(args[0], int) and not isinstance(args[0], bool):
                import re as _re
                m_ = _re.match(r"core::result::Result<u(\d+),", str(e.get("ty", "")))
                if m_:
                    if 0 <= args[0] < (1 << int(m_.group(1))):
                        return ("v", "core::result::Result::Ok", (args[0],))
                    return ("v", "core::result::Result::Err", (("sym", "TryFromIntError"),))
            if (fp.endswith("convert::From::from") or fp.endswith("convert::Into::into")) and len(args) == 1 and isinstance(args[0], int) and str(e.get("ty", "")) in INT_TYS:
                return int(args[0])         # std only has From between integer types where it is lossless (bool -> 0 / 1)
            if fp in self.facts.hir:
                return self.call_fn(fp, args)
            if fp in ("core::mem::swap", "std::mem::swap") and len(e["args"]) == 2:
                pa, pb = [H.unwrap(a) for a in e["args"]]
                if H.is_k(pa, "ref") and H.is_k(pb, "ref"):
                    va, vb = self.ev(pa["e"], env), self.ev(pb["e"], env)
                    self.assign(pa["e"], vb, env)
                    self.assign(pb["e"], va, env)
                    return ("t", ())
                raise H.Unsupported("mem::swap of non-place arguments")
            if any(H.is_k(H.unwrap(a), "ref") and H.unwrap(a).get("mut") for a in e["args"]):
                raise H.Unsupported("external call %s with a mutable reference (its effect is not modelled)" % fp)
            if fp.endswith("default::Default::default") and not args:
                impl = "<%s as core::default::Default>::default" % e.get("ty")
                if impl in self.facts.hir:          # a local (possibly derived) Default impl, selected by the expression's type
                    return self.call_fn(impl, [])
            return self.ext_call(fp, args)
        if k == "mcall":
            recv = self.ev(e["recv"], env)
            if e.get("name") == "into" and not e.get("callee_local") and isinstance(recv, int) and str(e.get("ty", "")) in INT_TYS:
                return int(recv)
            callee = e.get("callee", "")
            args = []
            for a in e["args"]:
                a2 = H.unwrap(a)
                if H.is_k(a2, "closure"):
                    args.append(("closure", a2["def"], dict(env)))
                else:
                    args.append(self.ev(a, env))
            if e.get("callee_local") and callee in self.facts.hir:
                return self.call_fn(callee, [recv] + args)
            return self.ext_method(e["name"], callee, recv, args)
        if k == "if":
            c = H.unwrap(e["cond"])
            if H.is_k(c, "letexpr"):
                v = self.ev(c["init"], env)
                e2 = dict(env)
                if self.match_pat(c["pat"], v, e2):
                    r = self.block(e["then"], e2)
                    for kk in env:
                        if kk in e2:
                            env[kk] = e2[kk]
                    return r
                if "else" in e:
                    return self.block(e["else"], env)
                return ("t", ())
            cv = self.ev(c, env)
            if is_symbolic(cv):
                raise H.Unsupported("symbolic if condition")
            if cv:
                return self.block(e["then"], env)
            if "else" in e:
                return self.block(e["else"], env)
            return ("t", ())
        if k == "match":
            v = self.ev(e["scrut"], env)
            for arm in e["arms"]:
                e2 = dict(env)
                if self.match_pat(arm["pat"], v, e2):
                    if "guard" in arm:
                        g = self.ev(arm["guard"], e2)
                        if is_symbolic(g):
                            raise H.Unsupported("symbolic guard")
                        if not g:
                            continue
                    self.on_arm(e, arm)
                    r = self.ev(arm["body"], e2)
                    # assignments to locals of the enclosing scope are visible after the match
                    for kk in env:
                        if kk in e2:
                            env[kk] = e2[kk]
                    return r
            raise H.Unsupported("no arm matches")
        if k == "loop":
            while True:
                self.tick()
                try:
                    self.block(e["body"], env)
                except Break:
                    return ("t", ())
        if k == "break":
            raise Break()
        if k == "return":
            raise Ret(self.ev(e["e"], env) if "e" in e else ("t", ()))
        if k == "block":
            return self.block(e, dict(env) if False else env)
        if k == "assign":
            self.assign(e["l"], self.ev(e["r"], env), env)
            return ("t", ())
        if k == "closure":
            return ("closure", e["def"], dict(env))
        raise H.Unsupported("expression kind %s" % k)

    def on_arm(self, match_node, arm):
        pass

    def assign(self, lhs, v, env):
        lhs = H.unwrap(lhs)
        if H.is_k(lhs, "unary") and lhs["op"] == "*":
            # `*r = v` with r a reference to a struct value: references are transparent, the object is updated in place
            tgt = self.ev(lhs["e"], env)
            if isinstance(tgt, tuple) and tgt and tgt[0] == "obj":
                self.replace_obj(tgt, v)
                return
            inner = H.unwrap(lhs["e"])
            if H.is_k(inner, "path") and inner.get("res") == "local" and not (isinstance(tgt, tuple) and tgt and tgt[0] == "obj"):
                raise H.Unsupported("assignment through a reference to a scalar")
        if H.is_k(lhs, "field"):
            base = self.ev(lhs["base"], env)
            if isinstance(base, tuple) and base[0] == "obj":
                base[2][lhs["name"]] = v
                return
        if H.is_k(lhs, "path") and lhs.get("res") == "local":
            env[lhs["name"]] = v
            return
        raise H.Unsupported("assignment target")

    def replace_obj(self, tgt, v):
        if isinstance(v, tuple) and v and v[0] == "obj":
            tgt[2].clear()
            tgt[2].update(v[2])
            return
        raise H.Unsupported("whole-value assignment of %r through a reference" % (v,))

    def field(self, base, name):
        if isinstance(base, tuple):
            if base[0] == "obj":
                if name not in base[2]:
                    raise H.Unsupported("field %s of %s" % (name, base[1]))
                return base[2][name]
            if base[0] == "t":
                return base[1][int(name)]
            if base[0] == "v" and len(base) == 3 and str(name).isdigit() and int(name) < len(base[2]):
                return base[2][int(name)]          # field of a tuple struct / tuple variant
        raise H.Unsupported("field %s of %r" % (name, base))

    def index(self, base, idx):
        if isinstance(base, tuple) and base[0] == "s":
            items = base[1]
            if isinstance(idx, int):
                if not 0 <= idx < len(items):
                    raise H.Unsupported("index %d out of bounds (len %d)" % (idx, len(items)))
                return items[idx]
            if isinstance(idx, tuple) and idx[0] == "rangefrom":
                if idx[1] > len(items):
                    raise H.Unsupported("slice start %d beyond len %d" % (idx[1], len(items)))
                return ("s", tuple(items[idx[1]:]))
            if isinstance(idx, tuple) and idx[0] == "rangetoincl":
                if idx[1] >= len(items):
                    raise H.Unsupported("slice end out of bounds")
                return ("s", tuple(items[:idx[1] + 1]))
            if isinstance(idx, tuple) and idx[0] == "range":
                return ("s", tuple(items[idx[1]:idx[2] + (1 if idx[3] else 0)]))
        raise H.Unsupported("index %r[%r]" % (base, idx))

    def ext_call(self, fp, args):
        # an external constructor-like call (RGB8::new, ...): kept as an opaque term
        return ("ext", fp, tuple(args))

    def ext_method(self, name, callee, recv, args):
        if callee.startswith("core::slice::") and isinstance(recv, tuple) and recv[0] == "s":
            items = recv[1]
            if name == "first":
                return H.some(items[0]) if items else H.NONE_V
            if name == "get" and isinstance(args[0], int):
                return H.some(items[args[0]]) if 0 <= args[0] < len(items) else H.NONE_V
            if name == "len":
                return len(items)
            if name == "is_empty":
                return not items
        if callee.startswith("core::option::Option"):
            if name == "map":
                if recv == H.NONE_V:
                    return H.NONE_V
                inner = recv[2][0]
                return H.some(self.call_closure(args[0], [inner]))
            if name in ("unwrap", "expect"):
                if recv == H.NONE_V:
                    raise H.Unsupported("unwrap on None (would panic)")
                return recv[2][0]
            if name == "is_some":
                return recv != H.NONE_V
            if name == "is_none":
                return recv == H.NONE_V
        if callee.startswith("core::ops::range::") and name == "contains":
            x = args[0]
            lo, hi, incl = recv[1], recv[2], recv[3]
            if is_symbolic(x):
                raise H.Unsupported("symbolic contains")
            if lo is not None and x < lo:
                return False
            return (x <= hi) if incl else (x < hi)
        raise H.Unsupported("external method %s (%s)" % (name, callee))

    def call_closure(self, clo, args):
        if not (isinstance(clo, tuple) and clo[0] == "closure"):
            if isinstance(clo, tuple) and clo[0] == "fn":
                return self.call_fn(clo[1], args)
            raise H.Unsupported("not a closure")
        h = self.facts.hir.get(clo[1])
        if h is None:
            raise H.Unsupported("closure body %s" % clo[1])
        env = dict(clo[2])
        for p, a in zip(h["params"], args):
            if not self.match_pat(p, a, env):
                raise H.Unsupported("closure parameter pattern")
        try:
            return self.block(h["body"], env)
        except Ret as r:
            return r.v


def _lit(v):
    if isinstance(v, bool):
        return {"k": "lit", "t": "bool", "v": v}
    if isinstance(v, int):
        return {"k": "lit", "t": "int", "v": v}
    raise H.Unsupported("non-integer operand %r" % (v,))
