"""MIR analyses: CFG utilities (A3), operand provenance terms (A4) and
interprocedural may-effect summaries over access paths (A2).

Everything here is generic; no rule and no avt-specific name lives in this
file.
"""
import json
from collections import defaultdict

MAX_PATH = 7          # access-path depth cap (longer paths are truncated = coarser)
MAX_TERM_DEPTH = 14


# ----------------------------------------------------------------------
# helpers on raw JSON
# ----------------------------------------------------------------------
SCALARS = {
    "usize", "u8", "u16", "u32", "u64", "u128", "isize", "i8", "i16", "i32",
    "i64", "i128", "bool", "char", "()", "f32", "f64",
}


def ty_is_scalar(ty_s):
    return ty_s in SCALARS


def ty_may_hold_ref(tyj):
    """Can a value of this type carry a pointer to caller-visible memory?
    Uses the driver's structural answer ('hp') when present."""
    if tyj is None:
        return True
    if isinstance(tyj, dict):
        if "hp" in tyj:
            return bool(tyj["hp"])
        tyj = tyj.get("s", "")
    return tyj not in SCALARS


class Point(tuple):
    """(block, index); index == len(stmts) designates the terminator."""
    __slots__ = ()


class Body:
    def __init__(self, j):
        self.j = j
        self.path = j["path"]
        self.blocks = j["blocks"]
        self.arg_count = j["arg_count"]
        self.locals = j["locals"]
        self.names = {}
        for d in j["debug"]:
            if "place" in d and not d["place"]["proj"]:
                self.names[d["place"]["local"]] = d["name"]
        self.upvar_names = {}
        for d in j["debug"]:
            if "place" in d and d["place"]["proj"]:
                self.upvar_names[d["name"]] = d["place"]
        self._succ = None
        self._pred = None
        self._defs = None
        self._rd_in = None
        self._addr_taken = None
        self._partial = None
        self._dom = None

    # ---- CFG ---------------------------------------------------------
    def n_stmts(self, bb):
        return len(self.blocks[bb]["stmts"])

    def term(self, bb):
        return self.blocks[bb]["term"]

    def is_cleanup(self, bb):
        return self.blocks[bb]["cleanup"]

    def succ(self, bb):
        if self._succ is None:
            self._succ = {}
            for b in self.blocks:
                t = b["term"]
                k = t["k"]
                out = []
                if k == "goto":
                    out = [t["target"]]
                elif k == "switch":
                    out = [x[1] for x in t["targets"]] + [t["otherwise"]]
                elif k in ("call",):
                    if t["target"] is not None:
                        out = [t["target"]]
                elif k in ("assert", "drop"):
                    out = [t["target"]]
                elif k == "other":
                    out = list(t.get("succ", []))
                out2 = []
                for x in out:
                    if not self.blocks[x]["cleanup"] and x not in out2:
                        out2.append(x)
                self._succ[b["i"]] = out2
        return self._succ[bb]

    def pred(self, bb):
        if self._pred is None:
            self._pred = defaultdict(list)
            for b in self.blocks:
                if b["cleanup"]:
                    continue
                for s in self.succ(b["i"]):
                    self._pred[s].append(b["i"])
        return self._pred[bb]

    def normal_blocks(self):
        """Blocks reachable from entry through non-cleanup edges."""
        seen = {0}
        st = [0]
        while st:
            b = st.pop()
            for s in self.succ(b):
                if s not in seen:
                    seen.add(s)
                    st.append(s)
        return seen

    def return_blocks(self):
        return [b for b in self.normal_blocks() if self.term(b)["k"] == "return"]

    def reachable_from(self, start_blocks, removed_blocks=(), removed_edges=()):
        seen = set()
        st = []
        for b in start_blocks:
            if b not in removed_blocks and b not in seen:
                seen.add(b)
                st.append(b)
        while st:
            b = st.pop()
            for s in self.succ(b):
                if (b, s) in removed_edges or s in removed_blocks or s in seen:
                    continue
                seen.add(s)
                st.append(s)
        return seen

    def dominators(self):
        if self._dom is None:
            nb = sorted(self.normal_blocks())
            dom = {b: set(nb) for b in nb}
            dom[0] = {0}
            changed = True
            while changed:
                changed = False
                for b in nb:
                    if b == 0:
                        continue
                    ps = [p for p in self.pred(b) if p in dom]
                    if not ps:
                        continue
                    new = set.intersection(*[dom[p] for p in ps]) | {b}
                    if new != dom[b]:
                        dom[b] = new
                        changed = True
            self._dom = dom
        return self._dom

    def block_dominates(self, a, b):
        return a in self.dominators().get(b, ())

    def point_dominates(self, pa, pb):
        if pa[0] == pb[0]:
            return pa[1] <= pb[1]
        return self.block_dominates(pa[0], pb[0])

    # -- point-level path queries -----------------------------------------
    def points(self):
        for b in sorted(self.normal_blocks()):
            for i in range(self.n_stmts(b) + 1):
                yield (b, i)

    def every_path_to_return_hits(self, start, hit_points, include_start=False):
        """True iff every path from `start` (exclusive unless include_start)
        to a Return passes through one of hit_points."""
        hit = set(hit_points)
        # walk points
        seen = set()
        st = []

        def nexts(p):
            b, i = p
            if i < self.n_stmts(b):
                return [(b, i + 1)]
            return [(s, 0) for s in self.succ(b)]

        first = [start] if include_start else nexts(start)
        # start itself being a terminator 'return' with nothing after
        if not include_start and start[1] == self.n_stmts(start[0]) and self.term(start[0])["k"] == "return":
            return False
        for p in first:
            st.append(p)
        while st:
            p = st.pop()
            if p in seen:
                continue
            seen.add(p)
            if p in hit:
                continue
            b, i = p
            if i == self.n_stmts(b) and self.term(b)["k"] == "return":
                return False
            for q in nexts(p):
                st.append(q)
        return True

    def path_exists(self, a, b, avoiding=()):
        """Is there a CFG path from point a (exclusive) to point b (inclusive)
        that avoids the given points?"""
        avoid = set(avoiding)
        seen = set()

        def nexts(p):
            bb, i = p
            if i < self.n_stmts(bb):
                return [(bb, i + 1)]
            return [(s, 0) for s in self.succ(bb)]

        st = list(nexts(a))
        while st:
            p = st.pop()
            if p in seen or p in avoid:
                continue
            seen.add(p)
            if p == tuple(b):
                return True
            st.extend(nexts(p))
        return False

    def points_between(self, a, b):
        """All points that lie on some path from a (exclusive) to b (exclusive)."""
        def nexts(p):
            bb, i = p
            if i < self.n_stmts(bb):
                return [(bb, i + 1)]
            return [(s, 0) for s in self.succ(bb)]

        def prevs_map():
            pm = defaultdict(list)
            for p in self.points():
                for q in nexts(p):
                    pm[q].append(p)
            return pm

        fwd = set()
        st = list(nexts(tuple(a)))
        while st:
            p = st.pop()
            if p in fwd:
                continue
            fwd.add(p)
            if p == tuple(b):
                continue
            st.extend(nexts(p))
        pm = prevs_map()
        bwd = set()
        st = list(pm[tuple(b)])
        while st:
            p = st.pop()
            if p in bwd:
                continue
            bwd.add(p)
            if p == tuple(a):
                continue
            st.extend(pm[p])
        return (fwd & bwd) - {tuple(a), tuple(b)}

    def edge_controls(self, edge, block):
        """Every path entry -> block uses CFG edge (s, t)."""
        if block not in self.normal_blocks():
            return False
        r = self.reachable_from([0], removed_edges={edge})
        return block not in r

    # ---- definitions / reaching definitions ------------------------------
    def _collect_defs(self):
        defs = defaultdict(list)       # local -> [(point, kind, payload)]
        partial = set()
        addr = set()
        for b in self.blocks:
            if b["cleanup"]:
                continue
            bi = b["i"]
            for i, s in enumerate(b["stmts"]):
                if s["k"] == "assign":
                    pl = s["place"]
                    if not pl["proj"]:
                        defs[pl["local"]].append(((bi, i), "assign", s["rv"]))
                    elif not any(e["k"] == "deref" for e in pl["proj"]):
                        partial.add(pl["local"])
                    rv = s["rv"]
                    if rv["k"] in ("ref", "rawptr") and rv.get("mut"):
                        rp = rv["place"]
                        if not any(e["k"] == "deref" for e in rp["proj"]):
                            addr.add(rp["local"])
                elif s["k"] == "setdiscr":
                    partial.add(s["place"]["local"])
            t = b["term"]
            if t["k"] == "call":
                d = t["dest"]
                if not d["proj"]:
                    defs[d["local"]].append(((bi, len(b["stmts"])), "call", t))
                elif not any(e["k"] == "deref" for e in d["proj"]):
                    partial.add(d["local"])
        self._defs = defs
        self._partial = partial
        self._addr_taken = addr

    def defs(self, local):
        if self._defs is None:
            self._collect_defs()
        return self._defs.get(local, [])

    def is_arg(self, local):
        return 1 <= local <= self.arg_count

    def opaque_local(self, local):
        if self._defs is None:
            self._collect_defs()
        return local in self._partial or local in self._addr_taken

    def _compute_rd(self):
        if self._defs is None:
            self._collect_defs()
        multi = [l for l, ds in self._defs.items() if len(ds) + (1 if self.is_arg(l) else 0) > 1]
        nb = sorted(self.normal_blocks())
        rd_in = {b: {l: set() for l in multi} for b in nb}
        last_def = {b: {} for b in nb}   # local -> def index of last def in block
        for l in multi:
            for di, (pt, _, _) in enumerate(self._defs[l]):
                if pt[0] in last_def:
                    cur = last_def[pt[0]].get(l)
                    if cur is None or self._defs[l][cur][0][1] < pt[1]:
                        last_def[pt[0]][l] = di
        for l in multi:
            if self.is_arg(l):
                rd_in[0][l].add("entry")
        changed = True
        while changed:
            changed = False
            for b in nb:
                for l in multi:
                    if l in last_def[b]:
                        out = {last_def[b][l]}
                    else:
                        out = rd_in[b][l]
                    for s in self.succ(b):
                        if s in rd_in and not out <= rd_in[s][l]:
                            rd_in[s][l] |= out
                            changed = True
        self._rd_in = rd_in
        self._multi = set(multi)

    def reaching_defs(self, local, point):
        """List of defs of `local` that reach `point` (before executing it).
        Each is 'entry' or (point, kind, payload)."""
        if self._rd_in is None:
            self._compute_rd()
        ds = self.defs(local)
        b, i = point
        # last def in this block before i
        best = None
        for d in ds:
            (db, di) = d[0]
            if db == b and di < i:
                if best is None or best[0][1] < di:
                    best = d
        if best is not None:
            return [best]
        if local in self._multi:
            out = []
            for x in sorted(self._rd_in.get(b, {}).get(local, ()), key=str):
                out.append("entry" if x == "entry" else ds[x])
            return out
        if ds:
            return [ds[0]]
        if self.is_arg(local):
            return ["entry"]
        return []


# ----------------------------------------------------------------------
# A4: provenance terms
# ----------------------------------------------------------------------
def const_term(o):
    if "fn" in o:
        return ("const", ("fn", o["fn"]))
    v = o.get("val")
    ty = o["ty"]["s"]
    if v is None:
        return ("const", ("opaque", ty))
    if "int" in v:
        return ("const", v["int"])
    if "bool" in v:
        return ("const", bool(v["bool"]))
    if "char" in v:
        return ("const", ("char", v["char"]))
    if "str" in v:
        return ("const", ("str", v["str"]))
    if "zst" in v:
        return ("const", ("zst", ty))
    if "array" in v:
        return ("const", ("array", tuple(v["array"])))
    if "promoted" in o:
        return ("const", ("promoted", o["promoted"], ty))
    return ("const", ("opaque", ty))


CHECKED = {"AddWithOverflow": "Add", "SubWithOverflow": "Sub", "MulWithOverflow": "Mul"}


class Terms:
    """Provenance terms for operands of one body."""

    def __init__(self, body, promoted_terms=None):
        self.b = body
        self.promoted = promoted_terms or {}

    def operand(self, o, point, depth=0, visiting=frozenset()):
        k = o["k"]
        if k == "const":
            t = const_term(o)
            if t[0] == "const" and isinstance(t[1], tuple) and t[1][0] == "promoted":
                pt = self.promoted.get(t[1][1])
                if pt is not None:
                    return pt
            return t
        if k in ("copy", "move"):
            return self.place(o, point, depth, visiting)
        return ("unknown", json.dumps(o)[:40])

    def local(self, l, point, depth=0, visiting=frozenset()):
        b = self.b
        if depth > MAX_TERM_DEPTH:
            return ("deep", l)
        if b.opaque_local(l) and not (b.is_arg(l) and not b.defs(l)):
            # address-taken or partially assigned locals are not expanded as
            # values.  A local with a single whole definition whose address is
            # taken (an iterator advanced through &mut, ...) is rendered as
            # ("obj", <initialising term>): "the object created by ..., possibly
            # mutated since".
            ds = b.defs(l)
            if l not in (b._partial or ()) and len(ds) == 1 and not b.is_arg(l):
                pt, kind, payload = ds[0]
                key = (l, pt)
                if key not in visiting:
                    v2 = visiting | {key}
                    init = self.rvalue(payload, pt, depth + 1, v2) if kind == "assign" else self.call(payload, pt, depth + 1, v2)
                    return ("obj", init)
            return ("local", l, b.names.get(l))
        rds = b.reaching_defs(l, point)
        if not rds:
            return ("local", l, b.names.get(l))
        outs = []
        for d in rds:
            if d == "entry":
                outs.append(("load", ("arg%d" % l,)))
                continue
            pt, kind, payload = d
            key = (l, pt)
            if key in visiting:
                outs.append(("loop", l, b.names.get(l)))
                continue
            v2 = visiting | {key}
            if kind == "assign":
                outs.append(self.rvalue(payload, pt, depth + 1, v2))
            else:
                outs.append(self.call(payload, pt, depth + 1, v2))
        uniq = []
        for t in outs:
            if t not in uniq:
                uniq.append(t)
        if len(uniq) == 1:
            return uniq[0]
        return ("phi", tuple(sorted(uniq, key=repr)))

    def call(self, t, pt, depth, visiting):
        c = t["callee"]
        name = c.get("resolved") or c.get("decl") or "<indirect>"
        args = tuple(self.operand(a, pt, depth, visiting) for a in t["args"])
        return ("call", name, args)

    def place(self, p, point, depth=0, visiting=frozenset()):
        b = self.b
        l = p["local"]
        proj = p["proj"]
        if b.is_arg(l) and not b.defs(l) and not (l in (b._addr_taken or ())):
            cur = ("load", ("arg%d" % l,))
        else:
            cur = self.local(l, point, depth, visiting)
        for e in proj:
            cur = self._project(cur, e, point, depth, visiting)
        return cur

    def _project(self, cur, e, point, depth, visiting):
        k = e["k"]
        if k == "deref":
            if cur[0] == "ref":
                return cur[2]
            if cur[0] == "load":
                return cur
            return ("deref", cur)
        if k == "field":
            name = e["name"]
            if cur[0] == "load":
                return ("load", cur[1] + (name,))
            if cur[0] == "tuple":
                try:
                    return cur[1][int(e["i"])]
                except (ValueError, IndexError):
                    pass
            if cur[0] == "adt":
                # ("adt", adt, variant, field_names, ops)
                try:
                    return cur[4][int(e["i"])]
                except (ValueError, IndexError):
                    pass
            if cur[0] == "checked" and e["i"] == 0:
                return ("binop", cur[1], cur[2], cur[3])
            if cur[0] == "checked" and e["i"] == 1:
                return ("overflowed", cur[1], cur[2], cur[3])
            return ("field", cur, name)
        if k == "index":
            idx = self.local(e["local"], point, depth + 1, visiting)
            if cur[0] == "load":
                return ("load", cur[1] + (("idx", idx),))
            return ("index", cur, idx)
        if k == "constindex":
            if cur[0] == "load":
                return ("load", cur[1] + (("cidx", e["offset"], e["from_end"]),))
            return ("index", cur, ("const", e["offset"]))
        if k == "subslice":
            return ("subslice", cur, e["from"], e["to"], e["from_end"])
        if k == "downcast":
            if cur[0] == "load":
                return ("load", cur[1] + ("@" + str(e.get("name", e["variant"])),))
            return ("downcast", cur, e.get("name", e["variant"]))
        return ("proj?", cur, k)

    def rvalue(self, rv, pt, depth=0, visiting=frozenset()):
        k = rv["k"]
        if k == "use":
            return self.operand(rv["op"], pt, depth, visiting)
        if k in ("ref", "rawptr"):
            return ("ref", bool(rv.get("mut")), self.place(rv["place"], pt, depth, visiting))
        if k == "cast":
            return ("cast", self.operand(rv["op"], pt, depth, visiting), rv["to"])
        if k == "binop":
            l = self.operand(rv["l"], pt, depth, visiting)
            r = self.operand(rv["r"], pt, depth, visiting)
            op = rv["op"]
            if op in CHECKED:
                return ("checked", CHECKED[op], l, r)
            return ("binop", op, l, r)
        if k == "unop":
            return ("unop", rv["op"], self.operand(rv["e"], pt, depth, visiting))
        if k == "discr":
            return ("discr", self.place(rv["place"], pt, depth, visiting))
        if k == "aggregate":
            ops = tuple(self.operand(o, pt, depth, visiting) for o in rv["ops"])
            a = rv["agg"]
            if a == "tuple":
                return ("tuple", ops)
            if a == "array":
                return ("array", ops)
            if a == "adt":
                return ("adt", rv["adt"], rv["variant"], tuple(rv["field_names"]), ops)
            if a == "closure":
                return ("closure", rv["closure"], ops)
            return ("agg?", a, ops)
        if k == "repeat":
            return ("repeat", self.operand(rv["op"], pt, depth, visiting), rv["n"])
        return ("rv?", rv.get("dbg", "")[:40])


def term_str(t, names=None):
    """Human-readable rendering of a term."""
    if not isinstance(t, tuple):
        return repr(t)
    k = t[0]
    if k == "const":
        v = t[1]
        if isinstance(v, tuple):
            if v[0] == "char":
                return "'\\u{%x}'" % v[1]
            if v[0] == "str":
                return json.dumps(v[1])
            if v[0] == "fn":
                return v[1]
            if v[0] == "zst":
                return v[1]
            return "<%s>" % (v[0],)
        return str(v).lower() if isinstance(v, bool) else str(v)
    if k == "load":
        parts = []
        for x in t[1]:
            if isinstance(x, tuple):
                if x[0] == "idx":
                    parts[-1] = parts[-1] + "[%s]" % term_str(x[1], names)
                else:
                    parts[-1] = parts[-1] + "[%s%d]" % ("-" if x[2] else "", x[1])
            else:
                parts.append((names or {}).get(x, x))
        return ".".join(parts)
    if k == "ref":
        return ("&mut " if t[1] else "&") + term_str(t[2], names)
    if k == "binop":
        sym = {"Add": "+", "Sub": "-", "Mul": "*", "Div": "/", "Rem": "%", "Lt": "<", "Le": "<=",
               "Gt": ">", "Ge": ">=", "Eq": "==", "Ne": "!=", "BitAnd": "&", "BitOr": "|",
               "Shl": "<<", "Shr": ">>", "BitXor": "^"}.get(t[1], t[1])
        return "(%s %s %s)" % (term_str(t[2], names), sym, term_str(t[3], names))
    if k == "checked":
        return "checked_%s(%s, %s)" % (t[1], term_str(t[2], names), term_str(t[3], names))
    if k == "unop":
        return "%s(%s)" % (t[1], term_str(t[2], names))
    if k == "cast":
        return "(%s as %s)" % (term_str(t[1], names), t[2])
    if k == "call":
        return "%s(%s)" % (t[1], ", ".join(term_str(a, names) for a in t[2]))
    if k == "tuple":
        return "(%s)" % ", ".join(term_str(a, names) for a in t[1])
    if k == "array":
        return "[%s]" % ", ".join(term_str(a, names) for a in t[1])
    if k == "adt":
        return "%s::%s{%s}" % (t[1], t[2], ", ".join(term_str(a, names) for a in t[4]))
    if k == "closure":
        return "closure %s{%s}" % (t[1], ", ".join(term_str(a, names) for a in t[2]))
    if k == "phi":
        return "phi(%s)" % " | ".join(term_str(a, names) for a in t[1])
    if k == "local":
        return "%s" % ((t[2] if len(t) > 2 else None) or ("_%d" % t[1]))
    if k == "loop":
        return "loop:%s" % ((t[2] if len(t) > 2 else None) or ("_%d" % t[1]))
    if k == "obj":
        return "obj<%s>" % term_str(t[1], names)
    if k == "discr":
        return "discriminant(%s)" % term_str(t[1], names)
    if k in ("field",):
        return "%s.%s" % (term_str(t[1], names), t[2])
    if k == "index":
        return "%s[%s]" % (term_str(t[1], names), term_str(t[2], names))
    if k == "deref":
        return "*%s" % term_str(t[1], names)
    return "%s(%s)" % (k, ", ".join(term_str(a, names) if isinstance(a, tuple) else repr(a) for a in t[1:]))


# ----------------------------------------------------------------------
# A2: effect summaries
# ----------------------------------------------------------------------
def trunc(path):
    # collapse consecutive element accesses ("[]" of a sub-slice of a slice)
    if "[]" in path:
        out = []
        for el in path:
            if el == "[]" and out and out[-1] == "[]":
                continue
            out.append(el)
        path = tuple(out)
    return path if len(path) <= MAX_PATH else path[:MAX_PATH]


def path_overlaps(a, b):
    """prefix semantics: a write to `a` may touch `b` iff one is a prefix of
    the other."""
    n = min(len(a), len(b))
    return a[:n] == b[:n]


def path_str(p):
    return ".".join(p)


# std functions that only hand out a sub-reference of their receiver (no
# mutation by themselves); value = path element appended to the alias.
STD_ACCESSORS = {
    "index": "[]", "index_mut": "[]", "deref": None, "deref_mut": None,
    "as_ref": None, "as_mut": None, "as_slice": None, "as_mut_slice": None,
    "as_str": None, "borrow": None, "borrow_mut": None,
    "iter": "[]", "iter_mut": "[]", "first": "[]", "first_mut": "[]",
    "last": "[]", "last_mut": "[]", "get": "[]", "get_mut": "[]",
    "unwrap": None, "expect": None, "unwrap_or": None, "into_iter": "[]",
    "by_ref": None, "split_at_mut": "[]", "split_first_mut": "[]",
    "split_last_mut": "[]", "chunks_mut": "[]",
}
# accessors that only compute an address (place projection): they do not read what they point to
STD_ADDRESS_ONLY = {
    "index", "index_mut", "deref", "deref_mut", "as_ref", "as_mut", "as_slice", "as_mut_slice", "borrow", "borrow_mut",
    "iter", "iter_mut", "by_ref", "into_iter", "split_at_mut", "chunks_mut", "first_mut", "last_mut", "get_mut",
    "next", "next_back", "skip", "take", "rev", "step_by", "enumerate",
}
# std functions that neither write through nor retain their reference arguments
STD_PURE = {
    "len", "is_empty", "eq", "ne", "cmp", "partial_cmp", "lt", "le", "gt", "ge",
    "clone", "to_owned", "to_string", "to_vec", "contains", "is_some", "is_none",
    "binary_search", "partition_point", "min", "max", "fmt", "trim_end", "chars",
    "width", "count", "copied", "cloned",
}


# std mutators that overwrite / move elements without inspecting them
STD_WRITE_ONLY = {
    "fill", "rotate_left", "rotate_right", "insert", "push", "extend", "truncate",
    "clear", "resize", "reserve", "swap", "push_str", "extend_from_slice", "copy_within", "clone_from", "splice", "drain",
    "skip", "take", "rev", "step_by", "enumerate",
}


def is_std_path(p):
    return p.startswith(("core::", "alloc::", "std::", "<core::", "<alloc::", "<std::")) or \
        " as core::" in p or " as alloc::" in p or " as std::" in p or p.startswith("<[") or p.startswith("<&")


class Summary:
    __slots__ = ("W", "R", "ret", "calls")

    def __init__(self):
        self.W = set()      # arg-rooted paths possibly written
        self.R = set()      # arg-rooted paths possibly read
        self.ret = set()    # arg-rooted paths the return value may point into
        self.calls = set()  # local callees reachable (transitively)

    def key(self):
        return (frozenset(self.W), frozenset(self.R), frozenset(self.ret), frozenset(self.calls))


class CallSite:
    __slots__ = ("body", "point", "callee", "decl", "local", "W", "R", "term", "arg_vals", "line", "trait")

    def __init__(self):
        self.W = set()
        self.R = set()


def is_ro_ty(tys):
    return tys.startswith("&") and not tys.startswith("&mut")


def is_ro(p):
    return p[0].startswith("~")


def ro(p):
    return p if p[0].startswith("~") else ("~" + p[0],) + p[1:]


def plain(p):
    return (p[0][1:],) + p[1:] if p[0].startswith("~") else p


def root_kind(p):
    r = p[0][1:] if p[0].startswith("~") else p[0]
    return r[:3]


def root_num(p):
    r = p[0][1:] if p[0].startswith("~") else p[0]
    return int(r[3:])


class Effects:
    """Whole-crate may-effect analysis.  After run():
       summaries[path] : Summary with arg-rooted access paths
       sites[path]     : list of CallSite for each body (with substituted effects)
       stmt_writes[path][point] / stmt_reads[path][point] : direct effects

    Alias paths are tuples rooted at 'argN' (the object argument N refers to,
    derefs are transparent) or 'locN' (storage of local N).  A root prefixed
    with '~' marks an alias obtained through a shared borrow: safe Rust cannot
    write through it (the crate is checked to contain no unsafe block and no
    interior mutability by rules/common.py), so such paths never enter W.
    """

    def __init__(self, facts):
        self.facts = facts
        self.bodies = {p: Body(j) for p, j in facts.mir.items()}
        self.summaries = {p: Summary() for p in self.bodies}
        self.val = {}
        self.sites = {}
        self.stmt_writes = {}
        self.stmt_reads = {}
        self.closure_creations = {}
        self.unknown_callees = set()

    # -- place resolution -------------------------------------------------
    def _resolve(self, body, val, place):
        l = place["local"]
        cur = None
        lf = ()
        for e in place["proj"]:
            k = e["k"]
            if k == "deref":
                if cur is None:
                    cur = self._close(val, set(val.get(l, ())))
                else:
                    cur = self._close(val, cur)
            else:
                if k == "field":
                    el = ("#%d" % e["i"]) if e.get("of") == "closure" else e["name"]
                elif k in ("index", "constindex", "subslice"):
                    el = "[]"
                elif k == "downcast":
                    continue
                else:
                    el = "?"
                if cur is None:
                    lf = lf + (el,)
                else:
                    cur = {trunc(p + (el,)) for p in cur}
        if cur is None:
            return True, {trunc(("loc%d" % l,) + lf)}
        return False, cur

    def _close(self, val, paths):
        """A pointer to a local also reaches whatever that local holds."""
        out = set(paths)
        st = [p for p in out if root_kind(p) == "loc"]
        seen = set()
        while st:
            p = st.pop()
            n = root_num(p)
            if n in seen:
                continue
            seen.add(n)
            for q in val.get(n, ()):
                q2 = ro(q) if is_ro(p) else q
                if q2 not in out:
                    out.add(q2)
                    if root_kind(q2) == "loc":
                        st.append(q2)
        return out

    def _operand_val(self, body, val, o):
        """Paths a value may point into / carry."""
        if o["k"] == "const":
            return set()
        ty = o.get("ty")
        if not o.get("hp", True):
            return set()
        is_local, paths = self._resolve(body, val, o)
        if is_local:
            out = self._close(val, set(val.get(o["local"], ())))
        else:
            out = set(paths)
        if isinstance(ty, str) and ty.startswith("&") and not ty.startswith("&mut"):
            out = {ro(p) for p in out}
        return out

    # -- per body pass ------------------------------------------------------
    def _analyse_body(self, path):
        body = self.bodies[path]
        val = defaultdict(set)
        for a in range(1, body.arg_count + 1):
            ty = body.locals[a]["ty"]
            if "ref" in ty and ty["ref"] == "shared":
                val[a].add(("~arg%d" % a,))
            else:
                val[a].add(("arg%d" % a,))
        summ = Summary()
        sites = []
        sw = defaultdict(set)
        sr = defaultdict(set)
        closures = []
        normal = body.normal_blocks()

        def note_read(o, pt):
            if o["k"] == "const":
                return
            is_local, paths = self._resolve(body, val, o)
            if not is_local:
                sr[pt] |= {plain(p) for p in paths}

        for _round in range(20):
            before = sum(len(v) for v in val.values())
            sites = []
            sw.clear()
            sr.clear()
            closures = []
            for b in body.blocks:
                if b["i"] not in normal:
                    continue
                bi = b["i"]
                for i, s in enumerate(b["stmts"]):
                    pt = (bi, i)
                    if s["k"] != "assign":
                        if s["k"] == "setdiscr":
                            il, dst = self._resolve(body, val, s["place"])
                            if not il:
                                sw[pt] |= {p for p in dst if not is_ro(p)}
                        continue
                    pl = s["place"]
                    rv = s["rv"]
                    is_local, dst = self._resolve(body, val, pl)
                    if not is_local:
                        sw[pt] |= {p for p in dst if not is_ro(p)}
                    vals = set()
                    k = rv["k"]
                    if k == "use":
                        note_read(rv["op"], pt)
                        vals = self._operand_val(body, val, rv["op"])
                    elif k in ("ref", "rawptr"):
                        il, ps = self._resolve(body, val, rv["place"])
                        vals = set(ps)
                        if not rv.get("mut"):
                            vals = {ro(p) for p in vals}
                    elif k == "cast":
                        note_read(rv["op"], pt)
                        vals = self._operand_val(body, val, rv["op"])
                    elif k == "binop":
                        note_read(rv["l"], pt)
                        note_read(rv["r"], pt)
                    elif k == "unop":
                        note_read(rv["e"], pt)
                    elif k == "discr":
                        il, ps = self._resolve(body, val, rv["place"])
                        if not il:
                            sr[pt] |= {plain(p) for p in ps}
                    elif k == "aggregate":
                        for o in rv["ops"]:
                            note_read(o, pt)
                            vals |= self._operand_val(body, val, o)
                        if rv["agg"] == "closure":
                            closures.append((pt, rv["closure"], [self._operand_val(body, val, o) for o in rv["ops"]]))
                    elif k == "repeat":
                        note_read(rv["op"], pt)
                        vals = self._operand_val(body, val, rv["op"])
                    if vals and is_local:
                        val[pl["local"]] |= vals
                t = b["term"]
                pt = (bi, len(b["stmts"]))
                if t["k"] == "call":
                    for a in t["args"]:
                        note_read(a, pt)
                    cs = self._call(body, val, t, pt)
                    sites.append(cs)
                    # a local function passed by name (`iter_mut().for_each(Param::clear)`): it may be called on
                    # anything the other arguments can reach
                    for a in t["args"]:
                        if a.get("k") == "const" and a.get("fn") in self.summaries:
                            sites.append(self._fn_item_call(body, val, t, pt, a["fn"]))
                    d = t["dest"]
                    il, dst = self._resolve(body, val, d)
                    if not il:
                        sw[pt] |= {p for p in dst if not is_ro(p)}
                elif t["k"] == "switch":
                    note_read(t["discr"], pt)
                elif t["k"] == "assert":
                    note_read(t["cond"], pt)
                elif t["k"] == "drop":
                    pass
            for (pt, cdef, upvals) in closures:
                sites.append(self._closure_creation(body, val, pt, cdef, upvals))
            after = sum(len(v) for v in val.values())
            if after == before:
                break

        for pt, ps in sw.items():
            for p in ps:
                if root_kind(p) == "arg":
                    summ.W.add(p)
        for pt, ps in sr.items():
            for p in ps:
                if root_kind(p) == "arg":
                    summ.R.add(p)
        for cs in sites:
            for p in cs.W:
                if root_kind(p) == "arg":
                    summ.W.add(p)
            for p in cs.R:
                if root_kind(p) == "arg":
                    summ.R.add(p)
            if cs.local:
                summ.calls.add(cs.callee)
                summ.calls |= self.summaries[cs.callee].calls
        for p in self._close(val, set(val.get(0, ()))):
            if root_kind(p) == "arg":
                summ.ret.add(p)
        self.val[path] = val
        self.sites[path] = sites
        self.stmt_writes[path] = dict(sw)
        self.stmt_reads[path] = dict(sr)
        self.closure_creations[path] = closures
        return summ

    def _subst(self, val, callee_paths, arg_vals, keep_ro=False):
        """Map callee arg-rooted paths to caller paths.  With keep_ro the result
        keeps the read-only marker (used for returned aliases); otherwise
        read-only bases are dropped (a callee cannot write through them) --
        the caller decides by passing writes or reads."""
        out = set()
        for p in callee_paths:
            if root_kind(p) != "arg":
                continue
            n = root_num(p) - 1
            if n >= len(arg_vals):
                continue
            for base in arg_vals[n]:
                q = trunc(base + p[1:])
                if is_ro(p):
                    q = ro(q)
                out.add(q)
        return out

    def _call(self, body, val, t, pt):
        c = t["callee"]
        cs = CallSite()
        cs.body = body.path
        cs.point = pt
        cs.term = t
        cs.line = t["loc"]["line"]
        cs.decl = c.get("decl")
        cs.trait = c.get("trait")
        resolved = c.get("resolved")
        arg_vals = [self._operand_val(body, val, a) for a in t["args"]]
        cs.arg_vals = arg_vals
        dest_local = t["dest"]["local"] if not t["dest"]["proj"] else None
        if resolved and c.get("resolved_local") and resolved in self.summaries:
            cs.callee = resolved
            cs.local = True
            s = self.summaries[resolved]
            cs.W = {p for p in self._subst(val, s.W, arg_vals) if not is_ro(p)}
            cs.R = {plain(p) for p in self._subst(val, s.R, arg_vals)}
            if dest_local is not None:
                val[dest_local] |= self._subst(val, s.ret, arg_vals, keep_ro=True)
        else:
            cs.callee = resolved or c.get("decl") or "<indirect>"
            cs.local = False
            ops = list(t["args"])
            if "indirect" in c:
                ops.append(c["indirect"])
                arg_vals = arg_vals + [self._operand_val(body, val, c["indirect"])]
            rets = set()
            dname = c.get("decl_name") or ""
            std = is_std_path(cs.callee) or is_std_path(cs.decl or "")
            accessor = std and dname in STD_ACCESSORS
            pure = std and dname in STD_PURE
            for a, av in zip(ops, arg_vals):
                if not av:
                    continue
                ty = a.get("ty") if a["k"] != "const" else a["ty"]["s"]
                tys = ty if isinstance(ty, str) else (ty or {}).get("s", "")
                if not (std and dname in STD_WRITE_ONLY and not is_ro_ty(tys)) and not (std and dname in STD_ADDRESS_ONLY):
                    cs.R |= {plain(p) for p in av}
                if accessor:
                    el = STD_ACCESSORS[dname]
                    rets |= {trunc(p + (el,)) for p in av} if el else av
                    continue
                if pure:
                    continue
                cs.W |= {p for p in av if not is_ro(p)}
                rets |= av
            if dest_local is not None:
                dty = body.locals[dest_local]["ty"]
                if ty_may_hold_ref(dty):
                    val[dest_local] |= rets
            if not resolved:
                self.unknown_callees.add((body.path, cs.callee))
        return cs

    def _fn_item_call(self, body, val, t, pt, g):
        cs = CallSite()
        cs.body = body.path
        cs.point = pt
        cs.term = None
        cs.line = t["loc"]["line"]
        cs.decl = g
        cs.trait = None
        cs.callee = g
        cs.local = True
        others = set()
        for a in t["args"]:
            if a.get("k") == "const":
                continue
            av = self._operand_val(body, val, a)
            others |= set(av) | {trunc(p + ("[]",)) for p in av}
        cs.arg_vals = [others]
        s = self.summaries[g]

        def sub(paths, keep_ro=False):
            out = set()
            for p in paths:
                if p[0] != "arg1":
                    continue
                for base in others:
                    q = trunc(tuple(base) + tuple(p[1:]))
                    if keep_ro or not is_ro(q):
                        out.add(q)
            return out
        cs.W = sub(s.W)
        cs.R = {plain(p) for p in sub(s.R, keep_ro=True)}
        return cs

    def _closure_creation(self, body, val, pt, cdef, upvals):
        cs = CallSite()
        cs.body = body.path
        cs.point = pt
        cs.term = None
        cs.line = None
        cs.decl = cdef
        cs.trait = None
        cs.callee = cdef
        cs.local = cdef in self.summaries
        cs.arg_vals = upvals
        if cs.local:
            s = self.summaries[cdef]

            def sub(paths):
                out = set()
                for p in paths:
                    if p[0] != "arg1":
                        continue
                    idx = None
                    if len(p) >= 2 and p[1].startswith("#"):
                        idx = int(p[1][1:])
                    if idx is None or idx >= len(upvals):
                        for uv in upvals:
                            out |= {trunc(b + p[1:]) for b in uv}
                        continue
                    for b in upvals[idx]:
                        out.add(trunc(b + p[2:]))
                return out
            cs.W = {p for p in sub(s.W) if not is_ro(p)}
            cs.R = {plain(p) for p in sub(s.R)}
        return cs

    def run(self):
        for _ in range(30):
            changed = False
            for p in self.bodies:
                new = self._analyse_body(p)
                if new.key() != self.summaries[p].key():
                    self.summaries[p] = new
                    changed = True
            if not changed:
                break
        return self

    # -- queries ---------------------------------------------------------------
    def may_write(self, fn, path):
        return any(path_overlaps(w, path) for w in self.summaries[fn].W)

    def may_read(self, fn, path):
        return any(path_overlaps(r, path) for r in self.summaries[fn].R)

    def writes_at(self, fn, pt):
        out = set(self.stmt_writes[fn].get(pt, ()))
        for cs in self.sites[fn]:
            if cs.point == pt:
                out |= cs.W
        return out

    def reads_at(self, fn, pt):
        out = set(self.stmt_reads[fn].get(pt, ()))
        for cs in self.sites[fn]:
            if cs.point == pt:
                out |= cs.R
        return out

    def call_sites(self, fn, callee=None):
        return [cs for cs in self.sites[fn] if cs.term is not None and (callee is None or cs.callee == callee)]

    def callers_of(self, callee):
        out = []
        for fn, sites in self.sites.items():
            for cs in sites:
                if cs.callee == callee:
                    out.append(cs)
        return out

    def reachable_fns(self, roots):
        seen = set()
        st = list(roots)
        while st:
            f = st.pop()
            if f in seen or f not in self.sites:
                continue
            seen.add(f)
            for cs in self.sites[f]:
                if cs.local and cs.callee not in seen:
                    st.append(cs.callee)
        return seen


# ----------------------------------------------------------------------
# must-write analysis (forward, intersection): which arg-rooted paths are
# definitely (re)assigned as a whole on every path to a normal return
# ----------------------------------------------------------------------
class MustWrite:
    def __init__(self, effects):
        self.E = effects
        self.mw = {p: None for p in effects.bodies}   # None = not yet computed (top)
        self.sites = {}      # fn -> {path: [(point, kind)]} definite write sites
        self._run()

    @staticmethod
    def _definite(paths):
        if len(paths) != 1:
            return None
        p = next(iter(paths))
        if is_ro(p) or "[]" in p or "?" in p:
            return None
        return p

    def _transfer_point(self, fn, body, val, pt):
        """Set of paths definitely written by executing the statement at pt."""
        b, i = pt
        out = set()
        blk = body.blocks[b]
        if i < len(blk["stmts"]):
            s = blk["stmts"][i]
            if s["k"] == "assign":
                il, dst = self.E._resolve(body, val, s["place"])
                if not il:
                    d = self._definite(dst)
                    if d is not None:
                        out.add(d)
        else:
            t = blk["term"]
            if t["k"] == "call":
                il, dst = self.E._resolve(body, val, t["dest"])
                if not il:
                    d = self._definite(dst)
                    if d is not None:
                        out.add(d)
                c = t["callee"]
                r = c.get("resolved")
                if r and c.get("resolved_local") and self.mw.get(r):
                    arg_vals = [self.E._operand_val(body, val, a) for a in t["args"]]
                    for p in self.mw[r]:
                        n = root_num(p) - 1
                        if n < len(arg_vals):
                            base = self._definite(arg_vals[n])
                            if base is not None:
                                out.add(trunc(base + p[1:]))
        return out

    def _analyse(self, fn):
        body = self.E.bodies[fn]
        val = self.E.val[fn]
        nb = sorted(body.normal_blocks())
        TOP = None
        inn = {b: TOP for b in nb}
        inn[0] = frozenset()
        gen = {}
        for b in nb:
            g = set()
            for i in range(body.n_stmts(b) + 1):
                g |= self._transfer_point(fn, body, val, (b, i))
            gen[b] = g
        changed = True
        while changed:
            changed = False
            for b in nb:
                if inn[b] is TOP:
                    continue
                out = frozenset(inn[b] | gen[b])
                for s in body.succ(b):
                    if s not in inn:
                        continue
                    new = out if inn[s] is TOP else (inn[s] & out)
                    if new != inn[s]:
                        inn[s] = new
                        changed = True
        res = None
        for rb in body.return_blocks():
            if inn[rb] is TOP:
                continue
            o = inn[rb] | gen[rb]
            res = set(o) if res is None else (res & o)
        res = res or set()
        return {p for p in res if root_kind(p) == "arg"}

    def _run(self):
        for _ in range(12):
            changed = False
            for fn in self.E.bodies:
                new = self._analyse(fn)
                if self.mw[fn] is None or new != self.mw[fn]:
                    self.mw[fn] = new
                    changed = True
            if not changed:
                break

    def must(self, fn):
        return self.mw.get(fn) or set()
