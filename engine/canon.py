"""Canonical names for two private types of the terminal that the rules and the
reference vocabulary mention by name: the saved-cursor-context struct and the
active-screen flag enum.  Both are recognised by STRUCTURE on every run; when
the source calls them differently (a rename, a move into a sub-module) the
facts are rewritten to the canonical spelling before any rule looks at them,
so a behaviour-preserving rename of these private items raises no alarm.

  terminal::SavedCtx     the struct type two fields of the terminal have
  terminal::BufferType   the two-variant enum field of the terminal that the
                         terminal's gc consults; variant Primary = the value
                         the constructor stores, Alternate = the other one
"""
import json
import re

SAVED = "terminal::SavedCtx"
BTYPE = "terminal::BufferType"


def _walk(o, fn):
    if isinstance(o, dict):
        fn(o)
        for v in o.values():
            _walk(v, fn)
    elif isinstance(o, list):
        for v in o:
            _walk(v, fn)


def renames(w):
    """-> (path renames {old: new}, variant renames {(enum path, old): new}) derived from the analysed world."""
    import world as WD
    from rules import shared
    out, vout = {}, {}
    term_ty = w.anchors["terminal_ty"]
    fields = w.facts.struct_fields(term_ty) or []
    # saved context: the local struct type that exactly two fields of the terminal have
    by_ty = {}
    for f in fields:
        a = f["ty"].get("adt")
        if a and a in w.facts.adts and w.facts.adts[a]["kind"] == "struct" and not a.startswith(("core::", "alloc::", "std::")):
            by_ty.setdefault(a, []).append(f["name"])
    twice = [a for a, fs in by_ty.items() if len(fs) == 2 and f["ty"].get("adt") != a or len(fs) == 2]
    twice = [a for a in twice if len(w.facts.struct_fields(a) or []) >= 3 and not any(x["ty"]["s"].startswith("alloc::vec::Vec") for x in w.facts.struct_fields(a))]
    if len(twice) == 1 and twice[0] != SAVED:
        out[twice[0]] = SAVED
    # active-screen flag: two-variant unit enum field read by the terminal's gc
    try:
        S = shared.screen(w)
        gc_reads = {p[1] for p in w.E.summaries[S.gc_fn].R if p[0] == "arg1" and len(p) >= 2}
    except Exception:
        return out, vout
    cands = []
    for f in fields:
        a = f["ty"].get("adt")
        if a in w.facts.adts and w.facts.adts[a]["kind"] == "enum" and len(w.facts.adts[a]["variants"]) == 2 and f["name"] in gc_reads \
                and not any(v.get("fields") for v in w.facts.adts[a]["variants"]):
            cands.append((f["name"], a))
    if len(cands) == 1:
        fname, epath = cands[0]
        from rules import c19
        ctors = c19.constructor_of(w, term_ty)
        if len(ctors) == 1:
            cf, cpt, crv = ctors[0]
            T = w.terms(cf)
            val = None
            for nm, op in zip(crv["field_names"], crv["ops"]):
                if nm == fname:
                    val = WD.strip_names(T.operand(op, cpt))
            if val and val[0] == "adt" and val[1] == epath:
                prim = val[2]
                other = [v["name"] for v in w.facts.adts[epath]["variants"] if v["name"] != prim]
                if len(other) == 1:
                    if prim != "Primary":
                        vout[(epath, prim)] = "Primary"
                    if other[0] != "Alternate":
                        vout[(epath, other[0])] = "Alternate"
                    if epath != BTYPE:
                        out[epath] = BTYPE
    return out, vout


def apply(data, path_renames, variant_renames):
    """Rewrite a facts dictionary (deep copy through JSON)."""
    data = json.loads(json.dumps(data))
    if variant_renames:
        enums = {e for (e, _v) in variant_renames}

        def fix(d):
            a = d.get("adt")
            if a in enums:
                for k in ("variant", "name"):
                    v = d.get(k)
                    if isinstance(v, str) and (a, v) in variant_renames and k == "variant":
                        d[k] = variant_renames[(a, v)]
            if d.get("path") in enums and isinstance(d.get("variants"), list):
                for v in d["variants"]:
                    if (d["path"], v.get("name")) in variant_renames:
                        v["name"] = variant_renames[(d["path"], v["name"])]
        _walk(data, fix)
    text = json.dumps(data)
    for (e, v), nv in variant_renames.items():
        text = re.sub(r'(?<![A-Za-z0-9_])' + re.escape(e + "::" + v) + r'(?![A-Za-z0-9_])', e + "::" + nv, text)
    for old, new in sorted(path_renames.items(), key=lambda kv: -len(kv[0])):
        text = re.sub(r'(?<![A-Za-z0-9_:])' + re.escape(old) + r'(?![A-Za-z0-9_])', new, text)
    return json.loads(text)
