"""The analysed program plus anchors derived from the public API.

Anchors are derived through types and the resolved call graph wherever
possible (DESIGN.md section 2.4); the few private names that cannot be derived
are listed in PRIVATE_ANCHORS with the property they serve.
"""
import hir as H
import mir as M


class AnchorError(Exception):
    pass


# Public API names (a refactor cannot change these without breaking users).
VT = "vt::Vt"
VT_FEED_STR = "vt::Vt::feed_str"
VT_FEED = "vt::Vt::feed"
VT_RESIZE = "vt::Vt::resize"
VT_DUMP = "vt::Vt::dump"
FUNCTION = "parser::Function"
STATE = "parser::State"
PARSER = "parser::Parser"


class World:
    def __init__(self, facts):
        self.facts = facts
        self.E = M.Effects(facts).run()
        self.bodies = self.E.bodies
        self._terms = {}
        self._anchors = None

    # -- basic accessors --------------------------------------------------
    def body(self, path):
        b = self.bodies.get(path)
        if b is None:
            raise AnchorError("function %s not found" % path)
        return b

    def hir(self, path):
        h = self.facts.hir.get(path)
        if h is None:
            raise AnchorError("function %s not found (HIR)" % path)
        return h

    def terms(self, path):
        if path not in self._terms:
            b = self.body(path)
            prom = {}
            for pj in b.j.get("promoteds", []):
                pb = M.Body(pj)
                pt = M.Terms(pb)
                # value of a promoted = term assigned to _0 at its return
                for rb in pb.return_blocks():
                    prom[pj["promoted"]] = pt.local(0, (rb, pb.n_stmts(rb)))
            self._terms[path] = M.Terms(b, prom)
        return self._terms[path]

    def fn_loc(self, path):
        f = self.facts.fns.get(path)
        if not f:
            return path
        return "%s:%d" % (self.facts.rel(f["loc"]["file"]), f["loc"]["line"])

    def site_loc(self, cs):
        if cs.term is None:
            return self.fn_loc(cs.body)
        l = cs.term["loc"]
        return "%s:%d" % (self.facts.rel(l["file"]), l["line"])

    def stmt_loc(self, fn, pt):
        b = self.body(fn)
        bl = b.blocks[pt[0]]
        if pt[1] < len(bl["stmts"]):
            l = bl["stmts"][pt[1]]["loc"]
        else:
            l = bl["term"]["loc"]
        return "%s:%d" % (self.facts.rel(l["file"]), l["line"])

    def self_names(self, fn):
        """arg index -> source name, for printing terms."""
        b = self.body(fn)
        out = {}
        for l, n in b.names.items():
            if b.is_arg(l):
                out["arg%d" % l] = n
        return out

    def tstr(self, fn, t):
        return M.term_str(t, self.self_names(fn))

    # -- derived anchors ----------------------------------------------------
    @property
    def anchors(self):
        if self._anchors is None:
            self._anchors = self._derive()
        return self._anchors

    def _derive(self):
        a = {}
        F = self.facts
        for p in (VT_FEED_STR, VT_FEED, VT_RESIZE, VT_DUMP):
            if p not in self.bodies:
                raise AnchorError("public API %s missing" % p)
        # parser step and executor: the two local callees of Vt::feed
        step = None
        execu = None
        for cs in self.E.call_sites(VT_FEED):
            if not cs.local:
                continue
            f = F.fns.get(cs.callee, {})
            out = (f.get("output") or {}).get("s", "")
            ins = [i["s"] for i in f.get("inputs", [])]
            if "Option<parser::Function>" in out:
                step = cs.callee
            if FUNCTION in ins:
                execu = cs.callee
        if not step or not execu:
            raise AnchorError("cannot derive parser step / executor from %s" % VT_FEED)
        a["parser_feed"] = step
        a["execute"] = execu
        a["terminal_ty"] = F.fns[execu]["impl_self"]["adt"]
        a["parser_ty"] = F.fns[step]["impl_self"]["adt"]
        # handlers: arms of the executor's match on the Function value
        hb = self.hir(execu)["body"]
        matches = H.find(hb, lambda n: H.is_k(n, "match") and n.get("src") == "Normal")
        handlers = {}
        for m in matches:
            for arm in m["arms"]:
                pats = [arm["pat"]] if arm["pat"]["p"] != "or" else arm["pat"]["pats"]
                for p in pats:
                    vp = None
                    if p["p"] == "tuplestruct":
                        vp = p["path"].get("path")
                    elif p["p"] == "expr" and p["e"].get("k") == "path":
                        vp = p["e"].get("path")
                    if not vp or not vp.startswith(FUNCTION + "::"):
                        continue
                    calls = H.find(arm["body"], lambda n: H.is_k(n, "mcall") and n.get("callee_local"))
                    handlers[vp.rsplit("::", 1)[1]] = [c["callee"] for c in calls]
        variants = F.enum_variants(FUNCTION) or []
        a["function_variants"] = variants
        a["handlers"] = handlers
        # buffer type / fields
        tfields = F.struct_fields(a["terminal_ty"]) or []
        by_ty = {}
        for f in tfields:
            by_ty.setdefault(f["ty"].get("adt") or f["ty"]["s"], []).append(f["name"])
        a["terminal_fields"] = [f["name"] for f in tfields]
        a["terminal_fields_by_type"] = by_ty
        return a

    def handler(self, variant):
        hs = self.anchors["handlers"].get(variant)
        if not hs:
            raise AnchorError("no handler derived for Function::%s" % variant)
        return hs

    def handler_W(self, variant):
        W = set()
        for h in self.handler(variant):
            W |= self.E.summaries[h].W
        return W

    def handler_R(self, variant):
        R = set()
        for h in self.handler(variant):
            R |= self.E.summaries[h].R
        return R

    def handler_reach(self, variant):
        return self.E.reachable_fns(self.handler(variant))


# ---- helpers shared by rule modules -----------------------------------------
def _w_mustwrite(self):
    if getattr(self, "_mw", None) is None:
        self._mw = M.MustWrite(self.E)
    return self._mw


World.mustwrite = property(_w_mustwrite)


def _definite_path(self, fn, place):
    """The single arg-rooted path a place denotes, or None."""
    body = self.body(fn)
    il, dst = self.E._resolve(body, self.E.val[fn], place)
    if il:
        return None
    return M.MustWrite._definite({M.plain(p) for p in dst})


World.definite_path = _definite_path


def _assign_sites(self, fns, want=None):
    """All direct assignments `place = rvalue` in the given functions whose
    place denotes one definite arg-rooted path.  Yields (fn, point, path, term)."""
    out = []
    for fn in sorted(fns):
        body = self.bodies.get(fn)
        if body is None:
            continue
        T = self.terms(fn)
        for b in sorted(body.normal_blocks()):
            blk = body.blocks[b]
            for i, s in enumerate(blk["stmts"]):
                if s["k"] != "assign":
                    continue
                p = self.definite_path(fn, s["place"])
                if p is None:
                    continue
                if want is not None and not want(p):
                    continue
                out.append((fn, (b, i), p, T.rvalue(s["rv"], (b, i))))
            t = blk["term"]
            if t["k"] == "call":
                p = self.definite_path(fn, t["dest"])
                if p is not None and (want is None or want(p)):
                    out.append((fn, (b, len(blk["stmts"])), p, T.call(t, (b, len(blk["stmts"])), 0, frozenset())))
    return out


World.assign_sites = _assign_sites


def subst_term(t, mapping):
    """Replace sub-terms according to mapping (term -> term)."""
    if t in mapping:
        return mapping[t]
    if isinstance(t, tuple):
        return tuple(subst_term(x, mapping) if isinstance(x, tuple) else x for x in t)
    return t


def strip_names(t):
    """Drop debug names carried by ('local', n, name) / ('loop', n, name)."""
    if isinstance(t, tuple):
        if t and t[0] in ("local", "loop") and len(t) == 3:
            return (t[0], t[1])
        return tuple(strip_names(x) if isinstance(x, tuple) else x for x in t)
    return t


def _guards_of(self, fn, block):
    """Conditions that hold on EVERY path from entry to `block`:
    list of (cond_term, value) where value is True/False for boolean switches
    or the integer switch value (or ('not', [values]) for the otherwise edge)."""
    b = self.body(fn)
    T = self.terms(fn)
    out = []
    for s in sorted(b.normal_blocks()):
        t = b.term(s)
        if t["k"] != "switch":
            continue
        if not b.block_dominates(s, block) or s == block:
            continue
        cond = T.operand(t["discr"], (s, b.n_stmts(s)))
        tys = t["discr"].get("ty") if t["discr"]["k"] != "const" else None
        vals = [v for v, _ in t["targets"]]
        for v, tgt in t["targets"]:
            if tgt != t["otherwise"] and b.edge_controls((s, tgt), block):
                out.append((cond, (False if v == 0 else True) if tys == "bool" else v))
        o = t["otherwise"]
        if all(o != tgt for _, tgt in t["targets"]) and b.edge_controls((s, o), block):
            if tys == "bool" and vals == [0]:
                out.append((cond, True))
            else:
                out.append((cond, ("not", tuple(vals))))
    return out


World.guards_of = _guards_of
