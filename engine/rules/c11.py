"""C11 - dump() reproduces the terminal for all future input (coverage, script <-> parser
agreement, ordering, clobber and stale-read analysis)."""
import hir as H
import mir as M
import symeval as SE
import world as WD
from rules import shared, tables, dumpsim, c08
from rules.dumpsim import src, key

PRINT_ALTERING = {"Gzd4", "G1d4", "So", "Sm", "Decrst"}


from rules import prims as _prims


class StrInterp(_prims.VecInterp):
    """Interp with Strings, format!, integer to_string and compound assignment
    (enough for Pen::dump, Color::sgr_params, Terminal::sgr, Parser::dump)."""

    def ev(self, e, env):
        e0 = H.unwrap(e)
        k = e0.get("k")
        if k == "lit" and e0.get("t") == "char":
            return ("chr", e0["v"])
        if k == "call" and (H.path_of(e0["f"]) or "").endswith("convert::From::from") and str(e0.get("ty", "")).endswith("string::String") and len(e0["args"]) == 1:
            v = self.ev(e0["args"][0], env)
            if isinstance(v, tuple) and v and v[0] == "str":
                return v
            if isinstance(v, tuple) and v and v[0] == "chr":
                return ("str", chr(v[1]))
        if k == "call" and (H.path_of(e0["f"]) or "") in ("alloc::string::String::new",):
            return ("str", "")
        if k == "call" and (H.path_of(e0["f"]) or "").endswith("default::Default::default"):
            impl = "<%s as core::default::Default>::default" % e0.get("ty")
            if impl in self.facts.hir:
                return self.call_fn(impl, [])
        if k in ("call", "block") and e0.get("macro") and "format" in (e0["macro"].get("names") or []):
            fc = H.format_call(e0)
            if fc:
                pieces, args = fc
                vals = [self.ev(a, env) for a, kind in args]
                out = ""
                for p in pieces:
                    if p[0] == "lit":
                        out += p[1]
                    else:
                        out += self.show(vals[p[1]])
                return ("str", out)
        if k == "mcall" and e0["name"] in ("push_str", "push") and H.local_name(e0["recv"]) is not None and e0.get("callee", "").startswith("alloc::string::String"):
            nm = H.local_name(e0["recv"])
            cur = env[nm]
            add = self.ev(e0["args"][0], env)
            env[nm] = ("str", cur[1] + self.show(add))
            return ("t", ())
        if k == "assignop":
            cur = self.ev(e0["l"], env)
            rhs = self.ev(e0["r"], env)
            op = e0["op"].rstrip("=")
            if not (isinstance(cur, int) and isinstance(rhs, int)):
                raise H.Unsupported("compound assignment on non-integers")
            v = {"|": cur | rhs, "&": cur & rhs, "^": cur ^ rhs, "+": cur + rhs, "-": cur - rhs}.get(op)
            if v is None:
                raise H.Unsupported("compound assignment %s" % op)
            self.assign(e0["l"], v & 0xFF if (e0["l"].get("ty") == "u8") else v, env)
            return ("t", ())
        if k == "unary" and e0["op"] == "!":
            v = self.ev(e0["e"], env)
            if isinstance(v, bool):
                return not v
            if isinstance(v, int):
                return (~v) & 0xFF
        if k == "mcall" and e0["name"] == "clear" and H.local_name(e0["recv"]) is not None and isinstance(env.get(H.local_name(e0["recv"])), tuple) and env[H.local_name(e0["recv"])][:1] == ("str",):
            env[H.local_name(e0["recv"])] = ("str", "")
            return ("t", ())
        if k == "mcall" and e0["name"] == "collect" and str(e0.get("ty", "")).endswith("string::String"):
            v = super().ev(e, env)
            if isinstance(v, tuple) and v and v[0] == "str":
                return v
            items = v.items if isinstance(v, _prims.Vec) else v[1] if isinstance(v, tuple) and v and v[0] == "iter" else None
            if items is not None and all(isinstance(x, tuple) and x and x[0] in ("chr", "str") for x in items):
                return ("str", "".join(chr(x[1]) if x[0] == "chr" else x[1] for x in items))
            raise H.Unsupported("collect into a String of %r" % (v,))
        if k == "match" and e0.get("src") == "ForLoopDesugar":
            sc = H.unwrap(e0["scrut"])
            items = self.ev(sc["args"][0], env)
            if not (isinstance(items, tuple) and items and items[0] == "s"):
                return super().ev(e, env)          # vectors, ranges, iterators: the general loop
            inner = H.find(e0["arms"][0]["body"], lambda n: H.is_k(n, "match") and n.get("src") == "ForLoopDesugar")
            some_arm = [a for a in inner[0]["arms"] if a["pat"]["p"] in ("tuplestruct", "struct") and a["pat"]["path"].get("path", "").endswith("Option::Some")][0]
            item_pat = some_arm["pat"]["pats"][0] if some_arm["pat"]["p"] == "tuplestruct" else some_arm["pat"]["fields"][0]["pat"]
            for it in items[1]:
                e2 = dict(env)
                if not self.match_pat(item_pat, it, e2):
                    raise H.Unsupported("for pattern")
                self.ev(some_arm["body"], e2)
                for kk in env:
                    if kk in e2:
                        env[kk] = e2[kk]
            return ("t", ())
        return super().ev(e, env)

    def show(self, v):
        if isinstance(v, tuple) and v and v[0] == "str":
            return v[1]
        if isinstance(v, bool):
            return "true" if v else "false"
        if isinstance(v, int):
            return str(v)
        if isinstance(v, tuple) and v and v[0] == "chr":
            return chr(v[1])
        if isinstance(v, tuple) and v and v[0] in ("sym", "symcast"):
            return "{%s}" % (v[1] if v[0] == "sym" else v[1][1])
        raise H.Unsupported("cannot display %r" % (v,))

    def ext_method(self, name, callee, recv, args):
        if name in ("to_owned", "to_string", "clone", "into", "as_str") and isinstance(recv, tuple) and recv and recv[0] == "str":
            return recv
        if isinstance(recv, tuple) and recv and recv[0] == "str" and not args:
            if name == "trim_end":
                return ("str", recv[1].rstrip())
            if name == "trim_start":
                return ("str", recv[1].lstrip())
            if name == "trim":
                return ("str", recv[1].strip())
            if name == "is_empty":
                return recv[1] == ""
            if name == "len":
                return len(recv[1].encode("utf-8"))
            if name == "chars":
                return ("iter", [("chr", ord(c)) for c in recv[1]])
        if name == "to_string" and isinstance(recv, int):
            return ("str", str(recv))
        if name == "to_string" and isinstance(recv, tuple) and recv[0] in ("sym", "symcast"):
            return ("str", self.show(recv))
        if name in ("is_none", "is_some") and isinstance(recv, tuple) and recv[0] == "v":
            return (recv == H.NONE_V) == (name == "is_none")
        if name in ("into_iter", "iter", "iter_mut", "drain") and isinstance(recv, tuple) and recv and recv[0] == "s":
            return recv
        if name == "for_each" and isinstance(recv, tuple) and recv and recv[0] == "s":
            for it_ in recv[1]:
                self.call_closure(args[0], [it_])
            return ("t", ())
        return super().ext_method(name, callee, recv, args)

    def replace_obj(self, tgt, v):
        if isinstance(v, tuple) and v and v[0] == "default" and tgt[1] == "pen::Pen":
            v = default_pen()
        return super().replace_obj(tgt, v)

    def ext_call(self, fp, args):
        if fp in ("alloc::string::String::new",):
            return ("str", "")
        if fp.endswith("Default>::default") or fp.endswith("::default"):
            return ("default", fp)
        return super().ext_call(fp, args)


def default_pen():
    return ("obj", "pen::Pen", {"foreground": H.NONE_V, "background": H.NONE_V, "intensity": ("v", "pen::Intensity::Normal"), "attrs": 0})


def run(ctx, w):
    S = shared.screen(w)
    R = shared.roles(w)
    E = w.E
    ctx.explanation = ("dump() is a script writer whose reader is the parser + handlers of the same crate; both tables are extracted, so agreement is decidable: field coverage of the "
                       "dump routines, every emitted literal/template parsed with the EXTRACTED parser tables and matched against the state it is guarded by, the parser-state prefix "
                       "for all 14 states, the pen/colour writer against the SGR decoder and apply table (exhaustive over attributes and indexed colours), ordering of "
                       "print-altering emissions, clobbering by the restore-cursor emission, and reads of stale geometry.")
    ctx.decided = ["U1 every behaviour-carrying field is read by the dump", "U2 every emission parses completely to exactly the control function that establishes the state it is guarded by",
                   "U3 Parser::dump's prefix re-enters each of the 14 states with the same intermediate / parameters", "U4 Pen::dump / Color::sgr_params round-trip through the SGR decoder and apply table",
                   "U5 ordering: print-altering modes last, alternate switch around the alternate content, bracketed toggles re-inverted under the same guard, parser prefix last",
                   "U6 state clobbered by an emission is re-established afterwards (known findings K1a/K1b)", "U7 no geometry-dependent read of the lazily resized parked buffer (known finding K2)",
                   "U8 the cell re-printed to park the cursor is the one at (cols-1, cursor.row)", "U9 row content: CR LF only after unwrapped rows that are not the last; REP compression re-expands to the same run"]
    ctx.not_decided = ["observational equivalence under every continuation as such", "cell-by-cell correctness of Buffer::dump's run-length arithmetic beyond U9"]
    term_dump = None
    for cs in E.call_sites(WD.VT_DUMP):
        if cs.local and S._impl_of(cs.callee) == S.term_ty:
            term_dump = cs.callee
    parser_dump = None
    for cs in E.call_sites(WD.VT_DUMP):
        if cs.local and (w.facts.fns.get(cs.callee, {}).get("impl_self") or {}).get("adt") == w.anchors["parser_ty"]:
            parser_dump = cs.callee
    if not term_dump or not parser_dump:
        ctx.missing_anchor("U1", "Terminal::dump / Parser::dump via Vt::dump")
        return
    coverage(ctx, w, S, R, term_dump, parser_dump)
    em, locs, acc = dumpsim.emissions(w, term_dump)
    script_rules(ctx, w, S, R, term_dump, em)
    parser_prefix(ctx, w, parser_dump)
    pen_roundtrip(ctx, w)
    ordering(ctx, w, S, R, term_dump, em)
    clobber(ctx, w, S, R, term_dump, em)
    stale(ctx, w, S, R, term_dump)
    reprint(ctx, w, S, R, term_dump)
    buffer_dump(ctx, w, S, R, term_dump)
    guard_semantics(ctx, w, S, R, term_dump, em)
    # state the dump cannot express must not exist: stale parameter cells behind the high-water mark (hidden parser state),
    # and a tab table that is not sorted / unique / below the width (the replay `CSI n \` CSI W` normalises it)
    from rules import c03, c18, tables
    shared.embed(ctx, w, lambda c, ww: c03.run_t7(c, ww, tables.parser_tables(ww)))
    shared.embed(ctx, w, c18.run)
    # a saved cursor outside the screen cannot be expressed by the dump (CUP clamps it): the re-layout must bound it on every path
    from rules import c17
    c17.clamp_rule(ctx, w, S, R)
    # likewise a pending wrap away from the last column, or a scroll region DECSTBM would reject (top == bottom): no handler may produce them
    shared.invariant_rule(ctx, w, S, R, "U12")
    # ... nor a re-used alternate buffer (its content / geometry from the previous visit is state the dump never sees)
    shared.mode_rule(ctx, w, S, R, "U13")


# ---- U1 -------------------------------------------------------------------------------------
def coverage(ctx, w, S, R, term_dump, parser_dump):
    E = w.E
    ctx.rule("U1", "every behaviour-carrying field of Terminal, SavedCtx (both), Parser and Pen is read by the dump routines; every enum variant of the dumped state is handled")
    Rd = E.summaries[term_dump].R
    tfields = [f["name"] for f in w.facts.struct_fields(S.term_ty)]
    # exemptions, derived: configuration (never written outside the constructor), the dirty set (transient report),
    # wrap-pending (equivalent to col == cols, C02.R4)
    from rules import c19 as _c19
    _ct = _c19.constructor_of(w, S.term_ty)
    rw = shared.real_writers(w, S, _ct[0][0] if len(_ct) == 1 else None)
    writers = {f: len(rw.get(f, ())) for f in tfields}
    exempt = {f for f in tfields if writers[f] == 0} | {S.dirty_field, R["pending_wrap"]}
    ctx.extra["not_dumped_by_design"] = sorted(exempt)
    for f in tfields:
        if f in exempt:
            continue
        ok = any(r[:2] == ("arg1", f) for r in Rd)
        ctx.check(ok, "U1", "Terminal." + f, "Terminal::dump never reads `%s`: that part of the state is not re-created by the dump" % f, loc=w.fn_loc(term_dump), sample={"field": f})
    for ctxf in (R["saved_ctx"], R["parked_saved_ctx"]):
        for f in w.facts.struct_fields(R["saved_ctx_ty"]):
            ok = any(r[:3] == ("arg1", ctxf, f["name"]) or r == ("arg1", ctxf) for r in Rd)
            ctx.check(ok, "U1", "%s.%s" % (ctxf, f["name"]), "Terminal::dump never reads %s.%s" % (ctxf, f["name"]), loc=w.fn_loc(term_dump), sample={"field": "%s.%s" % (ctxf, f["name"])})
    Pr = E.summaries[parser_dump].R
    for f in w.facts.struct_fields(w.anchors["parser_ty"]):
        ok = any(r[:2] == ("arg1", f["name"]) for r in Pr)
        ctx.check(ok, "U1", "Parser." + f["name"], "Parser::dump never reads `%s`" % f["name"], loc=w.fn_loc(parser_dump), sample={"field": f["name"]})
    pd = "pen::Pen::dump"
    if pd in E.summaries:
        for f in w.facts.struct_fields("pen::Pen"):
            ok = any(r[:2] == ("arg1", f["name"]) for r in E.summaries[pd].R)
            ctx.check(ok, "U1", "Pen." + f["name"], "Pen::dump never reads `%s`" % f["name"], loc=w.fn_loc(pd), sample={"field": f["name"]})
    else:
        ctx.missing_anchor("U1", pd)
    # both buffers' content is dumped (the alternate one when active)
    for b in S.buffer_fields:
        ok = any(r[:3] == ("arg1", b, S.lines_field) for r in Rd)
        ctx.check(ok, "U1", "buffer:" + b, "Terminal::dump never reads the rows of `%s`" % b, loc=w.fn_loc(term_dump))
    ctx.floor("U1", 35, "dumped fields")


# ---- U2 -----------------------------------------------------------------------------------------
def instantiate(w, e):
    """Concrete script text for a lit/fmt emission; numeric holes get distinct
    small values so that parameter order is visible.  Returns (text, holes)."""
    if e.kind == "lit":
        return e.payload, []
    pieces, args = e.payload
    text = ""
    holes = []
    val = 3
    for p in pieces:
        if p[0] == "lit":
            text += p[1]
        else:
            ex, kind = args[p[1]]
            ty = ex.get("ty", "")
            if ty in ("usize", "u16", "u8", "&usize"):
                text += str(val)
                holes.append((val, ex))
                val += 2
            elif ty == "char":
                text += "x"
                holes.append(("x", ex))
            elif "String" in ty:
                holes.append(("<string>", ex))
            else:
                raise H.Unsupported("format hole of type %s" % ty)
    return text, holes


def guard_target(g):
    """(field name, wanted value) established under this guard, from its innermost condition."""
    k, pol, e = g
    e = H.unwrap(e)
    neg = pol is False
    while H.is_k(e, "unary") and e["op"] == "!":
        neg = not neg
        e = H.unwrap(e["e"])
    if H.is_k(e, "field"):
        return e["name"], (not neg)
    if H.is_k(e, "binary") and e["op"] == "==" and not neg:
        l = H.unwrap(e["l"])
        r = H.unwrap(e["r"])
        if H.is_k(l, "field"):
            return l["name"], (H.path_of(r) or (r.get("v") if H.is_k(r, "lit") else None))
        if H.is_k(l, "index") and H.is_k(H.unwrap(l["base"]), "field"):
            return "%s[%s]" % (H.unwrap(l["base"])["name"], H.unwrap(l["idx"]).get("v")), H.path_of(r)
    return None, None


def function_sets(w, R, fn_desc):
    """{field: constant} a concrete function establishes, from the handler arms."""
    out = {}
    name = fn_desc[0]
    if name in ("Decset", "Decrst", "Sm", "Rm"):
        enum = "parser::DecMode::" if name.startswith("Dec") else "parser::AnsiMode::"
        for mode in fn_desc[1]:
            for h in w.handler(name):
                m, i, arm = shared.arm_for(w, h, enum + mode)
                binding = {}
                if arm is None:
                    # the arms may live in a helper the handler delegates to with a constant (`set_modes(modes, true)`)
                    for nd in H.walk(w.hir(h)["body"]):
                        if H.is_k(nd, "mcall") and nd.get("callee_local") and nd["callee"] in w.facts.hir:
                            g = nd["callee"]
                            m2, i2, arm2 = shared.arm_for(w, g, enum + mode)
                            if arm2 is not None:
                                arm = arm2
                                params = w.facts.hir[g]["params"]
                                for prm, a in zip(params[1:], nd["args"]):
                                    a0 = H.unwrap(a)
                                    if prm.get("p") == "bind" and H.is_k(a0, "lit"):
                                        binding[prm["name"]] = a0["v"]
                                break
                if arm is None:
                    continue
                for sf, rhs in shared.self_assigns(arm["body"]):
                    rhs = H.unwrap(rhs)
                    if H.is_k(rhs, "lit"):
                        out[sf[-1]] = rhs["v"]
                    elif H.is_k(rhs, "path") and rhs.get("res") == "local" and rhs.get("name") in binding:
                        out[sf[-1]] = binding[rhs["name"]]
                    elif H.path_of(rhs):
                        out[sf[-1]] = H.path_of(rhs)
    elif name == "Gzd4":
        out["charsets[0]"] = fn_desc[1][0]
    elif name == "G1d4":
        out["charsets[1]"] = fn_desc[1][0]
    elif name == "So":
        out["active_charset"] = 1
    elif name == "Si":
        out["active_charset"] = 0
    return out


def script_rules(ctx, w, S, R, term_dump, em):
    ctx.rule("U2", "every emitted literal/template is consumed completely by the (extracted) parser, ends in Ground, yields exactly one control function, and that function establishes the field its guard tests")
    sim = dumpsim.Sim(w)
    n = 0
    for e in em:
        if e.kind not in ("lit", "fmt"):
            continue
        try:
            text, holes = instantiate(w, e)
        except H.Unsupported as ex:
            ctx.violation("U2", "emission#%d" % e.order, "cannot instantiate emission at line %s: %s" % (e.line, ex))
            continue
        if any(h[0] == "<string>" for h in holes):
            continue          # nested dump + char: handled by U8
        sim.reset()
        sim.feed(text)
        fns = dumpsim.functions(sim.events)
        subj = "%s @%s" % (repr(text)[:24], e.guard_str()[:60])
        n += 1
        ok = sim.state == "Ground" and len(fns) >= 1 and all(f[0] != "Print" for f in fns) and len(sim.events) == len(fns)
        ctx.check(ok, "U2", subj, "emission %r (guard %s) parses to %s and leaves the parser in %s; a dump emission must consist of complete, implemented control functions" % (text, e.guard_str(), sim.events, sim.state),
                  loc="%s:%s" % (w.fn_loc(term_dump).rsplit(":", 1)[0], e.line), sample={"emission": text, "guard": e.guard_str(), "function": repr(fns)})
        if not ok:
            continue
        f = fns[-1]
        # what must it establish?
        if e.guards:
            fld, want = guard_target(e.guards[-1])
            sets = function_sets(w, R, f)
            if fld and fld not in ("is_default",) and sets:
                if fld in sets:
                    # first emission under this guard sets the wanted value, a later one under the same guard re-inverts (bracket)
                    same = [x for x in em if [g[:2] for g in x.guards] == [g[:2] for g in e.guards] and x.kind == "lit" and x.order < e.order and fld in function_sets_cached(w, R, sim, x)]
                    expect = want if not same else (not want if isinstance(want, bool) else want)
                    ctx.check(sets[fld] == expect or str(sets[fld]).endswith(str(expect)), "U2", subj + ":establishes",
                              "emission %r is guarded by `%s` but sets %s = %r (expected %r)" % (text, e.guard_str(), fld, sets[fld], expect),
                              loc="%s:%s" % (w.fn_loc(term_dump).rsplit(":", 1)[0], e.line), sample={"emission": text, "sets": {fld: sets[fld]}})
                elif fld in ("auto_wrap_mode", "origin_mode", "insert_mode", "new_line_mode", "cursor_keys_mode", "visible", "active_charset") or fld.startswith("charsets"):
                    ctx.violation("U2", subj + ":establishes", "emission %r is guarded by `%s` but the function %r does not set `%s` (it sets %s): wrong mode number or marker" % (text, e.guard_str(), f, fld, sets),
                                  loc="%s:%s" % (w.fn_loc(term_dump).rsplit(":", 1)[0], e.line))
        # a relative move with a computed distance is emitted only when the distance is >= 1 (0 would be read as 1)
        if f[0] in ("Cuf", "Cub", "Cuu", "Cud", "Cnl", "Cpl", "Vpr") and holes and e.guards:
            k_, pol, ge = e.guards[-1]
            ge0 = H.unwrap(ge)
            strict = False
            if isinstance(pol, tuple) and pol and pol[0] == "arm" and len(pol) >= 3 and pol[2] in ("Less", "Greater"):
                strict = True
            elif H.is_k(ge0, "binary") and ((ge0["op"] in ("<", ">", "!=") and pol is True) or (ge0["op"] in ("<=", ">=", "==") and pol is False)):
                strict = True
            ctx.check(strict, "U2", subj + ":nonzero", "the relative move %r is emitted under `%s`, which also holds when the distance is 0 - and a parameter of 0 means 1: the restored cursor ends one cell off" % (text, e.guard_str()),
                      loc="%s:%s" % (w.fn_loc(term_dump).rsplit(":", 1)[0], e.line), sample={"emission": text, "guard": e.guard_str()})
        # parameter order of cursor addressing / margins
        if f[0] in ("Cup", "Decstbm") and len(holes) == 2:
            a, b = src(holes[0][1]), src(holes[1][1])
            first_ok = ("row" in a or "top" in a) and (f[1] == holes[0][0])
            second_ok = ("col" in b or "bottom" in b) and (f[2] == holes[1][0])
            one_based = a.endswith("+ 1)") and b.endswith("+ 1)")
            ctx.check(first_ok and second_ok and one_based, "U2", subj + ":operands", "%s is emitted with operands (%s, %s); expected (row|top + 1, col|bottom + 1)" % (f[0], a, b),
                      loc="%s:%s" % (w.fn_loc(term_dump).rsplit(":", 1)[0], e.line), sample={"function": f[0], "operands": [a, b]})
    ctx.floor("U2", 30, "script emissions")


_FS = {}


def function_sets_cached(w, R, sim, e):
    k = (id(w), e.order)
    if k not in _FS:
        s2 = dumpsim.Sim(w)
        try:
            text, holes = instantiate(w, e)
            s2.feed(text)
            fns = dumpsim.functions(s2.events)
            _FS[k] = function_sets(w, R, fns[0]) if len(fns) == 1 else {}
        except H.Unsupported:
            _FS[k] = {}
    return _FS[k]


# ---- U3 ----------------------------------------------------------------------------------------------
def parser_prefix(ctx, w, parser_dump):
    ctx.rule("U3", "for each of the 14 parser states, feeding Parser::dump's prefix to a ground-state parser re-enters that state with the same intermediate and parameters")
    tb = tables.parser_tables(w)
    sim = dumpsim.Sim(w)
    need_inter = {"EscapeIntermediate", "CsiIntermediate", "CsiParam", "DcsIntermediate", "DcsParam"}
    need_params = {"CsiParam", "DcsParam"}
    param_cases = [[[0]], [[7]], [[1], [2]], [[38, 5, 200]], [[1], [4, 3], [0], [65535]]]
    for st in tb.states:
        inters = [None]
        if st in ("EscapeIntermediate", "CsiIntermediate", "DcsIntermediate"):
            inters = list(range(0x20, 0x30))
        elif st in ("CsiParam", "DcsParam"):
            inters = [None] + list(range(0x3C, 0x40))
        pcs = param_cases if st == "CsiParam" else [pc for pc in param_cases if all(len(p) == 1 for p in pc)] if st in need_params else [[[0]]]
        for inter in inters:
            for pc in pcs:
                it = StrInterp(w.facts)
                pobj_params = []
                plen = [f for f in w.facts.struct_fields(tb.param_ty) if "array" in f["ty"]][0]["ty"]["len"]
                curf = [f["name"] for f in w.facts.struct_fields(tb.param_ty) if f["ty"]["s"] == "usize"][0]
                partsf = [f["name"] for f in w.facts.struct_fields(tb.param_ty) if "array" in f["ty"]][0]
                N = [f for f in w.facts.struct_fields(tb.parser_ty) if "array" in f["ty"]][0]["ty"]["len"]
                for i in range(N):
                    parts = pc[i] if i < len(pc) else [0]
                    pobj_params.append(("obj", tb.param_ty, {curf: len(parts) - 1, partsf: ("s", tuple(parts) + (0,) * (plen - len(parts)))}))
                pobj = ("obj", tb.parser_ty, {tb.f_state: ("v", WD.STATE + "::" + st), tb.f_inter: H.NONE_V if inter is None else H.some(inter),
                                              tb.f_params: ("s", tuple(pobj_params)), tb.f_cur: len(pc) - 1})
                subj = "%s/%s/%s" % (st, "-" if inter is None else chr(inter), ";".join(":".join(map(str, p)) for p in pc))
                try:
                    r = PrefixInterp(w.facts).call_fn(parser_dump, [pobj])
                    text = r[1]
                except (H.Unsupported, IndexError, KeyError, TypeError) as ex:
                    ctx.violation("U3", subj, "cannot evaluate Parser::dump for this state: %r" % (ex,), loc=w.fn_loc(parser_dump))
                    continue
                sim.reset()
                try:
                    sim.feed(text)
                except H.Unsupported as ex:
                    ctx.violation("U3", subj, "prefix %r cannot be parsed: %s" % (text, ex), loc=w.fn_loc(parser_dump))
                    continue
                ok = sim.state == st and not dumpsim.functions(sim.events)
                why = "ends in %s" % sim.state
                if ok and st in need_inter:
                    ok = sim.inter == inter
                    why = "intermediate %r instead of %r" % (sim.inter, inter)
                if ok and st in need_params:
                    ok = sim.params == [list(p) for p in pc]
                    why = "parameters %r instead of %r" % (sim.params, pc)
                ctx.check(ok, "U3", subj, "state %s (intermediate %r, params %r): the dumped prefix %r %s" % (st, None if inter is None else chr(inter), pc, text, why), loc=w.fn_loc(parser_dump),
                          sample={"state": st, "prefix": text})
    ctx.floor("U3", 14, "parser states")


class PrefixInterp(StrInterp):
    """Adds the iterator chains Parser::dump uses over Option<char> and the parameter slice."""

    def ext_method(self, name, callee, recv, args):
        if name == "iter" and isinstance(recv, tuple) and recv[0] == "v" and recv[1] in (H.SOME, H.NONE):
            return ("s", tuple(recv[2]) if len(recv) > 2 else ())
        if name == "iter" and isinstance(recv, tuple) and recv[0] == "s":
            return recv
        if name == "map" and isinstance(recv, tuple) and recv[0] == "s":
            return ("s", tuple(self.call_closure(args[0], [x]) for x in recv[1]))
        if name == "collect" and isinstance(recv, tuple) and recv[0] == "s":
            if all(isinstance(x, int) for x in recv[1]):
                return ("str", "".join(chr(x) for x in recv[1]))
            return recv
        if name == "join" and isinstance(recv, tuple) and recv[0] == "s":
            return ("str", self.show(args[0]).join(self.show(x) for x in recv[1]))
        if name == "to_string" and isinstance(recv, tuple) and recv[0] == "obj":
            # Display for Param: parts joined by ':'
            disp = [fn for fn, fo in self.facts.fns.items() if fo.get("impl_trait", "").endswith("fmt::Display") and (fo.get("impl_self") or {}).get("adt") == recv[1]]
            if not disp:
                raise H.Unsupported("no Display impl for %s" % recv[1])
            return ("str", self.display(disp[0], recv))
        return super().ext_method(name, callee, recv, args)

    def display(self, fn, obj):
        """Evaluate a Display::fmt built from write!(f, ...) calls."""
        out = []
        it = self

        class F(PrefixInterp):
            pass
        h = self.facts.hir[fn]
        env = {h["params"][0]["name"]: obj, h["params"][1]["name"]: ("fmt",)}
        sub = WriteInterp(self.facts, out)
        try:
            sub.block(h["body"], env)
        except SE.Ret:
            pass
        return "".join(out)


    def call_fn(self, path, args):
        r = super().call_fn(path, args)
        return r


class WriteInterp(PrefixInterp):
    def __init__(self, facts, out):
        super().__init__(facts)
        self.out = out

    def ev(self, e, env):
        e0 = H.unwrap(e)
        k = e0.get("k")
        if k == "mcall" and e0["name"] == "write_fmt":
            fc = H.format_call(e0["args"][0])
            pieces, args = fc
            vals = [self.ev(a, env) for a, kind in args]
            for p in pieces:
                self.out.append(p[1] if p[0] == "lit" else self.show(vals[p[1]]))
            return ("v", "core::result::Result::Ok", (("t", ()),))
        if k == "match" and str(e0.get("src", "")).startswith("TryDesugar"):
            return self.ev(e0["scrut"]["args"][0] if H.is_k(e0["scrut"], "call") else e0["scrut"], env)
        if k == "call" and (H.path_of(e0["f"]) or "").endswith("Result::Ok"):
            return ("v", "core::result::Result::Ok", (("t", ()),))
        return super().ev(e, env)


# ---- U4 ---------------------------------------------------------------------------------------------------
def pen_roundtrip(ctx, w):
    ctx.rule("U4", "Pen::dump's SGR string, parsed with the extracted tables and decoded/applied with the extracted SGR decoder and apply table, yields the same pen (all attribute combinations, intensities, all indexed colours, symbolic RGB)")
    pd = "pen::Pen::dump"
    if pd not in w.facts.hir:
        ctx.missing_anchor("U4", pd)
        return
    sgr = c08.SgrEval(w)
    sim = dumpsim.Sim(w)
    sgr_handler = w.handler("Sgr")[0]
    R = shared.roles(w)

    def roundtrip(pen):
        text = StrInterp(w.facts).call_fn(pd, [pen])[1]
        sim.reset()
        sim.feed(text)
        fns = dumpsim.functions(sim.events)
        if sim.state != "Ground" or len(fns) != 1 or fns[0][0] != "Sgr":
            return text, None, "parses to %s (state %s)" % (fns, sim.state)
        params = [list(p) for p in fns[0][1][1]]
        ops = []
        rest = params
        guard = 0
        while rest and guard < 64:
            r, left, it = sgr.run(rest)
            guard += 1
            if r == H.NONE_V:
                break
            ops.append(r[2][0])
            rest = rest[len(rest) - left:]
        term = ("obj", w.anchors["terminal_ty"], {R["pen"]: ("obj", "pen::Pen", {"foreground": ("v", H.SOME, (("v", "color::Color::Indexed", (1,)),)), "background": H.NONE_V,
                                                                                "intensity": ("v", "pen::Intensity::Faint"), "attrs": 0xFF})})
        ApplyInterp(w.facts).call_fn(sgr_handler, [term, ("s", tuple(ops))])
        return text, term[2][R["pen"]], None

    def norm_pen(p):
        if isinstance(p, tuple) and p and p[0] == "default":
            p = default_pen()
        d = p[2]
        return (norm_color(d["foreground"]), norm_color(d["background"]), d["intensity"], d["attrs"] & 0x1F if isinstance(d["attrs"], int) else d["attrs"])

    def norm_color(c):
        if c == H.NONE_V:
            return None
        col = c[2][0]
        if col[1].endswith("Indexed"):
            v = col[2][0]
            return ("Indexed", v if isinstance(v, int) else c08.strip_cast(v, "u8"))
        rgb = col[2][0]
        if isinstance(rgb, tuple) and rgb[0] == "obj":
            return ("RGB", rgb[2]["r"], rgb[2]["g"], rgb[2]["b"])
        if isinstance(rgb, tuple) and rgb[0] == "ext":
            return ("RGB",) + tuple(c08.strip_cast(x, "u8") if not isinstance(x, int) else x for x in rgb[2])
        return ("?", rgb)
    masks = [w.facts.const_int(c) for c in ("pen::ITALIC_MASK", "pen::UNDERLINE_MASK", "pen::STRIKETHROUGH_MASK", "pen::BLINK_MASK", "pen::INVERSE_MASK")]
    cases = []
    for inten in ("Normal", "Bold", "Faint"):
        for attrs in range(32):
            p = default_pen()
            p[2]["intensity"] = ("v", "pen::Intensity::" + inten)
            p[2]["attrs"] = attrs
            cases.append(("attrs=%02x/%s" % (attrs, inten), p))
    for ground in ("foreground", "background"):
        for cidx in range(256):
            p = default_pen()
            p[2][ground] = H.some(("v", "color::Color::Indexed", (cidx,)))
            cases.append(("%s=Indexed(%d)" % (ground, cidx), p))
        p = default_pen()
        p[2][ground] = H.some(("v", "color::Color::RGB", (("obj", "rgb::RGB", {"r": 11, "g": 22, "b": 33}),)))
        cases.append(("%s=RGB" % ground, p))
    p = default_pen()
    p[2]["foreground"] = H.some(("v", "color::Color::Indexed", (9,)))
    p[2]["background"] = H.some(("v", "color::Color::RGB", (("obj", "rgb::RGB", {"r": 1, "g": 2, "b": 3}),)))
    p[2]["attrs"] = 0x15
    p[2]["intensity"] = ("v", "pen::Intensity::Bold")
    cases.append(("combined", p))
    for name, pen in cases:
        try:
            text, got, err = roundtrip(pen)
        except (H.Unsupported, KeyError, IndexError, TypeError) as ex:
            ctx.violation("U4", name, "cannot evaluate the pen round trip: %r" % (ex,), loc=w.fn_loc(pd))
            continue
        if err:
            ctx.violation("U4", name, "Pen::dump emits %r which %s" % (text, err), loc=w.fn_loc(pd))
            continue
        want = norm_pen(pen)
        g = norm_pen(got)
        ctx.check(g == want, "U4", name, "pen %s is dumped as %r, which the parser/SGR tables turn into %s" % (want, text, g), loc=w.fn_loc(pd), sample={"pen": name, "sgr": text})
    ctx.floor("U4", 600, "pens")


class ApplyInterp(StrInterp):
    def call_fn(self, path, args):
        return super().call_fn(path, args)


# ---- U5 -----------------------------------------------------------------------------------------------------
def emission_function(w, e, sim):
    if e.kind not in ("lit", "fmt"):
        return None
    try:
        text, holes = instantiate(w, e)
    except H.Unsupported:
        return None
    if any(h[0] == "<string>" for h in holes):
        return ("reprint",)
    sim.reset()
    sim.feed(text)
    fns = dumpsim.functions(sim.events)
    return fns[0] if len(fns) == 1 else None


def ordering(ctx, w, S, R, term_dump, em):
    E = w.E
    sim = dumpsim.Sim(w)
    ctx.rule("U5", "emissions that alter print behaviour come after every printing emission; the alternate-screen switch brackets the alternate content; temporary toggles are re-inverted under the same guard; the parser prefix is last")
    fns = {e.order: emission_function(w, e, sim) for e in em}
    printing = [e for e in em if (e.kind == "nested" and e.payload[0].endswith("Buffer::dump")) or fns.get(e.order) == ("reprint",)]
    last_print = max((e.order for e in printing), default=-1)
    for e in em:
        f = fns.get(e.order)
        if not f:
            continue
        alters = (f[0] in ("Gzd4", "G1d4") and "Drawing" in repr(f)) or f[0] == "So" or (f[0] == "Sm" and "Insert" in f[1]) or (f[0] == "Decrst" and "AutoWrap" in f[1])
        if not alters:
            continue
        # bracketed (re-inverted later under the same guard) -> allowed before prints only if no print sits inside the bracket
        inverse = [x for x in em if x.order > e.order and [g[:2] for g in x.guards] == [g[:2] for g in e.guards] and fns.get(x.order)
                   and fns[x.order][0] == {"Decrst": "Decset", "Sm": "Rm"}.get(f[0]) and fns[x.order][1] == f[1]]
        if inverse:
            inside = [p for p in printing if e.order < p.order < inverse[0].order]
            ctx.check(not inside, "U5", "bracket#%d" % e.order, "the temporary %r at line %s is still in force while content is printed (line %s)" % (f, e.line, inside[0].line if inside else None),
                      loc="%s:%s" % (w.fn_loc(term_dump).rsplit(":", 1)[0], e.line), sample={"toggle": repr(f), "re_inverted_at": inverse[0].line})
            continue
        ctx.check(e.order > last_print, "U5", "final#%d" % e.order,
                  "%r (guard %s) is emitted before the last printing emission: the re-printed content would be translated / inserted / wrapped differently than on the original" % (f, e.guard_str()),
                  loc="%s:%s" % (w.fn_loc(term_dump).rsplit(":", 1)[0], e.line), sample={"function": repr(f), "order": e.order, "last_print": last_print})
    # alternate screen
    enter = [e for e in em if fns.get(e.order) and fns[e.order][0] == "Decset" and "AltScreenBuffer" in fns[e.order][1]]
    leave = [e for e in em if fns.get(e.order) and fns[e.order][0] == "Decrst" and "AltScreenBuffer" in fns[e.order][1]]
    alt_content = [e for e in em if e.kind == "nested" and "alternate" in src(e.payload[1])]
    alt_ctx = [e for e in em if any("alternate_ctx" in src(g[2]) for g in e.guards) and fns.get(e.order) and fns[e.order][0] != "Decset" or False]
    ok = len(enter) == 1 and len(leave) == 1 and all(enter[0].order < x.order for x in alt_content)
    alt_ctx = [e for e in em if any("alternate_ctx" in src(g[2]) for g in e.guards) and e not in enter and e not in leave]
    ok = ok and all(enter[0].order < x.order < leave[0].order for x in alt_ctx)
    ctx.check(ok, "U5", "alternate", "the alternate-screen switch (?1047h ... ?1047l) does not bracket the alternate content and the alternate saved-context block", loc=w.fn_loc(term_dump),
              sample={"enter": [e.line for e in enter], "leave": [e.line for e in leave]})
    # no pen bleeds into the freshly created alternate screen: an UNCONDITIONAL pen reset sits between the last emission
    # that can leave a pen behind (cell content, a saved pen) and the switch
    if len(enter) == 1:
        pen_left = [x for x in em if x.order < enter[0].order and x.kind == "nested" and (x.payload[0].endswith("Buffer::dump") or x.payload[0].endswith("Pen::dump"))]
        last_pen = max((x.order for x in pen_left), default=-1)
        resets = [x for x in em if last_pen < x.order < enter[0].order and not x.guards and fns.get(x.order) and fns[x.order][0] == "Sgr"
                  and [list(p) for p in fns[x.order][1][1]] in ([[0]], [])]
        ctx.check(bool(resets) or last_pen < 0, "U5", "pen-reset-before-alternate", "no unconditional pen reset (ESC [ m) between the last pen-carrying emission and the alternate-screen switch: the new alternate "
                  "screen would be created and printed in whatever pen the primary content ended with", loc=w.fn_loc(term_dump), sample={"resets": [x.line for x in resets]})
    # the primary content precedes everything
    ctx.check(em and em[0].kind == "nested" and "primary" in src(em[0].payload[1]), "U5", "primary-first", "the primary buffer's content is not the first emission", loc=w.fn_loc(term_dump))
    # Vt::dump
    vem, _, _ = dumpsim.emissions(w, WD.VT_DUMP)
    ok = len(vem) == 2 and vem[0].kind == "nested" and vem[0].payload[0] == term_dump and vem[1].kind == "nested" and "Parser" in vem[1].payload[0]
    ctx.check(ok, "U5", "parser-last", "Vt::dump must be terminal.dump() followed by parser.dump() (a half-received sequence is completed after the state is rebuilt)", loc=w.fn_loc(WD.VT_DUMP),
              sample={"emissions": [(x.kind, x.payload[0] if x.kind == "nested" else None) for x in vem]})
    ctx.floor("U5", 8, "ordering obligations")


# ---- U6 ------------------------------------------------------------------------------------------------------
def clobber(ctx, w, S, R, term_dump, em):
    """An emission whose handler overwrites mode state with values that are not
    the dumped terminal's own must be followed by an unconditional
    re-establishment of that state."""
    sim = dumpsim.Sim(w)
    ctx.rule("U6", "state overwritten by an emission from another source (restore cursor copies the SAVED context) is re-established afterwards, unconditionally")
    from rules import c17
    save, restore = c17.routines(w, S, R)
    fns = {e.order: emission_function(w, e, sim) for e in em}
    modes = {R["origin_mode"]: "Origin", R["auto_wrap_mode"]: "AutoWrap"}
    for e in em:
        f = fns.get(e.order)
        if not f or f[0] not in ("Scorc", "Decrc"):
            continue
        # fields the restore overwrites from the saved context
        W = {p[1] for p in w.E.summaries[restore].W if p[0] == "arg1" and len(p) >= 2}
        for fld in sorted(W):
            later = [x for x in em if x.order > e.order]
            if fld == R["pen"]:
                okp = any(x.kind == "nested" and x.payload[0].endswith("Pen::dump") and src(x.payload[1]) == "self.%s" % R["pen"] and not x.guards for x in later)
                ctx.check(okp, "U6", "%s/%s" % (f[0], fld), "the pen overwritten by %s is not re-established unconditionally afterwards" % f[0], loc=w.fn_loc(term_dump), sample={"clobbered": fld, "re_established": okp})
            elif fld == R["cursor"] or fld == R["pending_wrap"]:
                ctx.ok("U6", "%s/%s" % (f[0], fld), {"clobbered": fld, "note": "the emission is the cursor placement itself"})
            elif fld in modes:
                est = [x for x in later if fns.get(x.order) and fns[x.order][0] in ("Decset", "Decrst") and modes[fld] in fns[x.order][1]]
                uncond = [x for x in est if not x.guards]
                both = {fns[x.order][0] for x in est}
                okm = bool(uncond) or both == {"Decset", "Decrst"}
                ctx.check(okm, "U6", "%s/%s" % (f[0], fld),
                          "the emission `CSI u` (cursor outside the scroll region in origin mode) makes the restored terminal copy %s from its saved context; afterwards it is %s: a saved context that disagrees "
                          "with the current mode is restored wrongly" % (fld, "never re-established" if not est else "re-established only in one direction (%s)" % sorted(both)),
                          loc="%s:%s" % (w.fn_loc(term_dump).rsplit(":", 1)[0], e.line), sample={"clobbered": fld})
            else:
                ctx.violation("U6", "%s/%s" % (f[0], fld), "%s overwrites `%s`, which the dump does not re-establish" % (f[0], fld), loc=w.fn_loc(term_dump))
    ctx.floor("U6", 3, "clobber obligations")


# ---- U7 -------------------------------------------------------------------------------------------------------
def stale(ctx, w, S, R, term_dump):
    E = w.E
    ctx.rule("U7", "a buffer method that reads the buffer's own cols/rows is never applied to the parked buffer, whose geometry is updated lazily (only on re-activation)")
    n = 0
    for fn in sorted(w.bodies):
        if S._impl_of(fn) != S.term_ty or "impl_trait" in w.facts.fns.get(fn, {}):
            continue
        T = w.terms(fn)
        for cs in E.call_sites(fn):
            if not (cs.local and S._impl_of(cs.callee) == S.buffer_ty):
                continue
            recv = WD.strip_names(T.operand(cs.term["args"][0], cs.point))
            while recv[0] in ("ref", "deref") :
                nxt = recv[2] if recv[0] == "ref" else recv[1]
                if nxt[0] == "load":
                    break
                recv = nxt
            geo = any(p[0] == "arg1" and len(p) == 2 and p[1] in (S.buf_cols, S.buf_rows) for p in E.summaries[cs.callee].R)
            # receiver obtained through a role accessor?
            if recv[0] == "call" and recv[1] in w.bodies and (w.facts.fns[recv[1]].get("output") or {}).get("s") == "&%s" % S.buffer_ty:
                acc = recv[1]
                n += 1
                # which role? safe if the call is guarded so that the accessor returns the active buffer
                gs = [(WD.strip_names(c), v) for c, v in w.guards_of(fn, cs.point[0])]
                role = accessor_role(w, S, R, acc)
                safe = any(R["active_buffer_type"] in repr(c) and "eq" in repr(c) and role in repr(c) and v is True for c, v in gs)
                ok = (not geo) or safe
                ctx.check(ok, "U7", "%s->%s" % (fn, cs.callee),
                          "%s applies %s (which reads the buffer's own rows/cols) to the %s buffer obtained from %s without the %s screen being active: after a resize while the other screen shows, that buffer still "
                          "has its old size" % (fn, cs.callee, role.lower(), acc, role.lower()), loc=w.site_loc(cs), sample={"caller": fn, "callee": cs.callee, "reads_geometry": geo, "guarded": safe})
            elif recv[0] == "ref" and recv[2] == ("load", ("arg1", S.parked_buffer)) and geo and fn not in shared_switch(w, S, R):
                n += 1
                ctx.violation("U7", "%s->%s" % (fn, cs.callee), "%s applies %s to the parked buffer directly" % (fn, cs.callee), loc=w.site_loc(cs))
    ctx.floor("U7", 2, "role-accessor uses")


def shared_switch(w, S, R):
    from rules import c16
    return set(c16.switch_fns(w, S, R))


def accessor_role(w, S, R, acc):
    """'Primary' / 'Alternate': under which active type the accessor returns the ACTIVE buffer."""
    b = w.body(acc)
    for bl in sorted(b.normal_blocks()):
        for i, s in enumerate(b.blocks[bl]["stmts"]):
            if s["k"] == "assign" and s["rv"]["k"] == "ref":
                p = w.definite_path(acc, s["rv"]["place"])
                if p == ("arg1", S.active_buffer):
                    for c, v in w.guards_of(acc, bl):
                        sc = repr(c)
                        if "eq" in sc and v is True and "Primary" in sc:
                            return "Primary"
                        if "eq" in sc and v is True and "Alternate" in sc:
                            return "Alternate"
    return "?"


# ---- U8 ----------------------------------------------------------------------------------------------------------
def reprint(ctx, w, S, R, term_dump):
    E = w.E
    cur = R["cursor"]
    ctx.rule("U8", "to park the cursor past the right border the dump re-prints the cell at (cols-1, cursor.row) of the active buffer, with that cell's pen, only when col >= cols")
    T = w.terms(term_dump)
    sites = [cs for cs in E.call_sites(term_dump) if cs.local and (cs.decl or "").endswith("Index::index") and S._impl_of(cs.callee) == S.buffer_ty]
    ok = False
    for cs in sites:
        recv = WD.strip_names(T.operand(cs.term["args"][0], cs.point))
        idx = WD.strip_names(T.operand(cs.term["args"][1], cs.point))
        want = ("tuple", (("binop", "Sub", ("load", ("arg1", R["cols"])), ("const", 1)), ("load", ("arg1", cur, "row"))))
        gs = [(WD.strip_names(c), v) for c, v in w.guards_of(term_dump, cs.point[0])]
        g = any(v is True and c == ("binop", "Ge", ("load", ("arg1", cur, "col")), ("load", ("arg1", R["cols"]))) for c, v in gs)
        ok = recv == ("ref", False, ("load", ("arg1", S.active_buffer))) and idx == want and g
        ctx.check(ok, "U8", "cell", "the re-printed cell is %s[%s] under %s; expected the active buffer at (cols - 1, cursor.row) under col >= cols" % (w.tstr(term_dump, recv), w.tstr(term_dump, idx), [(w.tstr(term_dump, c), v) for c, v in gs]),
                  loc=w.site_loc(cs), sample={"cell": w.tstr(term_dump, idx)})
    if not sites:
        ctx.violation("U8", "cell", "no re-print of the last-column cell found in %s" % term_dump, loc=w.fn_loc(term_dump))


# ---- U9 -----------------------------------------------------------------------------------------------------------
def buffer_dump(ctx, w, S, R, term_dump):
    E = w.E
    ctx.rule("U9", "row content: a CR LF follows a row exactly when it is not soft-wrapped and not the last row of the view; runs are compressed as `c CSI (n-1) b` and pens are emitted when they change")
    bd = None
    for cs in E.call_sites(term_dump):
        if cs.local and S._impl_of(cs.callee) == S.buffer_ty and (w.facts.fns[cs.callee].get("output") or {}).get("s", "").endswith("String"):
            bd = cs.callee
    if not bd:
        ctx.missing_anchor("U9", "Buffer::dump")
        return
    em, locs, acc = dumpsim.emissions(w, bd)
    crlf = [e for e in em if e.kind == "lit" and e.payload in ("\r", "\n", "\r\n")]
    ok = bool(crlf)
    for e in crlf:
        g = e.guard_str()
        ok = ok and "wrapped" in g and "!" in g and "<" in g and "last" in g
    text = "".join(e.payload for e in crlf)
    ctx.check(ok and text == "\r\n", "U9", "crlf", "Buffer::dump emits %r under guard %s; expected CR LF under `i < last && !line.wrapped`" % (text, [e.guard_str() for e in crlf]), loc=w.fn_loc(bd),
              sample={"guard": [e.guard_str() for e in crlf]})
    # last == rows - 1
    T = w.terms(bd)
    # REP encoding
    rep = None
    for cs in E.call_sites(bd):
        if cs.local and S._impl_of(cs.callee) == S.buffer_ty and cs.callee != bd and "String" in repr(w.facts.fns[cs.callee].get("inputs")):
            rep = cs.callee
    if rep:
        rem, rl, racc = dumpsim.emissions(w, rep, acc=[p["name"] for p in w.hir(rep)["params"]][-1])
        sim = dumpsim.Sim(w)
        fm = [e for e in rem if e.kind == "fmt"]
        okr = len(fm) >= 1
        for e in fm:
            pieces, args = e.payload
            a = [src(x) for x, _ in args]
            shape = [p[0] if p[0] == "lit" else "arg" for p in pieces]
            lit = "".join(p[1] for p in pieces if p[0] == "lit")
            sim.reset()
            sim.feed("a" + lit.replace("\x1b[", "\x1b[7", 1) if False else "a\x1b[7b")
            okr = okr and shape == ["arg", "lit", "arg", "lit"] and lit in ("\x1b[b", "\u009bb") and a[1].replace(" ", "") in ("(count-1)",) and "count > " in e.guard_str()
            ctx.check(okr, "U9", "rep#%d" % e.order, "run-length emission is %r with operands %s under %s; expected `{char} CSI {count - 1} b` for long runs" % (pieces, a, e.guard_str()), loc=w.fn_loc(rep),
                      sample={"template": repr(pieces), "operands": a})
        # CSI n b repeats the previous character n times (C04.Y6) - so n-1 more copies re-create a run of n
    else:
        ctx.missing_anchor("U9", "run-length helper of Buffer::dump")
    # the pen is emitted whenever it differs from the last emitted one
    pens = [e for e in em if e.kind == "nested" and e.payload[0].endswith("Pen::dump")]
    okp = len(pens) == 1 and "!=" in pens[0].guard_str() and "pen" in pens[0].guard_str()
    ctx.check(okp, "U9", "pen-runs", "Buffer::dump must emit a cell run's pen exactly when it differs from the previously emitted pen (guards: %s)" % [e.guard_str() for e in pens], loc=w.fn_loc(bd),
              sample={"guard": [e.guard_str() for e in pens]})
    ctx.floor("U9", 3, "row-content obligations")


# ---- U10 ---------------------------------------------------------------------------------------
def guard_semantics(ctx, w, S, R, term_dump, em):
    """Whenever one scalar state component deviates from the power-on value, some emission that re-establishes
    exactly that component has a guard that is TRUE (guards are evaluated, not pattern-matched, on the
    constructor's state with one component changed; 10x5 representative geometry)."""
    import symeval as SE
    from rules import c19
    ctx.rule("U10", "for every single deviation of a scalar state component from its power-on value (modes, charsets, cursor visibility, margins) the guard of an emission that re-establishes that component evaluates to true")
    ctors = c19.constructor_of(w, S.term_ty)
    if len(ctors) != 1:
        ctx.missing_anchor("U10", "constructor of the terminal")
        return
    cf, cpt, crv = ctors[0]
    T = w.terms(cf)
    COLS, ROWS = 10, 5
    it = SE.Interp(w.facts)

    def conv(t):
        if t[0] == "const":
            return t[1]
        if t[0] == "adt" and not t[4]:
            return ("v", "%s::%s" % (t[1], t[2]))
        if t[0] == "array":
            return ("s", tuple(conv(x) for x in t[1]))
        if t[0] == "load" and t[1] == ("arg1", "0"):
            return COLS
        if t[0] == "load" and t[1] == ("arg1", "1"):
            return ROWS
        if t[0] == "binop" and t[1] in ("Sub", "Add"):
            a, b = conv(t[2]), conv(t[3])
            if isinstance(a, int) and isinstance(b, int):
                return a - b if t[1] == "Sub" else a + b
        if t[0] == "call" and not t[2] and t[1] in w.facts.hir:
            try:
                v = it.call_fn(t[1], [])
                if isinstance(v, tuple) and v and v[0] == "obj" and "selfty" not in str(v[1]):
                    return v
                if isinstance(v, tuple) and v and v[0] == "obj":
                    return ("obj", t[1].split(" as ")[0].lstrip("<"), v[2])
            except H.Unsupported:
                pass
        return ("sym", "opaque")
    base = {nm: conv(WD.strip_names(T.operand(op, cpt))) for nm, op in zip(crv["field_names"], crv["ops"])}
    # deviations
    devs = []
    for nm, v in base.items():
        fo = [f for f in w.facts.struct_fields(S.term_ty) if f["name"] == nm][0]
        ty = fo["ty"]["s"]
        if nm in (R["cols"], R["rows"], R["pending_wrap"]) or nm == "xtwinops":
            continue
        if isinstance(v, bool):
            devs.append((nm, {nm: (not v)}, nm))
        elif isinstance(v, tuple) and v[0] == "v" and fo["ty"].get("adt") in w.facts.adts and w.facts.adts[fo["ty"]["adt"]]["kind"] == "enum" and nm != R["active_buffer_type"]:
            for var in w.facts.enum_variants(fo["ty"]["adt"]):
                vv = ("v", "%s::%s" % (fo["ty"]["adt"], var))
                if vv != v:
                    devs.append(("%s=%s" % (nm, var), {nm: vv}, nm))
        elif isinstance(v, tuple) and v[0] == "s" and all(isinstance(x, tuple) and x[0] == "v" for x in v[1]):
            adt = v[1][0][1].rsplit("::", 1)[0]
            for i in range(len(v[1])):
                for var in w.facts.enum_variants(adt):
                    vv = ("v", "%s::%s" % (adt, var))
                    if vv != v[1][i]:
                        items = list(v[1])
                        items[i] = vv
                        devs.append(("%s[%d]=%s" % (nm, i, var), {nm: ("s", tuple(items))}, "%s[%d]" % (nm, i)))
        elif nm == R["active_charset"]:
            devs.append((nm + "=1", {nm: 1}, nm))
        elif nm == R["top_margin"]:
            devs.append((nm + "=1", {nm: 1}, "margins"))
        elif nm == R["bottom_margin"]:
            devs.append((nm + "=rows-2", {nm: ROWS - 2}, "margins"))
        elif isinstance(v, tuple) and v[0] == "obj" and nm == R["cursor"]:
            for k2, v2 in v[2].items():
                if isinstance(v2, bool):
                    devs.append(("%s.%s" % (nm, k2), {nm: ("obj", v[1], dict(v[2], **{k2: (not v2)}))}, k2))
    sim = dumpsim.Sim(w)

    def establishes(e):
        try:
            text, holes = instantiate(w, e)
        except H.Unsupported:
            return set()
        if any(h[0] == "<string>" for h in holes):
            return set()
        s2 = dumpsim.Sim(w)
        s2.feed(text)
        fns = dumpsim.functions(s2.events)
        out = set()
        for f in fns:
            if f[0] == "Decstbm":
                out.add("margins")
            out |= set(function_sets(w, R, f))
        return out
    est = {e.order: establishes(e) for e in em if e.kind in ("lit", "fmt")}
    n = 0
    for label, change, target in devs:
        state = dict(base)
        state.update(change)
        selfv = ("obj", S.term_ty, state)
        hit = []
        cands = [e for e in em if e.kind in ("lit", "fmt") and target in est[e.order]]
        for e in cands:
            try:
                vals = []
                for (k, pol, ge) in e.guards:
                    v = SE.Interp(w.facts).ev(ge, {"self": selfv})
                    if SE.is_symbolic(v) or not isinstance(v, bool):
                        raise H.Unsupported("guard value")
                    vals.append(v if pol is True else (not v) if pol is False else None)
                if all(x is True for x in vals):
                    hit.append(e)
            except H.Unsupported:
                continue
        n += 1
        ctx.check(bool(hit), "U10", label,
                  "with %s (everything else at power-on values, %dx%d) no emission that re-establishes `%s` is enabled (candidates: %s): the restored terminal keeps the power-on value" %
                  (label, COLS, ROWS, target, ["line %s: %s" % (e.line, e.guard_str()[:60]) for e in cands][:4]), loc=w.fn_loc(term_dump),
                  sample={"deviation": label, "enabled": ["line %s" % e.line for e in hit]})
    ctx.floor("U10", 10, "single-component deviations")
    screen_walk(ctx, w, S, R, term_dump, em, base)


# ---- U11 ---------------------------------------------------------------------------------------
def screen_walk(ctx, w, S, R, term_dump, em, base):
    """The dump script evaluated as a walk over the two screens: for every combination of showing screen and deviation of
    either saved context from its default, follow the ENABLED emissions in order (guards evaluated on that state, the
    routine's own `let` bindings included): what addresses the alternate screen (its saved-context block, its content)
    must be emitted while the script is on the alternate screen, what addresses the primary screen while it is on the
    primary, and the script must end on the screen that is showing.  Which field holds which screen's context comes from
    the roles (the save routine writes the showing screen's context), not from the dump."""
    import symeval as SE
    ctx.rule("U11", "for every showing screen x deviation of either saved context: enabled emissions addressing the alternate screen's saved context / content lie between the enabled switch pair, "
                    "those addressing the primary screen outside it, and the script ends on the showing screen")
    sim = dumpsim.Sim(w)
    fns = {e.order: emission_function(w, e, sim) for e in em}
    enter = [e for e in em if fns.get(e.order) and fns[e.order][0] == "Decset" and "AltScreenBuffer" in fns[e.order][1]]
    leave = [e for e in em if fns.get(e.order) and fns[e.order][0] == "Decrst" and "AltScreenBuffer" in fns[e.order][1]]
    fa, fp, ft = R["saved_ctx"], R["parked_saved_ctx"], R["active_buffer_type"]
    base = dict(base)
    dflt = "<%s as core::default::Default>::default" % R["saved_ctx_ty"]
    if dflt in w.facts.hir:
        try:
            for x in (fa, fp):
                if isinstance(base.get(x), tuple) and base[x][0] == "obj":
                    v = StrInterp(w.facts).call_fn(dflt, [])
                    base[x] = ("obj", base[x][1], v[2])
        except H.Unsupported:
            pass
    if len(enter) != 1 or len(leave) != 1 or not fa or not fp or not ft or not all(isinstance(base.get(x), tuple) and base[x][0] == "obj" for x in (fa, fp)):
        ctx.missing_anchor("U11", "alternate-screen switch pair / the two saved contexts / the showing-screen flag")
        return
    tfield = [f for f in w.facts.struct_fields(S.term_ty) if f["name"] == ft][0]
    tadt = tfield["ty"].get("adt")
    prim_v = base[ft]
    others = [("v", "%s::%s" % (tadt, v)) for v in w.facts.enum_variants(tadt) if ("v", "%s::%s" % (tadt, v)) != prim_v]
    if not (isinstance(prim_v, tuple) and prim_v[0] == "v") or len(others) != 1:
        ctx.missing_anchor("U11", "two-valued showing-screen flag with a constant power-on value")
        return
    alt_v = others[0]

    def deviations(obj):
        out = [("default", obj)]
        for k, v in sorted(obj[2].items()):
            if isinstance(v, bool):
                out.append(("%s=%s" % (k, not v), ("obj", obj[1], dict(obj[2], **{k: (not v)}))))
            elif isinstance(v, int):
                out.append(("%s=%d" % (k, v + 1), ("obj", obj[1], dict(obj[2], **{k: v + 1}))))
        return out
    body = w.hir(term_dump)["body"]

    def evaluate(T, ctx_a, ctx_p):
        state = dict(base)
        state.update({ft: T, fa: ctx_a, fp: ctx_p, S.active_buffer: ("sym", "SHOWING-BUFFER"), S.parked_buffer: ("sym", "PARKED-BUFFER")})
        selfv = ("obj", S.term_ty, state)
        it = StrInterp(w.facts)
        env = {"self": selfv}
        for st in body.get("stmts", []):
            if st["k"] == "let" and "init" in st and not str(st["pat"].get("ty", "")).endswith("string::String"):
                try:
                    it.match_pat(st["pat"], it.ev(st["init"], env), env)
                except (H.Unsupported, KeyError, TypeError):
                    pass
        en, content = {}, {}
        for e in em:
            try:
                vals = []
                for (k, pol, ge) in e.guards:
                    v = StrInterp(w.facts).ev(ge, dict(env))
                    if SE.is_symbolic(v) or not isinstance(v, bool) or pol not in (True, False):
                        raise H.Unsupported("guard value")
                    vals.append(v if pol else (not v))
                en[e.order] = all(vals)
            except (H.Unsupported, KeyError, TypeError):
                en[e.order] = None
            if e.kind == "nested" and S._impl_of(e.payload[0]) == S.buffer_ty:
                try:
                    r = StrInterp(w.facts).ev(e.payload[1], dict(env))
                    while isinstance(r, tuple) and r and r[0] == "ref":
                        r = r[-1]
                    content[e.order] = r[1] if isinstance(r, tuple) and r[0] == "sym" else None
                except (H.Unsupported, KeyError, TypeError):
                    content[e.order] = None
        return en, content
    dev_a, dev_p = deviations(base[fa]), deviations(base[fp])
    en0, _ = evaluate(prim_v, base[fa], base[fp])
    special = {enter[0].order, leave[0].order}
    prim_members, alt_members = set(), set()
    flips = {}
    for T, tl in ((prim_v, "primary"), (alt_v, "alternate")):
        enb, _ = evaluate(T, base[fa], base[fp])
        for lbl, o in dev_a[1:]:
            en1, _ = evaluate(T, o, base[fp])
            flips[(tl, "showing", lbl)] = {k for k in en1 if en1[k] != enb[k] and k not in special}
        for lbl, o in dev_p[1:]:
            en1, _ = evaluate(T, base[fa], o)
            flips[(tl, "parked", lbl)] = {k for k in en1 if en1[k] != enb[k] and k not in special}
    for (tl, which, lbl), fl in flips.items():
        if tl == "primary":
            (prim_members if which == "showing" else alt_members).update(fl)
    if not prim_members or not alt_members or prim_members & alt_members:
        # the saved-context blocks are not visible as guarded emissions (e.g. a helper that returns early for a default context and pushes
        # data-dependent strings): this walk cannot be set up for that shape.  Not decided rather than an alarm - the ordering rules
        # U5 / U6 and the script rules U2 still see every emission they can extract.
        ctx.ok("U11", "not-decided", {"reason": "no emission's guard depends on exactly one saved context (found %d / %d, %d in both)" % (len(prim_members), len(alt_members), len(prim_members & alt_members))})
        return
    # with the alternate screen showing the two fields have changed places (the showing screen's context is always in the
    # field the save routine writes): the same emissions must follow the same SCREEN's context
    for lbl, _o in dev_a[1:]:
        for which, other in (("showing", "parked"), ("parked", "showing")):
            a, b = flips.get(("primary", which, lbl), set()), flips.get(("alternate", other, lbl), set())
            ctx.check(a == b, "U11", "rebind:%s:%s" % (which, lbl), "the emissions enabled by `%s` of the %s screen's saved context differ between the primary screen showing (lines %s) and the alternate screen showing (lines %s): "
                      "the two saved contexts are not re-bound when the screens are switched" % (lbl.split("=")[0], "primary" if which == "showing" else "alternate",
                                                                                              sorted(e.line for e in em if e.order in a), sorted(e.line for e in em if e.order in b)), loc=w.fn_loc(term_dump))
    by_order = {e.order: e for e in em}
    n = 0
    for T, tl in ((prim_v, "primary"), (alt_v, "alternate")):
        for la, oa in dev_a:
            for lp, op in dev_p:
                en, content = evaluate(T, oa, op)
                label = "showing=%s,%s:%s,%s:%s" % (tl, fa, la, fp, lp)
                msg = None
                if en[enter[0].order] is None or en[leave[0].order] is None:
                    msg = "the guard of the alternate-screen switch could not be evaluated"
                screen = "primary"
                for e in em:
                    if msg:
                        break
                    on = en[e.order]
                    if on is not True:
                        continue
                    if e.order == enter[0].order:
                        screen = "alternate"
                    elif e.order == leave[0].order:
                        screen = "primary"
                    else:
                        want = "primary" if e.order in prim_members else "alternate" if e.order in alt_members else None
                        if e.order in content and content[e.order]:
                            shows = content[e.order] == "SHOWING-BUFFER"
                            want = tl if shows else ("alternate" if tl == "primary" else "primary")
                        if want and want != screen:
                            msg = "the emission at line %s (%s) addresses the %s screen but is written while the script is on the %s screen" % (e.line, e.guard_str()[:80], want, screen)
                if not msg and screen != tl:
                    msg = "the script ends on the %s screen although the %s screen is showing" % (screen, tl)
                n += 1
                if msg is not None:
                    bad_n = getattr(ctx, "_u11_bad", 0) + 1
                    ctx._u11_bad = bad_n
                    if bad_n > 6:          # the first six states are reported in full
                        continue
                ctx.check(msg is None, "U11", label, "dump with the %s screen showing, %s %s, %s %s: %s" % (tl, fa, la, fp, lp, msg), loc=w.fn_loc(term_dump),
                          sample={"state": label, "enabled": sum(1 for v in en.values() if v is True)})
    ctx.floor("U11", 18, "showing screen x saved-context deviations")
