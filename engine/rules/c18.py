"""C18 - tab stops: defaults every 8 columns, editable, correct across resizes."""
import hir as H
import mir as M
import symeval as SE
import world as WD
from rules import shared, c05


class Aff(SE.Interp):
    """Congruence domain for the widening arithmetic: the old width is
    ('aff', k) = start0 + k with start0 mod 8 = r known."""

    def __init__(self, facts, residue, modulus):
        super().__init__(facts)
        self.r = residue
        self.m = modulus
        self.iter_expr = None

    def ev(self, e, env):
        e0 = H.unwrap(e)
        if H.is_k(e0, "binary"):
            a = self.ev(e0["l"], env)
            b = self.ev(e0["r"], env)
            op = e0["op"]
            if is_aff(a) or is_aff(b):
                if op == "%" and is_aff(a) and isinstance(b, int) and self.m % b == 0:
                    return (self.r + a[1]) % b
                if op == "+" and is_aff(a) and isinstance(b, int):
                    return ("aff", a[1] + b)
                if op == "+" and is_aff(b) and isinstance(a, int):
                    return ("aff", b[1] + a)
                if op == "-" and is_aff(a) and isinstance(b, int):
                    return ("aff", a[1] - b)
                if op == "/" and is_aff(a) and isinstance(b, int) and b == self.m:
                    # (start0 + k) / 8 with start0 = 8q + r  ->  q + (r + k) // 8
                    return ("affq", (self.r + a[1]) // b)
                raise H.Unsupported("operation %s on the symbolic width" % op)
            if is_affq(a) or is_affq(b):
                if op == "*" and is_affq(a) and b == self.m:
                    return ("aff", a[1] * self.m - self.r)
                if op == "+" and is_affq(a) and isinstance(b, int):
                    return ("affq", a[1] + b)
                raise H.Unsupported("operation %s on the symbolic quotient" % op)
            return H.eval_expr({"k": "binary", "op": op, "ty": e0.get("ty"), "l": SE._lit(a), "r": SE._lit(b)}, {})
        if H.is_k(e0, "assignop"):
            cur = self.ev(e0["l"], env)
            rhs = self.ev(e0["r"], env)
            op = e0["op"].rstrip("=")
            v = self.ev({"k": "binary", "op": op, "l": _const_node(cur), "r": _const_node(rhs), "ty": "usize"}, env) if not (is_aff(cur) or is_aff(rhs)) else None
            if v is None:
                if op == "+" and is_aff(cur) and isinstance(rhs, int):
                    v = ("aff", cur[1] + rhs)
                elif op == "-" and is_aff(cur) and isinstance(rhs, int):
                    v = ("aff", cur[1] - rhs)
                else:
                    raise H.Unsupported("compound assignment %s on the symbolic width" % op)
            self.assign(e0["l"], v, env)
            return ("t", ())
        if H.is_k(e0, "match") and e0.get("src") == "ForLoopDesugar":
            # the iterator expression of the first `for` loop: capture and stop
            sc = H.unwrap(e0["scrut"])
            it = sc["args"][0] if H.is_k(sc, "call") else sc
            self.iter_expr = self.ev(it, env)
            raise SE.Ret(("t", ()))
        return super().ev(e, env)

    def ext_call(self, fp, args):
        return ("ext", fp, tuple(args))

    def ext_method(self, name, callee, recv, args):
        if name == "step_by":
            return ("step_by", recv, args[0])
        if name == "collect" and isinstance(recv, tuple) and recv and recv[0] == "step_by":
            self.iter_expr = recv
            return ("collected", recv)
        if name == "extend" and args and isinstance(args[0], tuple) and args[0] and args[0][0] == "step_by":
            self.iter_expr = args[0]
            return ("t", ())
        if name in ("div_ceil", "next_multiple_of") and is_aff(recv) and args and args[0] == self.m:
            k = recv[1]
            up = -((self.r + k) // -self.m) * self.m      # ceil to multiple
            if name == "next_multiple_of":
                return ("aff", up - self.r)
            return ("affq", up // self.m)
        return super().ext_method(name, callee, recv, args)


def is_aff(v):
    return isinstance(v, tuple) and len(v) == 2 and v[0] == "aff"


def is_affq(v):
    return isinstance(v, tuple) and len(v) == 2 and v[0] == "affq"


def _const_node(v):
    return {"k": "lit", "t": "int", "v": v}


def _find_vec(v):
    from rules import prims
    if isinstance(v, prims.Vec):
        return v
    if isinstance(v, tuple):
        if v and v[0] == "obj":
            for x in v[2].values():
                r = _find_vec(x)
                if r is not None:
                    return r
        elif v and v[0] == "v":
            for x in v[2]:
                r = _find_vec(x)
                if r is not None:
                    return r
    return None


def tabs_semantics(w, tabs_ty, ctor_fn, expand_fn, contract_fn, fns):
    """The tab table is plain data (a vector of columns): its constructor and editing routines evaluated on concrete tables.
      new(c), c = 1..48            -> the stops 8, 16, ... below c
      expand(old, new) on new(old) -> exactly new(new)      (old 1..26, new up to old+18: every residue of old mod 8)
      expand on a customised table -> the table plus the default stops in [old, new)
      contract(n)                  -> exactly the stops below n
      set(c) / unset(c) / clear    -> sorted insert without duplicates / removal of c only / nothing left
    -> (bad [(key, text)], evaluations, roles {"set":, "unset":, "clear":})"""
    from rules import prims
    bad, n, roles = [], 0, {}

    def mk(c):
        return prims.VecInterp(w.facts).call_fn(ctor_fn, [c])

    def with_stops(c, items):
        t = mk(c)
        v = _find_vec(t)
        if v is None:
            raise H.Unsupported("no stop vector inside %s" % tabs_ty)
        v.items[:] = list(items)
        return t

    def stops(t):
        v = _find_vec(t)
        return list(v.items) if v is not None else None

    def dflt(c):
        return list(range(8, c, 8))

    def note(key, text):
        if not any(b[0] == key for b in bad):
            bad.append((key, text))
    try:
        for c in range(1, 49):
            n += 1
            got = stops(mk(c))
            if got != dflt(c):
                note("new", "%s(%d) gives the stops %s, expected %s" % (ctor_fn, c, got, dflt(c)))
        for old in range(1, 27):
            for new in range(old + 1, old + 19):
                for custom in (None, [x for x in (1, 3) if x < old]):
                    t = mk(old) if custom is None else with_stops(old, custom)
                    base = stops(t)
                    prims.VecInterp(w.facts).call_fn(expand_fn, [t, old, new])
                    n += 1
                    want = base + [m for m in range(8, new, 8) if m >= old]
                    if stops(t) != want:
                        note("expand:%d" % (old % 8), "widening %d -> %d columns turns the stops %s into %s, expected %s (a never-customised terminal must tab like a fresh one of the new width)" % (old, new, base, stops(t), want))
        tables = ([8, 16, 24, 32], [3, 8, 9, 30], [], [5], [1, 2, 3])
        for tb in tables:
            for c in range(1, 36):
                t = with_stops(40, tb)
                prims.VecInterp(w.facts).call_fn(contract_fn, [t, c])
                n += 1
                if stops(t) != [x for x in tb if x < c]:
                    note("contract", "narrowing to %d columns turns the stops %s into %s, expected exactly the stops below %d" % (c, tb, stops(t), c))
        unary = [fn for fn, fo in sorted(fns.items()) if [i["s"] for i in fo.get("inputs", [])][1:] == ["usize"] and fo["inputs"][0]["s"].startswith("&mut") and fn != contract_fn]
        nullary = [fn for fn, fo in sorted(fns.items()) if len(fo.get("inputs", [])) == 1 and fo["inputs"][0]["s"].startswith("&mut")]
        for fn in unary:
            t1, t2 = with_stops(40, [8, 16]), with_stops(40, [8, 16])
            prims.VecInterp(w.facts).call_fn(fn, [t1, 5])
            prims.VecInterp(w.facts).call_fn(fn, [t2, 8])
            if stops(t1) == [5, 8, 16]:
                roles["set"] = fn
            elif stops(t2) == [16]:
                roles["unset"] = fn
        for role in ("set", "unset"):
            fn = roles.get(role)
            if not fn:
                note(role, "no routine of %s behaves as `%s a stop at a column`" % (tabs_ty, role))
                continue
            for tb in tables:
                for c in range(0, 36):
                    t = with_stops(40, tb)
                    prims.VecInterp(w.facts).call_fn(fn, [t, c])
                    n += 1
                    want = sorted(set(tb) | {c}) if role == "set" else [x for x in tb if x != c]
                    if stops(t) != want:
                        note(role, "%s(%d) on the stops %s gives %s, expected %s" % (fn, c, tb, stops(t), want))
        for fn in nullary:
            t = with_stops(40, [8, 16, 24])
            prims.VecInterp(w.facts).call_fn(fn, [t])
            n += 1
            if stops(t) == []:
                roles["clear"] = fn
    except prims.errs() as ex:
        note("evaluation", "cannot evaluate the tab table's routines: %s" % (ex,))
    return bad, n, roles


def resize_tabs_semantics(w, S, R, expand_fn, contract_fn):
    """The resize entry evaluated with the tab table opaque: narrower -> exactly contract(new), wider -> exactly expand(old, new),
    same width -> no call on the tab table.  -> True | description"""
    from rules import hinterp
    for old, new in ((10, 6), (10, 10), (10, 14), (16, 8), (8, 16)):
        me = hinterp.mock_terminal(w, S, R, old, 4, 0, 0, opaque_tabs=True)
        it = hinterp.MockBufInterp(w.facts, S)
        try:
            it.call_fn(S.resize_fn, [me, new, 4])
        except Exception as ex:
            return "cannot evaluate %s: %r" % (S.resize_fn, ex)
        calls = [(e[0], e[1]) for e in it.events if e[2] == "tabs"]
        want = [] if new == old else [(contract_fn, [new])] if new < old else [(expand_fn, [old, new])]
        if calls != want:
            return "resize from %d to %d columns makes the tab-table calls %s, expected %s" % (old, new, calls, want)
    return True


def _run(ctx, w):
    S = shared.screen(w)
    R = shared.roles(w)
    E = w.E
    tabs_f = R["tabs"]
    tabs_ty = [f["ty"]["adt"] for f in w.facts.struct_fields(S.term_ty) if f["name"] == tabs_f][0]
    ctx.explanation = ("Tab stops are decided by abstractly evaluating the widening arithmetic in a congruence domain (one run per residue of the old width mod 8), by sibling "
                       "agreement with the constructor, and by provenance/guard rules on the resize entry, the set/clear handlers and the stop search.")
    ctx.decided = ["Z1 first stop added on widening, for every residue class of the old width", "Z2 same step and first stop as the constructor",
                   "Z3 resize contracts on shrink and expands (old width, new width) on grow, before the width is overwritten", "Z4 contract keeps exactly the stops < new width",
                   "Z5 only Tabs' own methods edit the stop vector; set/unset go through binary search", "Z6 HTS only for 0 < col < cols; the search falls back to the last / first column",
                   "Z7 frames of HTS/CTC/TBC", "Z8 the n-th stop is selected after skipping stops on the wrong side of the cursor, by nth(n-1)"]
    ctx.not_decided = ["that the stop vector stays sorted/duplicate-free as an arithmetic fact (follows from Z4+Z1+Z5 only together)"]

    # the Tabs methods by role
    fns = {fn: fo for fn, fo in w.facts.fns.items() if (fo.get("impl_self") or {}).get("adt") == tabs_ty and "impl_trait" not in fo and fn in w.bodies}
    rf = S.resize_fn
    T = w.terms(rf)
    calls = [cs for cs in E.call_sites(rf) if cs.callee in fns]
    expand = [cs for cs in calls if len(cs.term["args"]) == 3]
    contract = [cs for cs in calls if len(cs.term["args"]) == 2]
    ctor = [fn for fn, fo in fns.items() if (fo.get("output") or {}).get("adt") == tabs_ty and not (fo["inputs"] and fo["inputs"][0].get("ref"))]
    if len(expand) != 1 or len(contract) != 1 or len(ctor) != 1:
        ctx.missing_anchor("Z3", "contract/expand calls in %s and the Tabs constructor" % rf, "(%d expand, %d contract, %d ctor)" % (len(expand), len(contract), len(ctor)))
        return
    expand_fn, contract_fn, ctor_fn = expand[0].callee, contract[0].callee, ctor[0]

    # ---- Z10: the table's routines evaluated; the shape rules Z1 / Z2 / Z4 and the binary-search form of Z5 defer to it ------------
    ctx.rule("Z10", "the tab table's constructor, expand, contract, set, unset and clear evaluated on concrete tables (every width 1..48, every widening old 1..26 -> up to old+18 on default and customised tables, "
                    "narrowing of five tables to every width, set / unset of every column 0..35): defaults every 8 columns also after widening, exactly the stops below the new width survive, sorted insert / single removal")
    sem_bad, sem_n, sem_roles = tabs_semantics(w, tabs_ty, ctor_fn, expand_fn, contract_fn, fns)
    for key, text in sem_bad[:8]:
        ctx.violation("Z10", key, text, loc=w.fn_loc(expand_fn if key.startswith("expand") else contract_fn if key == "contract" else ctor_fn))
    if not sem_bad:
        ctx.ok("Z10", "all", {"evaluations": sem_n, "roles": sem_roles})
    ctx.rule_counts["Z10"] = sem_n
    sem_ok = not sem_bad and sem_n >= 1500
    rz_sem = resize_tabs_semantics(w, S, R, expand_fn, contract_fn)
    ctx_plain = ctx
    ctx = shared.Deferred(ctx, {"Z1", "Z2", "Z4"}, sem_ok)
    if rz_sem is True:
        ctx = shared.Deferred(ctx, {"Z3"}, True)
    else:
        ctx_plain.violation("Z3", "semantic", str(rz_sem), loc=w.fn_loc(rf))

    # ---- Z1 ---------------------------------------------------------------------------------
    ctx.rule("Z1", "for every residue r of the old width modulo 8, the first stop generated on widening is old + (8 - r) mod 8, and the step is 8")
    hb = w.hir(expand_fn)
    pnames = [p.get("name") for p in hb["params"]]
    for r in range(8):
        it = Aff(w.facts, r, 8)
        env = {pnames[0]: ("obj", tabs_ty, {f["name"]: ("sym", "stops") for f in w.facts.struct_fields(tabs_ty) or []}), pnames[1]: ("aff", 0), pnames[2]: ("sym", "end")}
        got = None
        try:
            try:
                it.block(hb["body"], env)
            except SE.Ret:
                pass
            ie = it.iter_expr
            if ie and ie[0] == "step_by" and ie[1][0] == "range" and is_aff(ie[1][1]) and ie[1][2] == ("sym", "end") and ie[1][3] is False:
                got = (ie[1][1][1], ie[2])
            else:
                got = ("unrecognised", ie)
        except H.Unsupported as e:
            got = ("unsupported", str(e))
        want = ((8 - r) % 8, 8)
        ctx.check(got == want, "Z1", "residue%d" % r,
                  "widening from a width with width mod 8 == %d: the first new stop is old%+d with step %s, expected old+%d with step 8 (a never-customised terminal must tab like a fresh one of the new width)"
                  % (r, got[0] if isinstance(got[0], int) else 0, got[1] if isinstance(got[0], int) else got, want[0]), loc=w.fn_loc(expand_fn),
                  sample={"old_width_mod_8": r, "first_new_stop_offset": got[0], "step": got[1]})
    ctx.floor("Z1", 8, "residue classes")

    # ---- Z2 -------------------------------------------------------------------------------------
    ctx.rule("Z2", "the constructor places stops at 8, 16, ... below the width (same step as the widening)")
    hb2 = w.hir(ctor_fn)
    it = Aff(w.facts, 0, 8)
    env = {hb2["params"][0]["name"]: ("sym", "end")}
    try:
        try:
            it.block(hb2["body"], env)
        except SE.Ret:
            pass
        ie = it.iter_expr
        ok = bool(ie) and ie[0] == "step_by" and ie[1] == ("range", 8, ("sym", "end"), False) and ie[2] == 8
    except H.Unsupported as e:
        ok, ie = False, str(e)
    ctx.check(ok, "Z2", ctor_fn, "the default stops are generated by %r, expected (8..cols).step_by(8)" % (ie,), loc=w.fn_loc(ctor_fn), sample={"iterator": repr(ie)})
    # both loops push the loop variable unchanged
    for fn in (expand_fn, ctor_fn):
        TT = w.terms(fn)
        pushes = [cs for cs in E.call_sites(fn) if cs.callee.endswith("::push")]
        if not pushes and any(cs.term["callee"].get("decl_name") in ("collect", "extend") for cs in E.call_sites(fn)):
            ctx.ok("Z2", fn + ":push", {"fn": fn, "form": "collect/extend of the generated columns"})
            continue
        okp = len(pushes) == 1 and "Iterator" in repr(TT.operand(pushes[0].term["args"][1], pushes[0].point)) and "next" in repr(TT.operand(pushes[0].term["args"][1], pushes[0].point))
        ctx.check(okp, "Z2", fn + ":push", "%s does not push exactly the generated column" % fn, loc=w.fn_loc(fn))

    # ---- Z3 ------------------------------------------------------------------------------------------
    ctx.rule("Z3", "Terminal::resize: narrower -> contract(new), wider -> expand(old, new), both before the width field is overwritten")
    b = w.body(rf)
    cols_t = ("load", ("arg1", R["cols"]))
    newc = ("load", ("arg2",))
    ea = [WD.strip_names(T.operand(a, expand[0].point)) for a in expand[0].term["args"][1:]]
    ca = [WD.strip_names(T.operand(a, contract[0].point)) for a in contract[0].term["args"][1:]]
    ctx.check(ea == [cols_t, newc], "Z3", "expand:args", "expand is called with %s, expected (current width, new width)" % [w.tstr(rf, t) for t in ea], loc=w.site_loc(expand[0]), sample={"args": [w.tstr(rf, t) for t in ea]})
    ctx.check(ca == [newc], "Z3", "contract:args", "contract is called with %s, expected the new width" % [w.tstr(rf, t) for t in ca], loc=w.site_loc(contract[0]), sample={"args": [w.tstr(rf, t) for t in ca]})
    cw = [pt for pt, ps in E.stmt_writes[rf].items() if ("arg1", R["cols"]) in ps]
    for cs, nm in ((expand[0], "expand"), (contract[0], "contract")):
        ctx.check(bool(cw) and not any(b.path_exists(p, cs.point) for p in cw), "Z3", nm + ":order", "%s runs after the width field was overwritten: it sees the new width as the old one" % nm, loc=w.site_loc(cs))
        # arm of the width comparison
        ok = False
        for blk in sorted(b.normal_blocks()):
            t = b.term(blk)
            if t["k"] != "switch":
                continue
            d = T.operand(t["discr"], (blk, b.n_stmts(blk)))
            if d[0] == "discr" and d[1][0] == "call" and d[1][1].endswith("::cmp") and d[1][2] == (("ref", False, newc), ("ref", False, cols_t)):
                want = 255 if nm == "contract" else 1
                for v, tgt in t["targets"]:
                    if v == want and b.edge_controls((blk, tgt), cs.point[0]) and b.every_path_to_return_hits((tgt, 0), {cs.point}, include_start=True):
                        ok = True
        ctx.check(ok, "Z3", nm + ":arm", "%s is not executed exactly when the new width is %s than the current one" % (nm, "smaller" if nm == "contract" else "larger"), loc=w.site_loc(cs))
    ctx.floor("Z3", 6, "resize/tab obligations")

    # ---- Z4 ---------------------------------------------------------------------------------------------
    ctx.rule("Z4", "contract keeps exactly the stops strictly below the new width")
    TT = w.terms(contract_fn)
    pp = [cs for cs in E.call_sites(contract_fn) if cs.callee.endswith("::partition_point")]
    tr = [cs for cs in E.call_sites(contract_fn) if cs.callee.endswith("::truncate")]
    ok = len(pp) == 1 and len(tr) == 1
    detail = ""
    if ok:
        clo = TT.operand(pp[0].term["args"][1], pp[0].point)
        ok = clo[0] == "closure" and WD.strip_names(clo[2]) == (("ref", False, ("load", ("arg2",))),)
        if ok:
            cb = w.body(clo[1])
            CT = w.terms(clo[1])
            rts = [WD.strip_names(CT.local(0, (rb, cb.n_stmts(rb)))) for rb in cb.return_blocks()]
            detail = [w.tstr(clo[1], t) for t in rts]
            def is_lt(t):
                if t[0] == "binop" and t[1] == "Lt":
                    return "'arg2'" in repr(t[2]) and "'arg1'" in repr(t[3])
                if t[0] == "call" and t[1].endswith("::lt"):
                    return "'arg2'" in repr(t[2][0]) and "'arg1'" in repr(t[2][1])
                if t[0] == "binop" and t[1] == "Gt":
                    return "'arg1'" in repr(t[2]) and "'arg2'" in repr(t[3])
                return False
            ok = all(is_lt(t) for t in rts)
        arg = WD.strip_names(TT.operand(tr[0].term["args"][1], tr[0].point))
        ok = ok and arg[0] == "call" and arg[1].endswith("::partition_point")
    ctx.check(ok, "Z4", contract_fn, "contract must truncate at partition_point(|t| t < new_width); predicate found: %s" % detail, loc=w.fn_loc(contract_fn), sample={"predicate": detail})

    # ---- Z5 ------------------------------------------------------------------------------------------------
    ctx.rule("Z5", "the stop vector is edited only inside Tabs; set inserts at the binary-search miss position, unset removes at the hit position")
    for fn in sorted(w.bodies):
        if fn in fns or (w.facts.fns.get(fn, {}).get("impl_self") or {}).get("adt") == tabs_ty:
            continue
        direct = [pt for pt, ps in E.stmt_writes[fn].items() if any(len(p) >= 3 and p[1] == tabs_f and p[0] == "arg1" for p in ps)
                  and (w.facts.fns.get(fn, {}).get("impl_self") or {}).get("adt") == S.term_ty]
        ext = [cs for cs in E.call_sites(fn) if not cs.local and any(len(p) >= 3 and p[0] == "arg1" and p[1] == tabs_f for p in cs.W)
               and (w.facts.fns.get(fn, {}).get("impl_self") or {}).get("adt") == S.term_ty]
        ctx.check(not direct and not ext, "Z5", "writer:" + fn, "%s edits the tab-stop vector directly" % fn, loc=w.fn_loc(fn)) if (direct or ext) else None
    # who may change the stops at all: HTS / CTC / TBC, a width change, the full reset and the constructor - nothing else (not DECSTR)
    allowed = set(w.handler_reach("Hts")) | set(w.handler_reach("Ctc")) | set(w.handler_reach("Tbc")) | set(w.handler_reach("Ris")) | {S.resize_fn}
    for fn in sorted(w.bodies):
        if S._impl_of(fn) != S.term_ty:
            continue
        is_ctor = any(s_["k"] == "assign" and s_["rv"]["k"] == "aggregate" and s_["rv"].get("adt") == S.term_ty for bl in w.body(fn).blocks for s_ in bl["stmts"])
        wr = [pt for pt, ps in E.stmt_writes[fn].items() if any(p[:2] == ("arg1", tabs_f) for p in ps)]
        wr += [cs.point for cs in E.call_sites(fn) if any(p[:2] == ("arg1", tabs_f) for p in cs.W) and (not cs.local or S._impl_of(cs.callee) != S.term_ty)]
        if wr and not is_ctor:
            ctx.check(fn in allowed, "Z5", "who:" + fn, "%s changes the tab stops; only HTS/CTC/TBC, a width change and the full reset may (a soft reset keeps them)" % fn, loc=w.stmt_loc(fn, wr[0]),
                      sample={"fn": fn})
    ctx.ok("Z5", "writers", {"tabs_methods": sorted(fns)})
    setter = unsetter = None
    for fn in fns:
        ins = [cs for cs in E.call_sites(fn) if cs.callee.endswith("Vec::<T, A>::insert")]
        rem = [cs for cs in E.call_sites(fn) if cs.callee.endswith("Vec::<T, A>::remove")]
        bs = [cs for cs in E.call_sites(fn) if cs.callee.endswith("::binary_search")]
        for cs, variant, nm in [(c, "Err", "set") for c in ins] + [(c, "Ok", "unset") for c in rem]:
            TT = w.terms(fn)
            idx = WD.strip_names(TT.operand(cs.term["args"][1], cs.point))
            ok = len(bs) == 1 and "binary_search" in repr(idx) and ("'%s'" % variant) in repr(idx) and "downcast" in repr(idx)
            if nm == "set":
                setter = fn
                val = WD.strip_names(TT.operand(cs.term["args"][2], cs.point))
                ok = ok and val == ("load", ("arg2",))
            else:
                unsetter = fn
            ok = ok or sem_ok           # another algorithm with the same effect (Z10)
            ctx.check(ok, "Z5", "%s:%s" % (fn, nm), "%s must %s at the position reported by binary_search's %s case (index term %s)" % (fn, "insert" if nm == "set" else "remove", variant, w.tstr(fn, idx)),
                      loc=w.site_loc(cs), sample={"fn": fn, "index": w.tstr(fn, idx)})
    setter = setter or sem_roles.get("set")
    unsetter = unsetter or sem_roles.get("unset")
    if sem_ok and setter and unsetter:
        ctx.ok("Z5", "roles", {"set": setter, "unset": unsetter})
    ctx.floor("Z5", 2, "stop-vector editors")

    # ---- Z6 / Z7 --------------------------------------------------------------------------------------------------
    ctx.rule("Z6", "a stop is set only at 0 < col < cols; moving by tab falls back to the last / first column; counts default to 1")
    cur = R["cursor"]
    col_t = ("load", ("arg1", cur, "col"))
    for v in ("Hts", "Ctc"):
        for h in sorted(w.handler_reach(v)):
            for cs in E.call_sites(h, setter):
                gs = [(WD.strip_names(c), val) for c, val in w.guards_of(h, cs.point[0])]
                lo = any(val is True and c in (("binop", "Lt", ("const", 0), col_t), ("binop", "Gt", col_t, ("const", 0)), ("binop", "Ne", col_t, ("const", 0))) for c, val in gs)
                hi = any(val is True and c in (("binop", "Lt", col_t, cols_t), ("binop", "Gt", cols_t, col_t)) for c, val in gs)
                arg = WD.strip_names(w.terms(h).operand(cs.term["args"][1], cs.point))
                ctx.check(lo and hi and arg == col_t, "Z6", "%s:%s" % (v, h), "%s sets a stop at %s under guards %s; required: at the cursor column, only when 0 < col < cols" % (h, w.tstr(h, arg), [(w.tstr(h, c), val) for c, val in gs]),
                          loc=w.site_loc(cs), sample={"fn": h, "guards": [(w.tstr(h, c), val) for c, val in gs]})
    for v, fb in (("Ht", "last"), ("Cht", "last"), ("Cbt", "first")):
        seen = False
        for h in sorted(w.handler_reach(v)):
            TT = w.terms(h)
            for cs in E.call_sites(h):
                if cs.callee.endswith("Option::<T>::unwrap_or") or cs.callee.endswith("::unwrap_or"):
                    src = WD.strip_names(TT.operand(cs.term["args"][0], cs.point))
                    d = WD.strip_names(TT.operand(cs.term["args"][1], cs.point))
                    if src[0] == "call" and src[1] in fns:
                        seen = True
                        want = ("binop", "Sub", cols_t, ("const", 1)) if fb == "last" else ("const", 0)
                        ok = d == want and src[2][1] == col_t
                        ctx.check(ok, "Z6", "%s:fallback" % v, "%s: stop search from %s falls back to %s; expected from the cursor column to the %s column" % (h, w.tstr(h, src[2][1]), w.tstr(h, d), fb),
                                  loc=w.site_loc(cs), sample={"function": v, "fallback": w.tstr(h, d)})
        if not seen:
            ctx.missing_anchor("Z6", "tab search with fallback for Function::%s" % v)
    ctx.floor("Z6", 5, "tab guards")
    # ---- Z9: which tab operation each CTC / TBC selector performs, and the count of CHT / CBT ----
    ctx.rule("Z9", "CTC 0 / HTS set a stop at the cursor column, CTC 2 / TBC 0 clear the stop at the cursor column only, CTC 5 / TBC 3 clear all stops (decision table of the handlers, tab table opaque)")
    from rules import hinterp
    clearer = [fn for fn, fo in fns.items() if len(fo["inputs"]) == 1 and fo["inputs"][0].get("ref") == "mut" and any(cs.callee.endswith("::clear") for cs in E.call_sites(fn))]
    want = {("Ctc", "parser::CtcOp::Set"): ("set", setter), ("Ctc", "parser::CtcOp::ClearCurrentColumn"): ("unset", unsetter), ("Ctc", "parser::CtcOp::ClearAll"): ("clear", clearer[0] if len(clearer) == 1 else None),
            ("Tbc", "parser::TbcScope::CurrentColumn"): ("unset", unsetter), ("Tbc", "parser::TbcScope::All"): ("clear", clearer[0] if len(clearer) == 1 else None)}
    for (v, sel), (kind, fn_want) in sorted(want.items()):
        for h in w.handler(v):
            # at an ordinary column, in the first and last column, and in the wrap-pending position (col == cols): the
            # operation always concerns the column the cursor reports
            for ccol, pend in ((3, False), (0, False), (9, False), (10, True)):
                try:
                    ev, me = hinterp.run_handler(w, S, R, h, [("v", sel)], 10, 3, ccol, 1, opaque_tabs=True, **{R["pending_wrap"]: pend})
                except Exception as ex:
                    ctx.violation("Z9", "%s:%s@%d" % (v, sel.rsplit("::", 1)[1], ccol), "cannot evaluate %s for %s: %s" % (h, sel, ex), loc=w.fn_loc(h))
                    continue
                te = [(e[0], e[1]) for e in ev if e[2] == "tabs"]
                if kind == "set":
                    exp = [(fn_want, [ccol])] if 0 < ccol < 10 else []
                elif kind == "unset":
                    exp = [(fn_want, [ccol])]
                else:
                    exp = [(fn_want, [])]
                ctx.check(fn_want is not None and te == exp, "Z9", "%s:%s@%d" % (v, sel.rsplit("::", 1)[1], ccol),
                          "%s with %s and the cursor in column %d%s performs %s on the tab table; expected %s" % (h, sel, ccol, " (wrap pending)" if pend else "", te, exp), loc=w.fn_loc(h),
                          sample={"selector": sel, "column": ccol, "operations": [t[0] for t in te]})
    ctx.floor("Z9", 5, "tab selectors")
    shared.count_passthrough(ctx, w, S, R, "Z9c", ["Cht", "Cbt"])
    # tabbing is a cursor command: it clears wrap-pending (leaves a real column) on every path
    c05.wrap_pending_rule(ctx, w, S, R)
    ctx.rule("Z7", "HTS/CTC/TBC write only the tab stops")
    for v in ("Hts", "Ctc", "Tbc"):
        shared.frame(ctx, w, "Z7", v, [(tabs_f,)], "setting/clearing tab stops changes nothing else")

    # ---- Z8 the search ------------------------------------------------------------------------------------------------------
    # semantic form: both searches evaluated on concrete (sorted, duplicate-free) stop tables
    z8_sem = None
    try:
        from rules import prims as _pr
        tf = [f["name"] for f in w.facts.struct_fields(tabs_ty) or []]
        searches = [fn for fn, fo in sorted(fns.items()) if [i["s"] for i in fo["inputs"]][1:] == ["usize", "usize"] and (fo.get("output") or {}).get("s") == "core::option::Option<usize>"]
        tables_ = ([8, 16, 24, 32], [3, 8, 9, 30], [], [5])
        if len(tf) == 1 and len(searches) == 2:
            okz = True
            kinds = set()
            for fn in searches:
                probe = _pr.VecInterp(w.facts).call_fn(fn, [("obj", tabs_ty, {tf[0]: _pr.Vec([10, 20])}), 15, 1])
                kind = "after" if probe == H.some(20) else "before" if probe == H.some(10) else None
                kinds.add(kind)
                for stops in tables_:
                    for pos in range(0, 36):
                        for n_ in range(1, 5):
                            r = _pr.VecInterp(w.facts).call_fn(fn, [("obj", tabs_ty, {tf[0]: _pr.Vec(list(stops))}), pos, n_])
                            cand = [t for t in stops if t > pos] if kind == "after" else list(reversed([t for t in stops if t < pos]))
                            want = H.some(cand[n_ - 1]) if len(cand) >= n_ else H.NONE_V
                            if r != want:
                                okz = False
            z8_sem = okz and kinds == {"after", "before"}
    except Exception:
        z8_sem = None
    ctx.rule("Z8s", "the two stop searches evaluated on concrete sorted stop tables ([8,16,24,32], [3,8,9,30], [], [5]; every column 0..35, counts 1..4) return the n-th stop right / left of the column, or nothing")
    if z8_sem is not None:
        ctx.check(z8_sem, "Z8s", "searches", "a stop search returns something other than the n-th stop strictly right / left of the given column on a small concrete stop table", loc=w.fn_loc(rf))
    ctx = shared.Deferred(ctx, {"Z8"}, z8_sem)
    ctx.rule("Z8", "the n-th next (previous) stop: iterate ascending (descending), skip the stops <= (>=) the cursor column, take nth(n-1)")
    for fn, fo in sorted(fns.items()):
        ins = [i["s"] for i in fo["inputs"]]
        if ins[1:] != ["usize", "usize"] or (fo.get("output") or {}).get("s") != "core::option::Option<usize>":
            continue
        b2 = w.body(fn)
        TT = w.terms(fn)
        rts = [WD.strip_names(TT.local(0, (rb, b2.n_stmts(rb)))) for rb in b2.return_blocks()]
        t = rts[0] if len(rts) == 1 else None
        desc = w.tstr(fn, t) if t else "?"
        ok = False
        direction = None
        if t and t[0] == "call" and t[1].endswith("::copied"):
            nth = t[2][0]
            if nth[0] == "call" and nth[1].endswith("Iterator::nth"):
                n_arg = nth[2][1]
                src = nth[2][0]
                if src[0] == "ref":
                    src = src[2]
                if src[0] == "obj":
                    src = src[1]
                okn = n_arg == ("binop", "Sub", ("load", ("arg3",)), ("const", 1))
                if src[0] == "call" and src[1].endswith("Iterator::skip_while"):
                    base, clo = src[2]
                    rev = base[0] == "call" and base[1].endswith("Iterator::rev")
                    if rev:
                        base = base[2][0]
                    is_iter = base[0] == "call" and base[1].endswith("::iter")
                    pred = closure_pred(w, clo)
                    direction = "before" if rev else "after"
                    # after: skip while pos >= t ; before (reversed): skip while pos <= t
                    want = ("Ge" if not rev else "Le")
                    ok = okn and is_iter and pred == want and clo[0] == "closure" and WD.strip_names(clo[2]) == (("ref", False, ("load", ("arg2",))),)
        ctx.check(ok, "Z8", fn, "%s computes %s; expected iter()%s.skip_while(|t| pos %s t).nth(n-1).copied()" % (fn, desc, ".rev()" if direction == "before" else "", "<=" if direction == "before" else ">="),
                  loc=w.fn_loc(fn), sample={"fn": fn, "term": desc})
    ctx.floor("Z8", 2, "stop searches")


def closure_pred(w, clo):
    """'Ge' when the closure computes captured >= *arg, 'Le' for <=, etc."""
    if clo[0] != "closure":
        return None
    cb = w.body(clo[1])
    CT = w.terms(clo[1])
    rts = [WD.strip_names(CT.local(0, (rb, cb.n_stmts(rb)))) for rb in cb.return_blocks()]
    if len(rts) != 1:
        return None
    t = rts[0]
    if t[0] == "binop" and "'arg1'" in repr(t[2]) and "'arg2'" in repr(t[3]):
        return t[1]
    flip = {"Ge": "Le", "Le": "Ge", "Gt": "Lt", "Lt": "Gt"}
    if t[0] == "binop" and "'arg2'" in repr(t[2]) and "'arg1'" in repr(t[3]):
        return flip.get(t[1])
    return None


def run(ctx, w):
    _run(ctx, w)
    # the commands of this property must first of all be DECODED as specified (selector values, parameter slots, finals)
    from rules import c03
    shared.embed(ctx, w, c03.dispatch_rules)
