"""C15 - changed-line reports are sound.

M1  mark-after-mutate on every path (interprocedural pairing rule over MIR)
M2  the rows marked are the rows mutated (operand provenance)
M3  view-level erase scopes / whole-screen operations mark the reference extent
M4  report-and-clear: only the reporting routine clears; its result is returned unchanged
"""
import hir as H
import mir as M
import world as WD
from rules import shared


def run(ctx, w):
    S = shared.screen(w)
    E = w.E
    ctx.explanation = (
        "Every statement or call in the terminal's command handlers that can change row content of a screen buffer "
        "(per the may-write summaries of the callee) must be followed, on EVERY path to the handler's return, by a "
        "mark of the dirty set; functions without a mark transfer the obligation to each of their call sites. The "
        "marked rows are compared with the mutated rows by operand provenance."
    )
    ctx.decided = ["M1 mark-after-mutate on all paths, transitively", "M2 marked row/range == mutated row/range", "M3 erase scopes, buffer switches, resize and reset mark their full extent",
                   "M4 the set is cleared only by the reporting routine, whose result reaches Changes.lines unchanged"]
    ctx.not_decided = ["that a buffer primitive changes only the rows named by its own row argument (frame of Buffer's primitives at cell granularity)"]

    scope = S.terminal_scope            # Terminal methods reachable from the public mutating API
    marks_all = {}
    dirty_exit = {}
    direct_mut = {}
    direct_mark = {}
    for f in scope:
        direct_mut[f] = S.direct_mutation_points(f)
        direct_mark[f] = S.direct_mark_points(f)
        marks_all[f] = False
        dirty_exit[f] = False

    def points(f):
        b = w.body(f)
        mut = dict(direct_mut[f])
        mark = dict(direct_mark[f])
        for cs in E.call_sites(f):
            if cs.local and cs.callee in scope:
                if marks_all[cs.callee]:
                    mark.setdefault(cs.point, "call %s (marks on every path)" % cs.callee)
                if dirty_exit[cs.callee]:
                    mut.setdefault(cs.point, "call %s (returns with unmarked mutation)" % cs.callee)
        return b, mut, mark

    for _ in range(12):
        changed = False
        for f in scope:
            b, mut, mark = points(f)
            ma = b.every_path_to_return_hits((0, 0), set(mark), include_start=True) if b.return_blocks() else False
            de = False
            for m in mut:
                if m in mark and m not in direct_mut[f]:
                    # a call that mutates and marks internally on all paths
                    continue
                hits = set(mark) - {m}
                if not b.every_path_to_return_hits(m, hits):
                    de = True
            if ma != marks_all[f] or de != dirty_exit[f]:
                marks_all[f], dirty_exit[f] = ma, de
                changed = True
        if not changed:
            break

    ctx.rule("M1", "every row-content mutation in a command handler is followed by a dirty mark on every path to return (obligation transferred to callers when the function has no mark)")
    entries = S.entry_functions       # functions invoked from outside the scope (executor arms, Vt::resize)
    n_mut = 0
    for f in sorted(scope):
        b, mut, mark = points(f)
        for m, why in sorted(mut.items()):
            n_mut += 1
            hits = set(mark) - ({m} if m in direct_mut[f] else set())
            ok_here = b.every_path_to_return_hits(m, hits) or (m in mark and m not in direct_mut[f])
            if ok_here:
                ctx.ok("M1", "%s@%s" % (f, w.stmt_loc(f, m)), {"fn": f, "mutation": why, "marked_by": sorted({mark[x] for x in hits if x in mark})[:3]})
            elif f in entries or not S.callers_in_scope(f):
                ctx.violation("M1", "%s:%s" % (f, shared.site_key(w, f, m)),
                              "%s: `%s` changes row content but some path to return sets no dirty mark afterwards, and %s is invoked directly by the executor/API: "
                              "a changed row is not reported in Changes.lines" % (f, why, f), loc=w.stmt_loc(f, m))
            else:
                # obligation transferred: callers are checked as mutation points (dirty_exit)
                ctx.ok("M1", "%s@%s(transferred)" % (f, w.stmt_loc(f, m)), {"fn": f, "mutation": why, "transferred_to": sorted(S.callers_in_scope(f))})
    ctx.floor("M1", 15, "row mutation sites in terminal handlers (23 confirmed by reading; slack for legitimate refactors)")
    ctx.extra["mutation_sites"] = n_mut
    ctx.extra["mark_sites"] = sum(len(v) for v in direct_mark.values())
    if ctx.extra["mark_sites"] < 10:
        ctx.violation("M1", "floor:marks", "only %d dirty-mark sites found (19 confirmed by reading, floor 10) by reading" % ctx.extra["mark_sites"])

    rows_rules(ctx, w, S, direct_mut, direct_mark)
    mark_total(ctx, w, S)
    export_semantics(ctx, w, S)
    report_rules(ctx, w, S)


def strip_clone(t):
    while isinstance(t, tuple) and t[0] == "call" and t[1].endswith("Clone>::clone") and len(t[2]) == 1:
        t = t[2][0]
        if t[0] == "ref":
            t = t[2]
    return t


def rows_rules(ctx, w, S, direct_mut, direct_mark):
    E = w.E
    ctx.rule("M2", "the row (range) passed to the dirty mark is the row (range) passed to the mutating primitive, unchanged in between")
    ctx.rule("M3", "whole-screen mutations (buffer switch, re-layout, reset) mark every row; view-level erase scopes mark the rows their footprint covers")
    rows_t = ("load", ("arg1", S.rows_field))
    for f in sorted(S.terminal_scope):
        b = w.body(f)
        T = w.terms(f)
        marks = direct_mark[f]
        if not direct_mut[f]:
            continue
        for m in sorted(direct_mut[f]):
            info = S.mutation_operand(f, m)      # ("row", term) | ("range", term) | ("rows", [terms]) | ("whole",) | None
            if info is None:
                continue
            # the marks that can follow m before any other mark
            following = [p for p in marks if b.path_exists(m, p, avoiding=[q for q in marks if q != p])]
            if not following:
                continue
            for p in following:
                mk = S.mark_operand(f, p)            # ("row", t) | ("range", t) | ("all",)
                subj = "%s@%s" % (f, shared.site_key(w, f, m))
                loc = w.stmt_loc(f, p)
                ok = None
                why = ""
                if info[0] == "whole":
                    rule = "M3"
                    ok = mk[0] == "all" or (mk[0] == "range" and shared.is_full_range(strip_clone(mk[1]), rows_t))
                    why = "a whole-screen change must mark every row (0..rows or a fresh all-dirty set), got %s" % shared.mk_str(w, f, mk)
                elif info[0] == "row":
                    rule = "M2"
                    if mk[0] == "row":
                        ok = WD.strip_names(mk[1]) == WD.strip_names(info[1])
                        why = "mutated row %s but marked row %s" % (w.tstr(f, info[1]), w.tstr(f, mk[1]))
                        if ok:
                            ok = shared.stable_between(w, f, info[1], m, p)
                            why = "the row operand %s is modified between the mutation and the mark" % w.tstr(f, info[1])
                    elif mk[0] == "range":
                        ok = shared.range_covers_row(strip_clone(mk[1]), info[1], rows_t)
                        why = "mutated row %s is not covered by the marked range %s" % (w.tstr(f, info[1]), w.tstr(f, mk[1]))
                    else:
                        ok = True
                elif info[0] == "range":
                    rule = "M2"
                    if mk[0] == "range":
                        a, c = strip_clone(mk[1]), strip_clone(info[1])
                        ok = WD.strip_names(a) == WD.strip_names(c) or shared.is_full_range(a, rows_t)
                        why = "scrolled range %s but marked %s" % (w.tstr(f, c), w.tstr(f, a))
                    elif mk[0] == "all":
                        ok = True
                    else:
                        ok = False
                        why = "a range of rows is shifted but a single row is marked"
                elif info[0] == "footprint":
                    rule = "M3"
                    ok, why = shared.footprint_covered(w, f, info[1], mk, rows_t)
                if ok is None:
                    continue
                if not ok and info[0] != "whole":      # (the evaluation below keeps the geometry fixed: it says nothing about a re-layout / switch / reset)
                    # the operand-matching form could not establish it (e.g. mode and range selected together by one match):
                    # decide it semantically - evaluate the handler on a small symbolic screen for every parameter value and
                    # cursor position and compare the rows it changes with the rows it marks
                    try:
                        from rules import hinterp
                        import hir as _H
                        ok2, info2 = hinterp.marks_cover_changes(w, S, shared.roles(w), f)
                        if ok2:
                            ok = True
                        else:
                            why = why + "; " + str(info2)
                    except Exception as ex:      # outside the interpreter's fragment: the structural verdict stands
                        why = why + " (semantic evaluation not possible: %s)" % (ex,)
                ctx.check(ok, rule, subj, "%s: %s" % (f, why), loc=loc,
                          sample={"fn": f, "mutation": shared.info_str(w, f, info), "mark": shared.mk_str(w, f, mk)})
    ctx.floor("M2", 10, "mutation/mark operand pairs")
    ctx.floor("M3", 4, "whole-screen / scoped mutations")


def report_rules(ctx, w, S):
    E = w.E
    ctx.rule("M4", "the dirty set is exported then cleared by the reporting routine only; Vt::feed_str / Vt::resize call it on every path and return its value unchanged")
    ch = S.changes_fn
    b = w.body(ch)
    exp = [cs for cs in E.call_sites(ch) if cs.callee in S.dl_export]
    clr = [cs for cs in E.call_sites(ch) if cs.callee in S.dl_unmark]
    ctx.check(len(exp) == 1 and len(clr) == 1 and b.point_dominates(exp[0].point, clr[0].point), "M4", "export-then-clear",
              "%s must export the set and then clear it (found %d export(s), %d clear(s))" % (ch, len(exp), len(clr)), loc=w.fn_loc(ch),
              sample={"fn": ch, "export": [c.callee for c in exp], "clear": [c.callee for c in clr]})
    if exp:
        T = w.terms(ch)
        rts = [T.local(0, (rb, b.n_stmts(rb))) for rb in b.return_blocks()]
        ctx.check(all(t[0] == "call" and t[1] == exp[0].callee for t in rts), "M4", "returns-export",
                  "%s does not return the exported set unchanged: %s" % (ch, [w.tstr(ch, t) for t in rts]), loc=w.fn_loc(ch))
    # nobody else clears / unmarks
    for m in sorted(S.dl_unmark):
        for cs in E.callers_of(m):
            if cs.term is None:
                continue
            allowed = cs.body == ch or cs.body in S.relayout_fns
            ctx.check(allowed, "M4", "%s<-%s" % (m, cs.body),
                      "%s un-marks rows (calls %s) outside the reporting routine: a change made earlier in the same call can be lost" % (cs.body, m), loc=w.site_loc(cs),
                      sample={"caller": cs.body, "callee": m})
    # the Vt entry points
    for api in (WD.VT_FEED_STR, WD.VT_RESIZE):
        vb = w.body(api)
        ep = shared.Epilogue(w, S, api)
        ctx.check(ep.on_every_path(ch) and ep.returned_unchanged(), "M4", api + ":calls", "%s does not run the reporting routine %s on every path (or does not return the epilogue's value)" % (api, ch), loc=w.fn_loc(api))
        agg = ep.changes_aggregate()
        if agg is None:
            ctx.violation("M4", api + ":lines", "%s does not build a vt::Changes value" % api, loc=w.fn_loc(api))
        else:
            hfn, hpt, flds = agg
            t = flds.get("lines")
            ctx.check(t is not None and t[0] == "call" and t[1] == ch, "M4", api + ":lines",
                      "Changes.lines returned by %s is %s, not the reporting routine's result" % (api, w.tstr(hfn, t) if t else None), loc=w.stmt_loc(hfn, hpt),
                      sample={"api": api, "lines": w.tstr(hfn, t) if t else None})
        rs = ep.site_in_api(ch)
        if rs is not None:
            # per-character steps / the resize precede the report
            for cs in E.call_sites(api):
                if cs.local and cs is not rs and cs.callee not in (ch, S.gc_fn, ep.host) and any(p[:2] == ("arg1", "terminal") for p in cs.W):
                    ctx.check(not vb.path_exists(rs.point, cs.point), "M4", api + ":order:" + cs.callee,
                              "%s mutates the terminal (%s) after the changes were collected" % (api, cs.callee), loc=w.site_loc(cs))
            for (pt, cdef, upvals) in E.closure_creations[api]:
                ctx.check(not vb.path_exists(rs.point, pt), "M4", api + ":order:" + cdef,
                          "%s runs its per-character closure after the changes were collected" % api, loc=w.stmt_loc(api, pt))
    ctx.floor("M4", 8, "report-and-clear obligations")


def export_semantics(ctx, w, S):
    """M4s: the export of the dirty set evaluated on every flag pattern of 4 rows: it lists exactly the indices of the set flags,
    ascending (the index is taken BEFORE filtering)."""
    from rules import prims
    ctx.rule("M4s", "the dirty set's export evaluated on all 16 flag patterns of four rows returns exactly the indices of the set flags, in ascending order")
    flds = [f["name"] for f in w.facts.struct_fields(S.dl_ty) or [] if f["ty"]["s"].startswith("alloc::vec::Vec<bool>")]
    if len(flds) != 1 or len(S.dl_export) != 1:
        ctx.missing_anchor("M4s", "flag vector / export routine of the dirty set")
        return
    ex = next(iter(S.dl_export))
    other = {f["name"]: H.NONE_V for f in w.facts.struct_fields(S.dl_ty) if f["name"] != flds[0]}
    for bits in range(16):
        flags = [bool(bits >> i & 1) for i in range(4)]
        obj = ("obj", S.dl_ty, dict(other, **{flds[0]: prims.Vec(flags)}))
        try:
            r = prims.VecInterp(w.facts).call_fn(ex, [obj])
            got = list(r.items) if isinstance(r, prims.Vec) else (r[1] if isinstance(r, tuple) and r and r[0] == "iter" else r)
        except prims.errs() as exn:
            got = "error: %s" % (exn,)
        want = [i for i, f in enumerate(flags) if f]
        ctx.check(got == want, "M4s", "flags=%s" % "".join("1" if f else "0" for f in flags), "%s on flags %s returns %s, expected %s" % (ex, flags, got, want), loc=w.fn_loc(ex), sample={"flags": flags})
    ctx.floor("M4s", 16, "flag patterns")


def mark_total(ctx, w, S):
    """M6: a dirty mark is unconditional: every path through a marking routine of the dirty set writes the flag storage
    (no "already marked" shortcut whose memory could outlive the flags)."""
    E = w.E
    ctx.rule("M6", "every path through a marking routine of the dirty set stores the flag(s): marking is never skipped on the strength of remembered state")
    flds = [f["name"] for f in w.facts.struct_fields(S.dl_ty) or [] if f["ty"]["s"].startswith("alloc::vec::Vec<bool>")]
    if len(flds) != 1:
        ctx.missing_anchor("M6", "flag vector of the dirty set")
        return
    fl = flds[0]
    for fn in sorted(S.dl_mark):
        b = w.body(fn)
        pts = {pt for pt, ps in E.stmt_writes[fn].items() if any(p[:2] == ("arg1", fl) for p in ps)}
        pts |= {cs.point for cs in E.call_sites(fn) if any(p[:2] == ("arg1", fl) for p in cs.W)}
        ok = bool(pts) and b.every_path_to_return_hits((0, 0), pts, include_start=True)
        ctx.check(ok, "M6", fn, "%s can return without storing the flag: a row that changed stays unreported when the shortcut's memory is stale" % fn, loc=w.fn_loc(fn), sample={"fn": fn, "flag_writes": len(pts)})
    ctx.floor("M6", 2, "marking routines")
