"""C10 - resizing keeps the logical text and the cursor's place in it (narrow).

Content preservation itself is a relation between unbounded cell sequences and
is NOT decided.  Decided are three structural clauses that are necessary for it
and robust against refactoring (found after studying seeded mutants; DESIGN.md
section 4 originally listed C10 as not applicable)."""
import hir as H
import mir as M
import world as WD
from rules import shared


def ordered_subtractions(ctx, w, fns, rule):
    """In the arms of `match a.cmp(&b)`, a subtraction between the two compared
    values must be `b - a` in the Less arm and `a - b` in the Greater arm."""
    E = w.E
    ctx.rule(rule, "in the arms of `a.cmp(&b)`, differences of the compared values are taken in the order that cannot underflow (Less: b - a, Greater: a - b) and between those two values")
    n = 0
    for fn in sorted(fns):
        b = w.body(fn)
        T = w.terms(fn)
        for blk in sorted(b.normal_blocks()):
            t = b.term(blk)
            if t["k"] != "switch":
                continue
            d = T.operand(t["discr"], (blk, b.n_stmts(blk)))
            if not (d[0] == "discr" and d[1][0] == "call" and d[1][1].endswith("::cmp") and len(d[1][2]) == 2):
                continue
            a, c = [WD.strip_names(x[2]) if x[0] == "ref" else WD.strip_names(x) for x in d[1][2]]
            # the operand LOCALS compared (user variables), to recognise a stale twin of one of them
            for val, tgt in t["targets"]:
                if val == 0:
                    continue
                arm = {x for x in b.normal_blocks() if b.edge_controls((blk, tgt), x)} | {tgt}
                for x in sorted(arm):
                    tm = b.term(x)
                    if tm["k"] == "assert" and tm["msg"].startswith("Overflow(Sub)"):
                        l = WD.strip_names(T.operand(tm["l"], (x, b.n_stmts(x))))
                        r = WD.strip_names(T.operand(tm["r"], (x, b.n_stmts(x))))
                        if not ({l, r} & {a, c}):
                            continue
                        if l[0] == "const" or r[0] == "const":
                            continue          # `x - 1` style adjustments, not a difference of the compared values
                        n += 1
                        want = (c, a) if val == 255 else (a, c)
                        ok = (l, r) == want
                        ctx.check(ok, rule, "%s:%s:%s" % (fn, "Less" if val == 255 else "Greater", shared.site_key(w, fn, (x, b.n_stmts(x)))),
                                  "%s, %s arm of %s.cmp(%s): computes %s - %s; the difference must be taken between the two compared values, larger minus smaller" %
                                  (fn, "Less" if val == 255 else "Greater", w.tstr(fn, a), w.tstr(fn, c), w.tstr(fn, l), w.tstr(fn, r)), loc=w.stmt_loc(fn, (x, b.n_stmts(x))),
                                  sample={"fn": fn, "arm": "Less" if val == 255 else "Greater", "difference": "%s - %s" % (w.tstr(fn, l), w.tstr(fn, r))})
    return n


def reflow_fn(w, S):
    """The re-wrapping routine: the local function the buffer's resize hands the drained line vector and the new width."""
    rf = S.buffer_resize_fn
    if not rf:
        return None
    cands = []
    for cs in w.E.call_sites(rf):
        fo = w.facts.fns.get(cs.callee) or {}
        if cs.local and (fo.get("output") or {}).get("s", "").startswith("alloc::vec::Vec<%s" % S.line_ty) and [i["s"] for i in fo.get("inputs", [])][-1:] == ["usize"] and cs.callee in w.facts.hir:
            cands.append(cs.callee)
    return cands[0] if len(set(cands)) == 1 else None


def reflow_semantics(w, S, fn, thorough=False):
    """The re-wrapping routine evaluated on concrete small line vectors: old width 1..3 (4 in the thorough tier), 1..3 rows, every
    row over {letter, default blank} plus rows with a painted blank, every soft-wrap pattern with the last row unmarked, every new
    width 1..5 (6).  Required: every output row has exactly the new width; the last output row is unmarked; and the sequence of
    LOGICAL lines (rows joined through the marks, trailing default cells dropped, painted blanks kept) is the same before and after.
    -> (True, n) | (False, what)"""
    import itertools
    from rules import prims, c11
    DP = c11.default_pen
    n = 0

    def cell(ch):
        p = DP()
        if ch == "#":
            p[2]["background"] = H.some(("v", "color::Color::Indexed", (4,)))
        return ("v", "cell::Cell", (("chr", 32 if ch in " #" else ord(ch)), p))

    def logical(rows):
        out, cur = [], []
        for txt, m in rows:
            cur += list(txt)
            if not m:
                while cur and cur[-1] == " ":
                    cur.pop()
                out.append("".join(cur))
                cur = []
        if cur:
            out.append("".join(cur) + "<open>")
        return out
    letters = "abcdefghijkl"
    for cw in range(1, 5 if thorough else 4):
        shapes = ["".join(x) for x in itertools.product("x ", repeat=cw)] + (["#" + "x" * (cw - 1), "x" * (cw - 1) + "#"] if cw >= 1 else [])
        shapes = sorted(set(shapes))
        for nrows in range(1, 4):
            combos = itertools.product(shapes, repeat=nrows)
            for k_, shp in enumerate(combos):
                if nrows == 3 and k_ % (3 if thorough else 7):
                    continue          # a fixed thinning of the three-row inputs
                for marks in itertools.product((False, True), repeat=nrows - 1):
                    marks = list(marks) + [False]
                    li = iter(letters)
                    rows_in = [("".join(next(li) if c == "x" else c for c in s_), m) for s_, m in zip(shp, marks)]
                    for cols in range(1, 7 if thorough else 6):
                        if cols == cw:
                            continue
                        lines = [("obj", S.line_ty, {S.cells_field: prims.Vec([cell(c) for c in txt]), S.wrap_field: m}) for txt, m in rows_in]
                        try:
                            r = c11.StrInterp(w.facts).call_fn(fn, [("iter", lines), cols])
                        except prims.errs() as ex:
                            return False, "rows %s re-wrapped to %d columns: %s" % (rows_in, cols, ex)
                        n += 1
                        if not isinstance(r, prims.Vec):
                            return False, "result %r" % (r,)
                        rows_out = []
                        for l in r.items:
                            cs_ = l[2][S.cells_field].items
                            txt = ""
                            for c in cs_:
                                ch = chr(c[2][0][1]) if isinstance(c[2][0], tuple) else chr(c[2][0])
                                painted = c[2][1] != DP()
                                txt += "#" if (ch == " " and painted) else ch
                            rows_out.append((txt, bool(l[2][S.wrap_field])))
                        desc = "rows %s re-wrapped from %d to %d columns give %s" % (rows_in, cw, cols, rows_out)
                        if any(len(t) != cols for t, _ in rows_out):
                            return False, desc + ": a row does not have exactly %d cells" % cols
                        if rows_out and rows_out[-1][1]:
                            return False, desc + ": the last row is marked soft-wrapped"
                        if logical(rows_in) != logical(rows_out):
                            return False, desc + ": logical lines %s became %s" % (logical(rows_in), logical(rows_out))
    return True, n


def resize_semantics(w, S, thorough=False):
    """The buffer's resize evaluated whole on concrete small buffers: old width 1..3, 1..3 screen rows, 0..2 scrollback rows, row
    contents over {full, one letter + blanks, blank}, soft-wrap patterns, every cursor position incl. col == cols, every new size
    1..4 x 1..4 (a fixed thinning keeps about 2500 cases).  Required: no index / slice / subtraction panic; afterwards the line
    vector has at least `rows` lines, every line has exactly `cols` cells, the last line is unmarked, the buffer records the new
    size, and the returned cursor has row < rows and col <= cols (col < cols when the width changed).
    -> (True, n) | (False, what)"""
    import itertools
    from rules import prims, c11
    DP = c11.default_pen
    bf0 = {f["name"]: (0 if f["ty"]["s"] == "usize" else False if f["ty"]["s"] == "bool" else H.NONE_V) for f in w.facts.struct_fields(S.buffer_ty)}
    fn = S.buffer_resize_fn
    n = k = 0
    keep = 41 if thorough else 241
    for cw in (1, 2, 3):
        shapes = sorted({"x" * cw, "x" + " " * (cw - 1), " " * cw})
        for rows in (1, 2, 3):
            for sb in (0, 1, 2):
                total = rows + sb
                for shp in itertools.product(shapes, repeat=total):
                    for marks in itertools.product((False, True), repeat=total - 1):
                        for (nc, nr) in itertools.product((1, 2, 3, 4), (1, 2, 3, 4)):
                            if (nc, nr) == (cw, rows):
                                continue
                            k += 1
                            if k % keep and total > 1:
                                continue
                            marks_ = list(marks) + [False]
                            for cur in ((0, 0), (cw, rows - 1), (cw - 1, rows - 1), (0, rows - 1)):
                                lines = [("obj", S.line_ty, {S.cells_field: prims.Vec([("v", "cell::Cell", (("chr", 32 if c == " " else 120), DP())) for c in s_]), S.wrap_field: m})
                                         for s_, m in zip(shp, marks_)]
                                bf = dict(bf0)
                                bf.update({S.lines_field: prims.Vec(lines), S.buf_cols: cw, S.buf_rows: rows})
                                desc = "a %dx%d buffer with %d scrollback row(s), rows %s, cursor %s resized to %dx%d" % (cw, rows, sb, list(zip(shp, marks_)), cur, nc, nr)
                                try:
                                    r = c11.StrInterp(w.facts).call_fn(fn, [("obj", S.buffer_ty, bf), nc, nr, ("t", cur)])
                                except prims.errs() as ex:
                                    msg = str(ex)
                                    if any(x in msg for x in ("panic", "underflow", "out of bounds", "overflow")):
                                        return False, "%s: %s" % (desc, msg)
                                    return "undecided", "outside the evaluated fragment: %s" % msg          # a construct the evaluator does not model: no verdict, no alarm
                                n += 1
                                ls = bf[S.lines_field].items
                                if len(ls) < nr:
                                    return False, "%s: %d lines for %d rows" % (desc, len(ls), nr)
                                if any(len(l[2][S.cells_field].items) != nc for l in ls):
                                    return False, "%s: a line with %s cells" % (desc, sorted({len(l[2][S.cells_field].items) for l in ls}))
                                if ls[-1][2][S.wrap_field]:
                                    return False, "%s: the last line is marked soft-wrapped" % desc
                                if (bf[S.buf_cols], bf[S.buf_rows]) != (nc, nr):
                                    return False, "%s: the buffer records %sx%s" % (desc, bf[S.buf_cols], bf[S.buf_rows])
                                if not (isinstance(r, tuple) and r[0] == "t" and len(r[1]) == 2 and all(isinstance(x, int) for x in r[1])):
                                    return False, "%s: returns %r" % (desc, r)
                                c_, r_ = r[1]
                                if not (0 <= r_ < nr and 0 <= c_ <= nc and (c_ < nc or nc == cw)):
                                    return False, "%s: returns the cursor (%d,%d)" % (desc, c_, r_)
    return True, n


def resize_rule(ctx, w, S, rule):
    ctx.rule(rule, "the buffer's resize evaluated whole on concrete small buffers (old width 1..3, 1..3 rows, 0..2 scrollback rows, row contents, soft-wrap patterns, cursor positions incl. col == cols, new sizes "
                   "1..4 x 1..4): it cannot panic; afterwards at least `rows` lines, every line exactly `cols` cells, last line unmarked, the new size recorded, the returned cursor inside the new screen")
    if not S.buffer_resize_fn:
        ctx.missing_anchor(rule, "the buffer's resize routine")
        return
    c = getattr(w.facts, "_resize_verdict", None)
    if c is None:
        try:
            c = resize_semantics(w, S, thorough=getattr(ctx, "tier", "") == "thorough")
        except Exception as ex:
            c = (False, "cannot evaluate %s: %r" % (S.buffer_resize_fn, ex))
        w.facts._resize_verdict = c
    if c[0] == "undecided":
        ctx.ok(rule, "not-decided", {"reason": c[1]})
        return
    ctx.check(c[0] is True, rule, "resize", str(c[1]), loc=w.fn_loc(S.buffer_resize_fn), sample={"cases": c[1]})
    if c[0] is True:
        ctx.rule_counts[rule] = c[1]
        if c[1] < 1000:
            ctx.violation(rule, "floor", "only %d resize evaluations (floor 1000)" % c[1])


def run(ctx, w):
    S = shared.screen(w)
    R = shared.roles(w)
    E = w.E
    resize_rule(ctx, w, S, "Q10")
    # Q9: the re-wrapping itself, evaluated
    ctx.rule("Q9", "the re-wrapping routine evaluated on concrete line vectors (old width 1..3, 1..3 rows over letters / default blanks / painted blanks, every soft-wrap pattern, every new width 1..5): "
                   "rows of exactly the new width, last row unmarked, and the same sequence of logical lines (trailing default cells aside) before and after")
    rfn = reflow_fn(w, S)
    if not rfn:
        ctx.missing_anchor("Q9", "the re-wrapping routine called by the buffer's resize")
    else:
        c9 = getattr(w.facts, "_reflow_verdict", None)
        if c9 is None:
            try:
                c9 = reflow_semantics(w, S, rfn, thorough=getattr(ctx, "tier", "") == "thorough")
            except Exception as ex:
                c9 = (False, "cannot evaluate %s: %r" % (rfn, ex))
            w.facts._reflow_verdict = c9
        ctx.check(c9[0] is True, "Q9", "reflow", str(c9[1]), loc=w.fn_loc(rfn), sample={"cases": c9[1]})
        if c9[0] is True:
            ctx.rule_counts["Q9"] = c9[1]
    ctx.explanation = ("PARTIAL. The re-wrapping of the rows is decided by evaluation on small concrete line vectors (Q9: same logical lines before and after, rows of the new width); "
                       "the cursor translation and the view re-anchoring arithmetic are not - for those, decided are three necessary structural clauses: trailing blanks are trimmed only from rows that are not soft-wrapped (inside a logical line "
                       "blanks are content); the cursor is translated through logical coordinates computed with the old geometry before the rows are re-wrapped and mapped back with "
                       "the new width afterwards; height differences are taken between the two compared values in the non-underflowing order.")
    ctx.decided = ["Q1 blank-trimming of a row is conditional on that row not being soft-wrapped", "Q2 ordered subtraction in the arms of the size comparisons",
                   "Q3 cursor translation: logical position from the OLD cols/rows before the reflow, relative position with the NEW cols after it; the buffer adopts exactly the requested size on every path",
                   "Q4 wrap-pending is cleared when the width changes (shared with C02.R4)"]
    ctx.not_decided = ["that the cursor stays on the same character and that lines below it are only cut short - the cursor translation and view re-anchoring arithmetic of Buffer::resize (only its structure is decided, Q3 / Q5 / Q8); re-wrapping beyond the evaluated bounds of Q9"]
    rf = S.buffer_resize_fn
    if not rf:
        ctx.missing_anchor("Q3", "buffer resize routine")
        return

    q1_rules(ctx, w, S, R, rf)

    # ---- Q2 -------------------------------------------------------------------------------------------
    from rules import c01
    n = ordered_subtractions(ctx, w, c01.api_reach(w), "Q2")
    ctx.floor("Q2", 4, "differences in comparison arms")

    # ---- Q3 ----------------------------------------------------------------------------------------------
    ctx.rule("Q3", "Buffer::resize: logical position from (cursor, old cols, old rows) before the line vector is replaced; relative position with the new cols after; cols/rows := the requested size on every path")
    b = w.body(rf)
    T = w.terms(rf)
    calls = [cs for cs in E.call_sites(rf) if cs.local and S._impl_of(cs.callee) == S.buffer_ty]
    logical = [cs for cs in calls if (w.facts.fns[cs.callee].get("output") or {}).get("s") == "(usize, usize)" and len(cs.term["args"]) == 4]
    relative = [cs for cs in calls if (w.facts.fns[cs.callee].get("output") or {}).get("s") == "(usize, isize)"]
    reassign = [pt for pt, ps in E.stmt_writes[rf].items() if ("arg1", S.lines_field) in ps]
    ok = len(logical) == 1 and len(relative) == 1 and bool(reassign)
    ctx.check(ok, "Q3", "shape", "%s: expected one logical-position and one relative-position computation around the replacement of the line vector (found %d, %d, %d)" % (rf, len(logical), len(relative), len(reassign)), loc=w.fn_loc(rf))
    if ok:
        lg, rl = logical[0], relative[0]
        la = [WD.strip_names(T.operand(x, lg.point)) for x in lg.term["args"][1:]]
        want = [("load", ("arg4",)), ("load", ("arg1", S.buf_cols)), ("load", ("arg1", S.buf_rows))]
        ctx.check(la == want, "Q3", "logical:args", "the logical position is computed from %s; expected (cursor, current cols, current rows)" % [w.tstr(rf, x) for x in la], loc=w.site_loc(lg), sample={"args": [w.tstr(rf, x) for x in la]})
        wr_dim = [pt for pt, ps in E.stmt_writes[rf].items() if ("arg1", S.buf_cols) in ps or ("arg1", S.buf_rows) in ps]
        before = all(not b.path_exists(p, lg.point) for p in reassign + wr_dim) and all(not b.path_exists(cs.point, lg.point) for cs in E.call_sites(rf) if cs.W and any(p[:2] == ("arg1", S.lines_field) for p in cs.W))
        ctx.check(before, "Q3", "logical:before", "the logical position is computed after the rows were already re-wrapped or the size already changed", loc=w.site_loc(lg))
        ra = [WD.strip_names(T.operand(x, rl.point)) for x in rl.term["args"][1:]]
        okr = len(ra) == 3 and ra[0][0] == "call" and ra[0][1] == lg.callee and ra[1] == ("load", ("arg2",))
        ctx.check(okr, "Q3", "relative:args", "the relative position is computed from %s; expected (the logical position computed before, NEW cols, ...)" % [w.tstr(rf, x)[:50] for x in ra], loc=w.site_loc(rl),
                  sample={"args": [w.tstr(rf, x)[:60] for x in ra]})
        after = all(b.point_dominates(p, rl.point) for p in reassign if b.path_exists(p, rl.point)) and any(b.path_exists(p, rl.point) for p in reassign)
        ctx.check(after, "Q3", "relative:after", "the relative position is not computed after the line vector was re-wrapped", loc=w.site_loc(rl))
        # the new column of the cursor comes from the relative position
    if ok:
        cursor_remap(ctx, w, S, rf, logical[0], relative[0])
    from rules import c02
    c02.relayout_clears_wrap(ctx, w, S, R, "Q4")
    c02.row_units(ctx, w, S, R, "Q6")
    # the translated cursor must reach the terminal unchanged, the resize entry must not place the cursor itself,
    # and the text above the view must survive the gc that follows every resize (primary keeps the configured limit)
    c02.relayout_rules(ctx, w, S, R)
    from rules import c06 as _c06
    _c06.role_limits(ctx, w, S, R, "Q7")
    from rules import c01 as _c01
    _c01.loop_index(ctx, w, S, _c01.api_reach(w))
    must = w.mustwrite.must(rf)
    for fld, arg in ((S.buf_cols, "arg2"), (S.buf_rows, "arg3")):
        sites = [(pt, WD.strip_names(t)) for f2, pt, p, t in w.assign_sites({rf}, lambda p: p == ("arg1", fld))]
        okm = ("arg1", fld) in must and all(t == ("load", (arg,)) for _, t in sites)
        ctx.check(okm, "Q3", "adopts:" + fld, "%s does not set `%s` to the requested value on every path" % (rf, fld), loc=w.fn_loc(rf), sample={"field": fld})
    ctx.floor("Q3", 6, "cursor-translation obligations")


def cursor_remap(ctx, w, S, rf, lg, rl):
    """Q5: once the rows are re-wrapped the OLD visual cursor is meaningless: on every path from the map-back
    to the return both components of the returned cursor are assigned afresh, from the mapped-back position
    (column: its column; row: its row when that is inside the view, else 0 = the view re-anchored on the cursor)."""
    b = w.body(rf)
    T = w.terms(rf)
    ctx.rule("Q5", "after the map-back with the new width, both components of the returned cursor are re-assigned on every path, from the mapped-back position (row: `rel.1 as usize` under rel.1 >= 0, otherwise 0)")
    fo = w.facts.fns[rf]
    cur = [i + 1 for i, a in enumerate(fo["inputs"]) if a["s"] == "(usize, usize)"]
    if len(cur) != 1:
        ctx.missing_anchor("Q5", "cursor parameter of " + rf)
        return
    cl = cur[0]
    fresh = {0: [], 1: []}
    for blk in sorted(b.normal_blocks()):
        for i, st in enumerate(b.j["blocks"][blk]["stmts"]):
            if st["k"] != "assign" or st["place"]["local"] != cl:
                continue
            pj = st["place"]["proj"]
            if len(pj) != 1 or pj[0]["k"] != "field":
                if not pj:
                    # whole-tuple assignment: counts for both when it comes from the map-back
                    t = WD.strip_names(T.rvalue(st["rv"], (blk, i)))
                    if rl.callee in repr(t):
                        fresh[0].append(((blk, i), t))
                        fresh[1].append(((blk, i), t))
                continue
            t = WD.strip_names(T.rvalue(st["rv"], (blk, i)))
            comp_load = ("load", ("arg%d" % cl, pj[0]["name"]))
            if t[0] == "binop" and comp_load in (t[2], t[3]):
                continue                  # read-modify-write (the height adjustment), not a fresh value
            if not b.path_exists(rl.point, (blk, i)):
                continue
            fresh[pj[0]["i"]].append(((blk, i), t))
    for comp in (0, 1):
        pts = [p for p, _ in fresh[comp]]
        okp = bool(pts) and b.every_path_to_return_hits(rl.point, set(pts))
        ctx.check(okp, "Q5", "cursor.%d:reassigned" % comp,
                  "%s: after the rows are re-wrapped there is a path to the return on which cursor.%d keeps its value from before the reflow (fresh assignments at %s)" %
                  (rf, comp, [w.stmt_loc(rf, p) for p in pts]), loc=w.site_loc(rl), sample={"component": comp, "fresh_assignments": len(pts)})
        for p, t in fresh[comp]:
            r = repr(t)
            gs = [(WD.strip_names(c), v) for c, v in w.guards_of(rf, p[0])]
            nonneg = [(v if c[1] == "Ge" else (not v)) for c, v in gs if c[0] == "binop" and c[1] in ("Ge", "Lt") and rl.callee in repr(c) and c[3] == ("const", 0)]
            if comp == 0:
                okv = t[0] == "field" and t[2] == "0" and t[1][0] == "call" and t[1][1] == rl.callee
            elif t == ("const", 0):
                okv = nonneg == [False]
            else:
                okv = rl.callee in r and (t[0] == "cast" or "cast" in r) and nonneg == [True]
            ctx.check(okv, "Q5", "cursor.%d:value:%s" % (comp, shared.site_key(w, rf, p)),
                      "%s sets cursor.%d := %s under %s; expected the mapped-back %s" %
                      (rf, comp, w.tstr(rf, t)[:80], [(w.tstr(rf, c)[:50], v) for c, v in gs][-2:], "column" if comp == 0 else "row (as usize) when it is >= 0, and 0 (view re-anchored) when it is negative"),
                      loc=w.stmt_loc(rf, p), sample={"component": comp, "value": w.tstr(rf, t)[:80]})
    ctx.floor("Q5", 5, "cursor re-mapping obligations")
    # Q8: the height adjustment of the cursor row (read-modify-write in the arms of the height comparison) depends only on
    # the comparison of the heights and on where the cursor is relative to the old view - not on whether rows get appended
    ctx.rule("Q8", "each adjustment of the cursor row in the height arms is controlled only by the height comparison and by comparisons of the cursor row itself (not by padding / truncation decisions)")
    comp_load = ("load", ("arg%d" % cl, "1"))
    for blk in sorted(b.normal_blocks()):
        for i, st in enumerate(b.j["blocks"][blk]["stmts"]):
            if st["k"] != "assign" or st["place"]["local"] != cl or len(st["place"]["proj"]) != 1 or st["place"]["proj"][0].get("name") != "1":
                continue
            t = WD.strip_names(T.rvalue(st["rv"], (blk, i)))
            if not (t[0] == "binop" and comp_load in (t[2], t[3])):
                continue
            gs = [(WD.strip_names(c), v) for c, v in w.guards_of(rf, blk)]
            odd = []
            for c, v in gs:
                if c[0] == "discr":
                    continue                                    # an arm of a cmp
                if comp_load in set(_walk_t(c)):
                    continue                                    # a test of the cursor row itself
                if c[0] == "binop" and c[1] in ("Ne", "Eq") and ("load", ("arg2",)) in (c[2], c[3]):
                    continue                                    # width changed?
                if c[0] == "binop" and c[1] in ("Lt", "Le", "Gt", "Ge", "Ne", "Eq") and ("load", ("arg3",)) in (c[2], c[3]):
                    continue                                    # the height comparison written with < / > instead of cmp
                odd.append((c, v))
            ctx.check(not odd, "Q8", "adjust:%s" % shared.site_key(w, rf, (blk, i)),
                      "%s adjusts the cursor row only when %s: the cursor must follow the text whenever history is pulled into / pushed out of the view, whatever else the branch does" %
                      (rf, [(w.tstr(rf, c)[:60], v) for c, v in odd]), loc=w.stmt_loc(rf, (blk, i)), sample={"guards": [(w.tstr(rf, c)[:50], v) for c, v in gs]})
    ctx.floor("Q8", 2, "cursor row adjustments")


def q1_rules(ctx, w, S, R, rf):
    """Q1 (+Q1b): what the re-wrap may drop from the end of a row, and when."""
    E = w.E
    # ---- Q1 ------------------------------------------------------------------------------------
    ctx.rule("Q1", "the routine that cuts trailing default cells off a row is applied only under `row.wrapped == false` of the row it is applied to (or of the row it was split from)")
    line_fns = {fn: fo for fn, fo in w.facts.fns.items() if (fo.get("impl_self") or {}).get("adt") == S.line_ty and "impl_trait" not in fo and fn in w.bodies}
    counters = [fn for fn, fo in line_fns.items() if (fo.get("output") or {}).get("s") == "usize" and len(fo["inputs"]) == 1 and "cell::Cell::is_default" in E.reachable_fns([fn])
                or any(c == "cell::Cell::is_default" for (pt, c, u) in []) ]
    # closures are not in reachable_fns: look at closure creations
    counters = []
    for fn, fo in line_fns.items():
        if (fo.get("output") or {}).get("s") not in ("usize", "bool") or len(fo["inputs"]) != 1:
            continue
        reach = set(E.reachable_fns([fn]))
        for (pt, cdef, u) in E.closure_creations.get(fn, []):
            reach |= E.reachable_fns([cdef])
        if "cell::Cell::is_default" in reach:
            counters.append(fn)
    trims = [fn for fn, fo in line_fns.items() if len(fo["inputs"]) == 1 and fo["inputs"][0].get("ref") == "mut"
             and any(cs.callee.endswith("::truncate") for cs in E.call_sites(fn)) and any(cs.callee in counters for cs in E.call_sites(fn))]
    if not counters or len(trims) != 1:
        ctx.missing_anchor("Q1", "blank counter / trim routine of Line", "(counters=%s trims=%s)" % (counters, trims))
    else:
        trim = trims[0]
        # only the re-layout machinery is constrained (the dump's cut-off and the text trimming are separate concerns of C09/C11)
        core = set(E.reachable_fns([rf]))
        for fn2, fo2 in w.facts.fns.items():
            if fo2.get("impl_trait", "").endswith("Iterator") and fn2 in w.bodies and (fo2.get("impl_self") or {}).get("s", "").startswith("buffer::"):
                core |= set(E.reachable_fns([fn2]))
        n = 0
        for target in [trim] + counters:
            for cs in E.callers_of(target):
                if cs.term is None or cs.body == trim or cs.body not in core or cs.body in counters:
                    continue
                f = cs.body
                T = w.terms(f)
                recv = WD.strip_names(T.operand(cs.term["args"][0], cs.point))
                while recv[0] in ("ref", "deref", "obj"):
                    recv = recv[2] if recv[0] == "ref" else recv[1]
                # the wrap flag of the row concerned
                if recv[0] == "load":
                    flag = ("load", recv[1] + (S.wrap_field,))
                elif recv[0] == "adt" and recv[1] == S.line_ty:
                    flag = dict(zip(recv[3], recv[4])).get(S.wrap_field)
                else:
                    flag = None
                gs = [(WD.strip_names(c), v) for c, v in w.guards_of(f, cs.point[0])]
                ok = flag is not None and any(c == flag and v is False for c, v in gs)
                n += 1
                ctx.check(ok, "Q1", "%s:%s" % (f, shared.site_key(w, f, cs.point)),
                          "%s trims/counts trailing blanks of %s without having established that this row is not soft-wrapped (guards: %s): blanks inside a logical line are content and would be lost on reflow" %
                          (f, w.tstr(f, recv)[:60], [(w.tstr(f, c), v) for c, v in gs]), loc=w.site_loc(cs), sample={"fn": f, "row": w.tstr(f, recv)[:60], "guards": [(w.tstr(f, c), v) for c, v in gs]})
        ctx.floor("Q1", 3, "trim sites")

    # ---- Q1b: WHICH cells count as droppable: exactly the default cells (blank character AND default pen) ----
    ctx.rule("Q1b", "the cells a re-wrap may drop from the end of a row are decided by Cell::is_default alone, which tests the character and every component of the pen")
    cd = "cell::Cell::is_default"
    if cd not in w.bodies:
        ctx.missing_anchor("Q1b", cd)
        return
    for fn in sorted(set(counters)):
        for (pt, cdef, u) in E.closure_creations.get(fn, []):
            loc_calls = sorted({cs.callee for cs in E.call_sites(cdef) if cs.local})
            sig = repr((w.facts.fns.get(cdef) or {}).get("inputs")) + repr([l_.get("ty") for l_ in (w.bodies[cdef].j.get("locals") or [])][:4]) if cdef in w.bodies else ""
            if not loc_calls and "cell::Cell" not in sig:
                continue          # a closure over indices / counts (`map_or(0, |i| i + 1)`), not a predicate on cells
            ctx.check(loc_calls == [cd], "Q1b", "%s:predicate" % fn, "%s decides droppable cells through %s; a painted blank (non-default pen) is content and must not be dropped: the predicate must be Cell::is_default" % (fn, loc_calls),
                      loc=w.fn_loc(fn), sample={"fn": fn, "predicate_calls": loc_calls})
    cell_fields = [f["name"] for f in w.facts.struct_fields("cell::Cell") or []]
    rd = {p[1] for p in E.summaries[cd].R if p[0] == "arg1" and len(p) >= 2}
    ctx.check(set(cell_fields) <= rd, "Q1b", cd, "Cell::is_default looks at %s of %s" % (sorted(rd), cell_fields), loc=w.fn_loc(cd), sample={"reads": sorted(rd)})
    pdf = "pen::Pen::is_default"
    if pdf in w.bodies:
        pf = [f["name"] for f in w.facts.struct_fields("pen::Pen") or []]
        prd = {p[1] for p in E.summaries[pdf].R if p[0] == "arg1" and len(p) >= 2}
        ctx.check(set(pf) <= prd, "Q1b", pdf, "Pen::is_default looks at %s of the pen's components %s" % (sorted(prd), pf), loc=w.fn_loc(pdf), sample={"reads": sorted(prd)})
    else:
        ctx.missing_anchor("Q1b", pdf)
    # ... and by evaluation: only the space character with the all-default pen is a default cell
    try:
        from rules import c11
        cases = []
        dp = c11.default_pen
        for ch in (32, 120, 0xA0, 0x3000, 0x2003, 9, 0x7F):
            cases.append(("U+%04X, default pen" % ch, ("v", "cell::Cell", (("chr", ch), dp())), ch == 32))
        p1 = dp(); p1[2]["foreground"] = H.some(("v", "color::Color::Indexed", (1,)))
        p2 = dp(); p2[2]["background"] = H.some(("v", "color::Color::Indexed", (4,)))
        p3 = dp(); p3[2]["intensity"] = ("v", "pen::Intensity::Bold")
        pens = [("foreground set", p1), ("background set", p2), ("bold", p3)]
        for a in ("italic", "underline", "blink", "inverse", "strikethrough"):
            pa = dp()
            c11.ApplyInterp(w.facts).call_fn("pen::Pen::set_" + a, [pa])
            pens.append((a, pa))
        for nm, pn in pens:
            cases.append(("space, %s" % nm, ("v", "cell::Cell", (("chr", 32), pn)), False))
        for nm, cell, want in cases:
            got = c11.ApplyInterp(w.facts).call_fn(cd, [cell])
            ctx.check(got is want, "Q1b", cd + ":" + nm, "Cell::is_default(%s) = %r, expected %r: only a space in the all-default pen is padding a re-wrap may drop" % (nm, got, want), loc=w.fn_loc(cd),
                      sample={"cell": nm, "is_default": got})
    except (H.Unsupported, KeyError, TypeError, IndexError) as ex:
        ctx.violation("Q1b", cd + ":evaluate", "cannot evaluate Cell::is_default (%s): the droppable-cell predicate must be `character == ' ' && pen is default`" % (ex,), loc=w.fn_loc(cd))
    ctx.floor("Q1b", 3, "blank-predicate obligations")


def _walk_t(t):
    if isinstance(t, tuple):
        yield t
        for x in t:
            yield from _walk_t(x)
