"""C01 - total on every input: no panic, no hang (guard clauses only)."""
import hir as H
import mir as M
import symeval as SE
import world as WD
from rules import shared

# sites whose safety rests on a data-structure invariant rather than on a local
# guard: one named symbol + reason each (never wider)
# the same exemption keyed by what the function IS (the map-back returning (column, signed row)), not by its name
EXEMPT_LOOP_INDEX_BY_SIGNATURE = {
    ("(usize, isize)", 2): "second loop of the map-back: `rel_row` only advances while the row it indexes is soft-wrapped, and the last row of a buffer is never soft-wrapped (C02.R8)",
}
EXEMPT_LOOP_INDEX = {
    ("buffer::Buffer::relative_position", 2): "second loop advances only while lines[rel_row].wrapped; the last line of a buffer is never soft-wrapped (C02.R8 / C04.Y3), so it stops before len",
}


def api_reach(w):
    F = w.facts
    roots = [fn for fn, fo in F.fns.items() if fo.get("exported")]
    reach = set(w.E.reachable_fns(roots))
    # iterator impls and closures are invoked by std on behalf of reachable code
    for fn, fo in F.fns.items():
        if fo.get("impl_trait", "").endswith("Iterator") and fn in w.bodies:
            reach |= w.E.reachable_fns([fn])
    for fn in list(reach):
        for (pt, cdef, up) in w.E.closure_creations.get(fn, []):
            reach |= w.E.reachable_fns([cdef])
    return {f for f in reach if f in w.bodies and "core::fmt::Debug" not in f}


def run(ctx, w):
    S = shared.screen(w)
    R = shared.roles(w)
    E = w.E
    ctx.explanation = ("Totality as a whole needs relational geometry invariants for ~225 panic-capable operations that no sound static argument in reach establishes. Decided are the "
                       "guard clauses whose safety argument is closed inside the code shape, each a necessary condition for totality.")
    ctx.decided = ["R1 index-field range invariants by writer enumeration (cur_param < 32, cur_part < 6, active_charset < 2)", "R2 glyph-table index taken only under the matching range test",
                   "R3 counts reaching slice primitives are clamped first", "R4 defaults feeding `- 1` are >= 1; constants subtracted from a dimension are <= 1",
                   "R5 progress: call graph acyclic; every arm of the SGR decoder consumes at least one parameter for every shape of following parameters; loops are iterator- or counter-driven",
                   "R6 unwraps are guarded or covered by the exhaustive decoder evaluation", "R7 the digit accumulation cannot overflow its (wider) type and never drops a digit",
                   "R8 loop-carried indices into the line vector are bounded by its length in the loop condition",
                   "R9 in the arms of a comparison, the difference of the compared values is taken larger-minus-smaller (cannot underflow)",
                   "R10 every other checked subtraction outside the reflow core is discharged by a controlling comparison, a clamp, constants or a named invariant (A1-A9, listed in the evidence)",
                   "S5 the saved cursor is clamped into the screen by the re-layout on every path (else restore + print indexes out of range)"]
    ctx.not_decided = ["every subtraction/index over cols/rows/cursor/lines.len() in Buffer::resize, reflow, logical/relative position (needs relational invariants such as col <= cols, lines.len() >= rows)",
                       "running time beyond loop progress"]
    reach = api_reach(w)
    ctx.extra["api_reachable_functions"] = len(reach)
    index_fields(ctx, w, reach)
    from rules import c04, c06, c07
    c04.charset_rules(ctx, w)
    clamps(ctx, w, S, R)
    defaults(ctx, w, S, R, reach)
    progress(ctx, w, S, R, reach)
    unwraps(ctx, w, S, R, reach)
    digits(ctx, w)
    loop_index(ctx, w, S, reach)
    from rules import c10, c17
    c10.ordered_subtractions(ctx, w, reach, "R9")
    ctx.floor("R9", 4, "differences in comparison arms")
    # a saved cursor outside the screen is an out-of-range index after restore: the clamp of the re-layout (C17.S5)
    c17.clamp_rule(ctx, w, S, R)
    # the named invariant A5 (ordered, in-range margins) is itself discharged: DECSTBM validity and the reset of the margins on a height change
    from rules import c05, prims
    c05.margin_rules(ctx, w, S, R)
    # ... and the positions / margins the primitives are handed stay in range: every handler preserves the state invariant
    shared.invariant_rule(ctx, w, S, R, "R16")
    # the re-layout arithmetic itself (subtractions, slices, truncations) cannot panic on any small buffer / cursor / size change
    from rules import c10 as _c10
    _c10.resize_rule(ctx, w, S, "R17")
    # the slice / index operations of the row, scroll and edit primitives cannot panic for any position with col <= cols, row < rows and any count
    prims.row_primitives(ctx, w, S, "R11", spec=False)
    prims.scroll_primitives(ctx, w, S, "R12", spec=False)
    prims.buffer_edit_primitives(ctx, w, S, R, "R13", spec=False)
    ctx.floor("R13", 1000, "buffer edit primitive evaluations")
    c02_row_units(ctx, w, S, R)
    # A5 again: the ranges the handlers hand to the scroll primitives are ordered (cursor row .. margin / last row)
    from rules import c06, c14
    up, down = c06.scroll_prims(w, S)
    if up and down:
        c06.range_rules(ctx, w, S, R, up, down)
    # A8 (hard >= soft, size - soft under size > hard): the trim arithmetic interpreted for every small size / limit
    T14 = c14.Trim(w, S, R)
    if T14.ok:
        shared.gc_verdict(ctx, w, S, T14, "R15")
    # functions whose panic-freedom was just decided by interpretation need no separate subtraction argument
    def clean(rule):
        return not any(v["rule"] == rule for v in ctx.violations)
    covered = {}
    E_ = w.E
    def reach_impl(roots):
        out = set()
        for f in E_.reachable_fns([r for r in roots if r]):
            if S._impl_of(f) in (S.buffer_ty, S.line_ty) or f.startswith("<" + S.buffer_ty) or f.startswith("<" + S.line_ty):
                out.add(f)
        return out
    if up and down and clean("R12"):
        for f in reach_impl([up, down]):
            covered[f] = "R12"
    if clean("R13"):
        edit = [fn for fn, fo in w.facts.fns.items() if (fo.get("impl_self") or {}).get("adt") == S.buffer_ty and fn in w.bodies and len(fo.get("inputs", [])) >= 2 and fo["inputs"][1]["s"] == "(usize, usize)"
                and fo["inputs"][0]["s"].startswith("&mut ")]
        for f in reach_impl(edit):
            covered.setdefault(f, "R13")
    if clean("R11"):
        for fn, fo in w.facts.fns.items():
            if (fo.get("impl_self") or {}).get("adt") == S.line_ty and fn in w.bodies and fo.get("inputs") and fo["inputs"][0]["s"].startswith("&mut ") and \
                    tuple(i["s"] for i in fo["inputs"][1:]) in (("usize", "usize", "cell::Cell"), ("usize", "usize", "&pen::Pen"), ("core::ops::range::Range<usize>", "&pen::Pen"), ("usize", "cell::Cell")):
                covered.setdefault(fn, "R11")
    if T14.ok and clean("R15"):
        for f in E_.reachable_fns([T14.buf_gc]):
            if S._impl_of(f) == S.buffer_ty:
                covered.setdefault(f, "R15")
    sub_discharge(ctx, w, S, R, reach, covered)


def c02_row_units(ctx, w, S, R):
    from rules import c02
    c02.row_units(ctx, w, S, R, "R14")


# ---- R1 ---------------------------------------------------------------------------------------
def index_fields(ctx, w, reach):
    E = w.E
    F = w.facts
    ctx.rule("R1", "every usize field used to index a fixed-size array of the same struct stays below the array length: all its writers are constants < N, min(_, c < N) or increment-then-saturate")
    pairs = []
    for adt, a in F.adts.items():
        if a["kind"] != "struct":
            continue
        fields = a["variants"][0]["fields"]
        arrays = [f for f in fields if "array" in f["ty"] and "len" in f["ty"]]
        counters = [f for f in fields if f["ty"]["s"] == "usize"]
        for arr in arrays:
            for c in counters:
                # is A[F] / A[..=F] used anywhere?
                used = False
                for fn in reach:
                    fo = F.fns.get(fn, {})
                    if (fo.get("impl_self") or {}).get("adt") != adt:
                        continue
                    T = w.terms(fn)
                    b = w.body(fn)
                    for bl in b.normal_blocks():
                        for st in b.blocks[bl]["stmts"]:
                            if st["k"] == "assign":
                                for pl in [st["place"]] + ([st["rv"]["place"]] if st["rv"]["k"] in ("ref", "discr") else []) + ([st["rv"]["op"]] if st["rv"]["k"] == "use" and st["rv"]["op"]["k"] != "const" else []):
                                    names = [e.get("name") for e in pl["proj"] if e["k"] == "field"]
                                    if arr["name"] in names and any(e["k"] == "index" for e in pl["proj"]):
                                        for e in pl["proj"]:
                                            if e["k"] == "index":
                                                t = T.local(e["local"], (bl, 0))
                                                if ("load", ("arg1", c["name"])) == WD.strip_names(t) or c["name"] in repr(t):
                                                    used = True
                        t = b.term(bl)
                        if t["k"] == "call" and (t["callee"].get("decl_name") in ("index", "index_mut")):
                            a0 = WD.strip_names(T.operand(t["args"][0], (bl, b.n_stmts(bl))))
                            a1 = WD.strip_names(T.operand(t["args"][1], (bl, b.n_stmts(bl))))
                            if arr["name"] in repr(a0) and ("arg1", c["name"]) in flatten_loads(a1):
                                used = True
                if used:
                    pairs.append((adt, arr, c))
    for adt, arr, c in pairs:
        N = arr["ty"]["len"]
        fld = c["name"]
        key = "%s.%s<%d" % (adt, fld, N)
        nsites = 0
        for fn in sorted(reach):
            fo = F.fns.get(fn, {})
            if (fo.get("impl_self") or {}).get("adt") != adt:
                continue
            b = w.body(fn)
            for f2, pt, p, t in w.assign_sites({fn}, lambda p: p == ("arg1", fld)):
                nsites += 1
                t = shared.norm_term(t)
                ok, why = range_ok(w, fn, b, pt, t, fld, N)
                ctx.check(ok, "R1", "%s@%s" % (key, shared.site_key(w, fn, pt) + ":" + fn), "%s.%s indexes %s (length %d) but %s assigns it %s: %s" % (adt, fld, arr["name"], N, fn, w.tstr(fn, t), why),
                          loc=w.stmt_loc(fn, pt), sample={"field": "%s.%s" % (adt, fld), "bound": N, "writer": fn, "value": w.tstr(fn, t)})
            # struct literals
            for bl in b.normal_blocks():
                for i, st in enumerate(b.blocks[bl]["stmts"]):
                    if st["k"] == "assign" and st["rv"]["k"] == "aggregate" and st["rv"].get("adt") == adt:
                        T = w.terms(fn)
                        names = st["rv"]["field_names"]
                        t = shared.norm_term(T.operand(st["rv"]["ops"][names.index(fld)], (bl, i)))
                        if t[0] == "call" and t[1] == "<usize as core::default::Default>::default":
                            t = ("const", 0)
                        nsites += 1
                        if t[0] == "field" and t[2] == fld and t[1][0] == "call" and (w.facts.fns.get(t[1][1], {}).get("output") or {}).get("adt") == adt:
                            ctx.ok("R1", "%s@copy-of-ctor:%s" % (key, fn), {"field": "%s.%s" % (adt, fld), "from": t[1][1]})
                            continue
                        ok = t[0] == "const" and isinstance(t[1], int) and t[1] < N
                        ctx.check(ok, "R1", "%s@literal:%s" % (key, fn), "%s builds %s with %s = %s (must be a constant < %d)" % (fn, adt, fld, w.tstr(fn, t), N), loc=w.stmt_loc(fn, (bl, i)),
                                  sample={"field": "%s.%s" % (adt, fld), "bound": N, "writer": fn, "value": w.tstr(fn, t)})
        if nsites == 0:
            ctx.violation("R1", key, "no writer found for index field %s.%s" % (adt, fld))
    ctx.extra["index_fields"] = ["%s.%s < %d (indexes %s)" % (a, c["name"], arr["ty"]["len"], arr["name"]) for a, arr, c in pairs]
    if len(pairs) < 3:
        ctx.violation("R1", "floor", "expected the three index fields (parameter counter, sub-parameter counter, active charset), found %s" % ctx.extra["index_fields"])
    ctx.floor("R1", 8, "index-field writers")


def flatten_loads(t, acc=None):
    acc = set() if acc is None else acc
    if isinstance(t, tuple):
        if t and t[0] == "load":
            acc.add(tuple(x for x in t[1] if isinstance(x, str)))
        for x in t:
            flatten_loads(x, acc)
    return acc


def const_eval(t):
    """Integer value of a term built from constants only, else None."""
    if t[0] == "const" and isinstance(t[1], int) and not isinstance(t[1], bool):
        return t[1]
    if t[0] == "binop" and t[1] in ("Add", "Sub", "Mul") and len(t) == 4:
        a, b = const_eval(t[2]), const_eval(t[3])
        if a is not None and b is not None:
            return {"Add": a + b, "Sub": a - b, "Mul": a * b}[t[1]]
    if t[0] == "min" and len(t) >= 3:
        vs = [const_eval(x) for x in t[1:]]
        if all(v is not None for v in vs):
            return min(vs)
    return None


def range_ok(w, fn, b, pt, t, fld, N):
    self_t = ("load", ("arg1", fld))
    cv = const_eval(t)
    if cv is not None:
        return (0 <= cv < N, "constant %d is not < %d" % (cv, N))
    if t[0] == "min" and len(t) == 3:
        cvs = [const_eval(x) for x in t[1:]]
        cvs = [v for v in cvs if v is not None]
        if cvs:
            return (min(cvs) < N, "min with %d does not keep it below %d" % (min(cvs), N))
    if t[0] == "const" and isinstance(t[1], int):
        return (t[1] < N, "constant %d is not < %d" % (t[1], N))
    if t[0] == "min" and len(t) == 3:
        cs = [x for x in t[1:] if x[0] == "const" and isinstance(x[1], int)]
        if cs:
            return (cs[0][1] < N, "min with %d does not keep it below %d" % (cs[0][1], N))
    if t[0] == "binop" and t[1] == "Sub" and t[2] == ("const", N) and t[3] == ("const", 1):
        return (True, "")
    if t[0] == "binop" and t[1] == "Add" and self_t in t[2:] and ("const", 1) in t[2:]:
        # increment: must be followed on every path by `if F == N { F = N - 1 }`
        T = w.terms(fn)
        fix = []
        for blk in sorted(b.normal_blocks()):
            tm = b.term(blk)
            if tm["k"] == "switch":
                c = shared.norm_term(T.operand(tm["discr"], (blk, b.n_stmts(blk))))
                if c[0] == "binop" and c[1] in ("Eq", "Ge") and self_t in c[2:] and ("const", N) in c[2:]:
                    fix.append(blk)
        if not fix:
            return (False, "incremented without saturating at %d" % N)
        blk = fix[0]
        if not b.every_path_to_return_hits(pt, {(blk, b.n_stmts(blk))}):
            return (False, "the saturation test is skipped on some path after the increment")
        tm = b.term(blk)
        tgt = tm["otherwise"]
        sets = [(p2, t2) for f2, p2, pth, t2 in w.assign_sites({fn}, lambda p: p == ("arg1", fld)) if b.edge_controls((blk, tgt), p2[0])]
        good = any(shared.norm_term(t2) in (("const", N - 1), ("binop", "Sub", ("const", N), ("const", 1))) for _, t2 in sets)
        return (good, "the saturation branch does not reset it to %d" % (N - 1))
    return (False, "unrecognised update (accepted: constant < N, min(_, c<N), N-1, increment-then-saturate)")


# ---- R3 ---------------------------------------------------------------------------------------------
def clamps(ctx, w, S, R):
    from rules import c06
    E = w.E
    ctx.rule("R3", "every count that reaches a slice primitive (rotate/fill/clear over col..col+n, scroll by n) is clamped by min(n, remaining) before any use")
    prims = []
    for fn, fo in w.facts.fns.items():
        if S._impl_of(fn) != S.buffer_ty or fn not in w.bodies or "impl_trait" in fo:
            continue
        ins = [i["s"] for i in fo.get("inputs", [])]
        if len(ins) >= 3 and "usize" in ins[1:] and ("(usize, usize)" in ins or "core::ops::range::Range<usize>" in ins) and any(S._is_buffer_row_write(p) for p in E.summaries[fn].W) \
                and not any(p[-1] in (S.buf_cols, S.buf_rows) for p in E.summaries[fn].W):
            prims.append(fn)
    for prim in sorted(prims):
        fo = w.facts.fns[prim]
        ni = [i for i, t in enumerate(fo["inputs"]) if t["s"] == "usize"][0] + 1
        bad = c06.uses_outside_min(w, prim, ni)
        has_min = any(cs.callee.endswith("::min") for cs in E.call_sites(prim))
        if not (has_min and not bad):
            # a clamp of another shape (`if n > room { room } else { n }`, saturating arithmetic ...): the primitives evaluated for every
            # position and count incl. 65535 (R12 / R13) decide whether an index can leave the row / range
            from rules import prims as _pr
            if (_pr.edits_ok(w, S, R) if "(usize, usize)" in [i_["s"] for i_ in fo["inputs"]] else _pr.scroll_ok(w, S)):
                has_min, bad = True, []
        ctx.check(has_min and not bad, "R3", prim, "%s uses its count unclamped%s: a parameter of 65535 indexes beyond the row/range" % (prim, (" in " + w.tstr(prim, bad[0][1])) if bad else ""),
                  loc=w.stmt_loc(prim, bad[0][0]) if bad else w.fn_loc(prim), sample={"fn": prim, "unclamped_uses": len(bad)})
    # the enum-carried count of the erase primitive (NextChars(n))
    for h in w.handler("Ech"):
        T = w.terms(h)
        for cs in E.call_sites(h):
            if cs.local and S._impl_of(cs.callee) == S.buffer_ty and any(S.is_row_content(p) for p in cs.W):
                prim = cs.callee
                PT = w.terms(prim)
                mode = T.operand(cs.term["args"][2], cs.point)
                if mode[0] != "adt":
                    continue
                raw = ("load", ("arg3", "@" + mode[2], "0"))
                start = shared.select_arm(w, prim, 3, mode[1], mode[2])
                pb = w.body(prim)
                blocks = pb.reachable_from([start]) if start is not None else set()
                bad = []
                for c2 in E.call_sites(prim):
                    if c2.point[0] not in blocks or c2.callee.endswith("::min"):
                        continue
                    for a in c2.term["args"]:
                        tt = WD.strip_names(PT.operand(a, c2.point))
                        if raw_outside_min(tt, raw):
                            bad.append((c2.point, tt))
                for bl in blocks:
                    for i, st in enumerate(pb.blocks[bl]["stmts"]):
                        if st["k"] == "assign" and st["rv"]["k"] in ("binop", "aggregate"):
                            tt = WD.strip_names(PT.rvalue(st["rv"], (bl, i)))
                            if raw_outside_min(tt, raw):
                                bad.append(((bl, i), tt))
                ctx.check(not bad, "R3", prim + ":" + mode[2], "%s (%s) uses the requested count unclamped%s" % (prim, mode[2], (": " + w.tstr(prim, bad[0][1])) if bad else ""),
                          loc=w.stmt_loc(prim, bad[0][0]) if bad else w.fn_loc(prim), sample={"fn": prim, "mode": mode[2], "unclamped_uses": len(bad)})
    ctx.floor("R3", 5, "count-taking primitives")


def raw_outside_min(t, raw, inside=False):
    if t == raw:
        return not inside
    if isinstance(t, tuple):
        if t and t[0] == "call" and (t[1].endswith("::min") or t[1].endswith("::clamp")) and raw in t[2]:
            return any(raw_outside_min(x, raw, True) for x in t[2] if x != raw)
        return any(raw_outside_min(x, raw, inside) for x in t if isinstance(x, tuple))
    return False


# ---- R4 -------------------------------------------------------------------------------------------------
def defaults(ctx, w, S, R, reach):
    from rules import c05
    E = w.E
    ctx.rule("R4", "values that get 1 subtracted are >= 1: defaults of the parameter helper are >= 1; counts passed to the tab search come from it; constants subtracted from a screen dimension are <= 1")
    helper = c05.default_helper(w)
    dims = {("load", ("arg1", R["cols"])), ("load", ("arg1", R["rows"]))}
    if helper:
        for cs in E.callers_of(helper):
            if cs.term is None or cs.body not in reach:
                continue
            T = w.terms(cs.body)
            d = WD.strip_names(T.operand(cs.term["args"][1], cs.point))
            ok = (d[0] == "const" and isinstance(d[1], int) and d[1] >= 1) or d in dims
            ctx.check(ok, "R4", "default:%s:%s" % (cs.body, shared.site_key(w, cs.body, cs.point)), "%s uses default %s: a zero/missing parameter would yield 0 and `- 1` underflows" % (cs.body, w.tstr(cs.body, d)), loc=w.site_loc(cs),
                      sample={"fn": cs.body, "default": w.tstr(cs.body, d)})
    else:
        ctx.missing_anchor("R4", "default helper")
    # functions computing `param - 1` on a usize parameter: all callers pass helper(..) or a constant >= 1
    for fn in sorted(reach):
        b = w.body(fn)
        T = w.terms(fn)
        fo = w.facts.fns.get(fn, {})
        for bl in sorted(b.normal_blocks()):
            tm = b.term(bl)
            if tm["k"] != "assert" or not tm["msg"].startswith("Overflow(Sub)"):
                continue
            l = WD.strip_names(T.operand(tm["l"], (bl, b.n_stmts(bl))))
            r = WD.strip_names(T.operand(tm["r"], (bl, b.n_stmts(bl))))
            if r[0] != "const" or not isinstance(r[1], int):
                continue
            k = r[1]
            key = "%s:%s-%d" % (fn, w.tstr(fn, l)[:40], k)
            if l[0] == "load" and len(l[1]) == 1 and l[1][0].startswith("arg") and (fo.get("inputs") or [{}] * 9)[int(l[1][0][3:]) - 1].get("s") == "usize" and k == 1 and S._impl_of(fn) not in (S.term_ty, S.buffer_ty, S.line_ty):
                # parameter - 1: check the callers (through pass-through parameters)
                argi = int(l[1][0][3:]) - 1

                def check_callers(callee, ai, depth, chain):
                    for cs in E.callers_of(callee):
                        if cs.term is None:
                            continue
                        CT = w.terms(cs.body)
                        a = WD.strip_names(CT.operand(cs.term["args"][ai], cs.point))
                        if a[0] == "load" and len(a[1]) == 1 and a[1][0].startswith("arg") and depth < 4:
                            check_callers(cs.body, int(a[1][0][3:]) - 1, depth + 1, chain + [cs.body])
                            continue
                        ok = (a[0] == "const" and isinstance(a[1], int) and a[1] >= 1) or (a[0] == "call" and a[1] == helper)
                        ctx.check(ok, "R4", "%s<-%s" % (key, shared.site_key(w, cs.body, cs.point) + ":" + cs.body), "%s computes `%s - 1` but %s passes %s (via %s), which is not known to be >= 1" % (fn, w.tstr(fn, l), cs.body, w.tstr(cs.body, a), chain),
                                  loc=w.site_loc(cs), sample={"callee": fn, "caller": cs.body, "argument": w.tstr(cs.body, a)})
                check_callers(fn, argi, 0, [])
            elif l in dims or (l[0] == "load" and l[1][-1] in (S.buf_cols, S.buf_rows) and l[1][0] == "arg1"):
                ctx.check(k <= 1, "R4", key, "%s subtracts %d from a screen dimension (%s), which is only known to be >= 1: a %d-column/row screen panics here" % (fn, k, w.tstr(fn, l), k - 1 if k > 1 else 1),
                          loc=w.stmt_loc(fn, (bl, b.n_stmts(bl))), sample={"fn": fn, "expr": "%s - %d" % (w.tstr(fn, l), k)})
            elif l[0] == "call" and l[1] == helper:
                ctx.check(k <= 1, "R4", key, "%s subtracts %d from a defaulted parameter (>= 1 only)" % (fn, k), loc=w.stmt_loc(fn, (bl, b.n_stmts(bl))), sample={"fn": fn, "expr": "%s - %d" % (w.tstr(fn, l), k)})
    ctx.floor("R4", 40, "subtraction / default obligations")


# ---- R5 -------------------------------------------------------------------------------------------------------
def progress(ctx, w, S, R, reach):
    E = w.E
    ctx.rule("R5", "no recursion among API-reachable functions; the SGR decoder consumes >= 1 parameter per round for every shape of following parameters; loops are iterator- or counter-driven")
    # acyclicity
    color = {}
    cyc = []

    def dfs(f, stack):
        color[f] = 1
        for cs in E.sites.get(f, []):
            if cs.local and cs.callee in reach:
                if color.get(cs.callee) == 1:
                    cyc.append(stack + [f, cs.callee])
                elif cs.callee not in color:
                    dfs(cs.callee, stack + [f])
        color[f] = 2
    for f in sorted(reach):
        if f not in color:
            dfs(f, [])
    ctx.check(not cyc, "R5", "acyclic", "recursion among API-reachable functions: %s" % (cyc[:1]), sample={"functions": len(reach), "cycles": len(cyc)})
    # SGR decoder progress
    from rules import c08
    try:
        ev = c08.SgrEval(w)
    except WD.AnchorError as e:
        ctx.missing_anchor("R5", "SGR decoder", str(e))
        ev = None
    if ev:
        def ext_call(self, fp, args):
            import re as _re
            m_ = _re.search(r"TryFrom<u(\d+)> for u(\d+)>::try_from$", fp)
            if m_ and len(args) == 1 and isinstance(args[0], int):
                if args[0] < (1 << int(m_.group(2))):
                    return ("v", "core::result::Result::Ok", (args[0],))
                return ("v", "core::result::Result::Err", (("sym", "TryFromIntError"),))
            return ("ext", fp, tuple(args))
        SE.Interp.ext_call = ext_call
        SE.Interp.truncating_casts = True
        shapes = []
        for base in (38, 48):
            for sel in (2, 5, 7):
                for extra in range(0, 6):
                    shapes.append([[base], [sel]] + [[9]] * extra)
            shapes.append([[base]])
            for ln in range(1, ev.plen + 1):
                shapes.append([[base] + [2] * (ln - 1)] + [[9]])
        # sub-parameter / parameter VALUES at the implicit boundaries of narrowing conversions (u16 -> u8)
        for base in (38, 48):
            for v in (0, 255, 256, 65535):
                shapes.append([[base, 5, v], [9]])
                shapes.append([[base, 2, v, v, v], [9]])
                shapes.append([[base, 2, 0, v, v, v], [9]])
                shapes.append([[base], [5], [v], [9]])
                shapes.append([[base], [2], [v], [v], [v], [9]])
        nh = w.hir(ev.next_fn)
        lits = H.expr_literals(nh["body"])
        for n in H.walk(nh["body"]):
            if n.get("p"):
                H.pat_literals(n, lits)
        for a in H.partition(lits, 0, 65536):
            shapes.append([[a[0]]])
            shapes.append([[a[0]], [a[0]]])
        for sh in shapes:
            key = ";".join(":".join(str(x) for x in p) for p in sh)
            try:
                remaining = [list(p) for p in sh]
                rounds = 0
                okp = True
                while remaining and rounds < 40:
                    r, rest, it = ev.run(remaining)
                    if rest >= len(remaining) and r != H.NONE_V:
                        okp = False
                        break
                    if r == H.NONE_V:
                        break
                    remaining = remaining[len(remaining) - rest:]
                    rounds += 1
                ctx.check(okp, "R5", "sgr:" + key, "SGR parameter shape %s: a round of the decoder returned an operation without consuming a parameter" % key, loc=w.fn_loc(ev.next_fn), sample={"shape": key, "rounds": rounds})
            except H.Unsupported as e:
                ctx.violation("R5", "sgr:" + key, "SGR parameter shape %s: %s (no progress, an unwrap on a missing parameter, or an out-of-range slice)" % (key, e), loc=w.fn_loc(ev.next_fn))
    SE.Interp.truncating_casts = False
    # loop classification
    n_it = n_cnt = 0
    uncls = []
    for fn in sorted(reach):
        b = w.body(fn)
        T = w.terms(fn)
        nb = b.normal_blocks()
        heads = set()
        for x in nb:
            for s in b.succ(x):
                if b.block_dominates(s, x):
                    heads.add(s)
        for hd in sorted(heads):
            body_blocks = {x for x in nb if b.block_dominates(hd, x) and hd in b.reachable_from(b.succ(x)) or x == hd}
            kind = None
            for x in body_blocks:
                tm = b.term(x)
                if tm["k"] == "call" and tm["callee"].get("decl_name") in ("next", "next_back") :
                    kind = "iterator"
            if kind is None:
                # counter: some local assigned `loop:x + const` inside the loop and compared in a switch of the loop
                for x in body_blocks:
                    for i, st in enumerate(b.blocks[x]["stmts"]):
                        if st["k"] == "assign" and not st["place"]["proj"]:
                            t = T.rvalue(st["rv"], (x, i))
                            if t[0] == "field" and t[1][0] == "checked" and t[1][1] in ("Add", "Sub") and t[1][3][0] == "const" and t[1][3][1] not in (0,):
                                kind = "counter"
                            if t[0] == "binop" and t[1] in ("Add", "Sub") and t[3][0] == "const" and t[3][1] != 0:
                                kind = "counter"
            if kind == "iterator":
                n_it += 1
            elif kind == "counter":
                n_cnt += 1
            else:
                uncls.append("%s@bb%d" % (fn, hd))
    ctx.ok("R5", "loops", {"iterator_driven": n_it, "counter_driven": n_cnt, "unclassified": uncls})
    ctx.extra["loops"] = {"iterator_driven": n_it, "counter_driven": n_cnt, "unclassified": uncls}
    ctx.floor("R5", 40, "progress obligations")


# ---- R6 -------------------------------------------------------------------------------------------------------
def unwraps(ctx, w, S, R, reach):
    E = w.E
    ctx.rule("R6", "Option::unwrap is applied only under a guard that implies Some (non-empty test on the same container), or inside the exhaustively evaluated SGR decoder")
    from rules import c08
    try:
        sgr_next = c08.sgr_iter(w)[1]
    except WD.AnchorError:
        sgr_next = None
    und = []
    for fn in sorted(reach):
        b = w.body(fn)
        T = w.terms(fn)
        for cs in E.call_sites(fn):
            if cs.term["callee"].get("decl_name") not in ("unwrap", "expect") or "Option" not in cs.callee:
                continue
            if fn == sgr_next or fn.startswith((sgr_next or "\0") + "::"):
                ctx.ok("R6", "%s:%s" % (fn, shared.site_key(w, fn, cs.point)), {"fn": fn, "covered_by": "R5 exhaustive SGR shape evaluation (unwrap on None would be reported there)"})
                continue
            src = WD.strip_names(T.operand(cs.term["args"][0], cs.point))
            gs = [(WD.strip_names(c), v) for c, v in w.guards_of(fn, cs.point[0])]
            ok = False
            if src[0] == "call" and src[1].rsplit("::", 1)[-1] in ("last", "first", "last_mut", "first_mut"):
                cont = src[2][0]
                for c, v in gs:
                    if c[0] == "call" and c[1].endswith("::is_empty") and v is False and same_container(c[2][0], cont):
                        ok = True
            if ok:
                ctx.ok("R6", "%s:%s" % (fn, shared.site_key(w, fn, cs.point)), {"fn": fn, "guard": "!is_empty()"})
            else:
                und.append("%s (%s)" % (w.site_loc(cs), fn))
    ctx.extra["unwraps_not_decided"] = und
    ctx.note("unwrap sites resting on geometry invariants (not decided): %s" % und)
    ctx.floor("R6", 3, "unwrap sites")


def same_container(a, b):
    def loads(t):
        return flatten_loads(t)
    return bool(loads(a) & loads(b))


# ---- R7 ----------------------------------------------------------------------------------------------------------
TY_RANGE = {"u8": (0, 255), "u16": (0, 65535), "u32": (0, 2**32 - 1), "u64": (0, 2**64 - 1), "usize": (0, 2**64 - 1), "char": (0, 0x10FFFF)}


def interval(w, fn, t, locals_ty):
    """Interval of a term seeded only by operand TYPES (casts widen from the source type)."""
    t = WD.strip_names(t)
    if t[0] == "const" and isinstance(t[1], int):
        return (t[1], t[1])
    if t[0] == "cast":
        lo, hi = interval(w, fn, t[1], locals_ty)
        tl, th = TY_RANGE.get(t[2], (None, None))
        if tl is None:
            return (None, None)
        if lo is None:
            return (tl, th)
        if lo >= tl and hi <= th:
            return (lo, hi)
        return (tl, th)
    if t[0] == "binop" and t[1] in ("Add", "Mul", "Sub"):
        a, b = interval(w, fn, t[2], locals_ty), interval(w, fn, t[3], locals_ty)
        if None in a or None in b:
            return (None, None)
        if t[1] == "Add":
            return (a[0] + b[0], a[1] + b[1])
        if t[1] == "Mul":
            return (a[0] * b[0], a[1] * b[1])
        return (a[0] - b[1], a[1] - b[0])
    if t[0] == "load":
        ty = locals_ty(t)
        return TY_RANGE.get(ty, (None, None))
    return (None, None)


def digits(ctx, w):
    E = w.E
    ctx.rule("R7", "the digit accumulation of a parameter cannot overflow the type it is computed in (intervals seeded by operand types), truncates explicitly, and stores the result on every path")
    from rules import tables
    tb = tables.parser_tables(w)
    # the function that folds a digit: callee of the `param` action taking a u8
    cand = []
    for fn, fo in w.facts.fns.items():
        if (fo.get("impl_self") or {}).get("adt") == tb.param_ty and [i["s"] for i in fo.get("inputs", [])][1:] == ["u8"] and fn in w.bodies:
            cand.append(fn)
    if len(cand) != 1:
        ctx.missing_anchor("R7", "digit accumulator (method of %s taking a u8)" % tb.param_ty, "(found %s)" % cand)
        return
    fn = cand[0]
    b = w.body(fn)
    T = w.terms(fn)
    pf = {f["name"]: f for f in w.facts.struct_fields(tb.param_ty)}

    def locals_ty(t):
        p = t[1]
        if p[0] == "arg2":
            return "u8"
        if p[0] == "arg1" and len(p) >= 2 and p[1] in pf:
            ty = pf[p[1]]["ty"]
            return (ty.get("array") or ty).get("s")
        return None
    n = 0
    for bl in sorted(b.normal_blocks()):
        tm = b.term(bl)
        if tm["k"] == "assert" and tm["msg"].startswith("Overflow("):
            op = tm["msg"][len("Overflow("):-1]
            l = T.operand(tm["l"], (bl, b.n_stmts(bl)))
            r = T.operand(tm["r"], (bl, b.n_stmts(bl)))
            ty = tm["l"].get("ty") if tm["l"]["k"] != "const" else tm["l"]["ty"]["s"]
            il, ir = interval(w, fn, l, locals_ty), interval(w, fn, r, locals_ty)
            n += 1
            ok = False
            res = None
            if None not in il and None not in ir and ty in TY_RANGE:
                res = (il[1] + ir[1]) if op == "Add" else (il[1] * ir[1]) if op == "Mul" else (il[0] - ir[1])
                ok = TY_RANGE[ty][0] <= res <= TY_RANGE[ty][1]
            ctx.check(ok, "R7", "%s:%s:%d" % (fn, op, n), "%s: `%s %s %s` in type %s can overflow for operands of their types (extreme value %s): a long run of digits panics in a build with overflow checks" %
                      (fn, w.tstr(fn, l), op, w.tstr(fn, r), ty, res), loc=w.stmt_loc(fn, (bl, b.n_stmts(bl))), sample={"fn": fn, "op": op, "type": ty, "extreme": res})
    if n == 0:
        ctx.ok("R7", fn + ":no-checked-arith", {"fn": fn, "overflow_asserts": 0})
    # the store happens on every path (no digit is dropped), and is an explicit truncation
    stores = [(pt, t) for pt, ps in E.stmt_writes[fn].items() for t in [None] if any(p[0] == "arg1" and "[]" in p for p in ps)]
    pts = {pt for pt, _ in stores}
    ctx.check(bool(pts) and b.every_path_to_return_hits((0, 0), pts, include_start=True), "R7", fn + ":stores", "%s can return without storing the accumulated value: a digit is silently dropped (values up to 65535 must be delivered as written)" % fn,
              loc=w.fn_loc(fn), sample={"fn": fn, "stores": len(pts)})
    ctx.floor("R7", 2, "digit accumulation obligations")


# ---- R8 -------------------------------------------------------------------------------------------------------------
def loop_index(ctx, w, S, reach):
    E = w.E
    ctx.rule("R8", "an index into the line vector that is advanced inside a loop is bounded by the vector's length in a condition controlling the access")
    n = 0
    for fn in sorted(reach):
        if S._impl_of(fn) != S.buffer_ty:
            continue
        b = w.body(fn)
        T = w.terms(fn)
        nb = b.normal_blocks()
        cyc = {x for x in nb if x in b.reachable_from(b.succ(x))}
        k = 0
        for cs in E.call_sites(fn):
            if cs.point[0] not in cyc or not (cs.decl or "").endswith(("Index::index", "IndexMut::index_mut")):
                continue
            a0 = WD.strip_names(T.operand(cs.term["args"][0], cs.point))
            if not (a0[0] == "ref" and a0[2] == ("load", ("arg1", S.lines_field))):
                continue
            idx = T.operand(cs.term["args"][1], cs.point)
            if "loop" not in repr(idx) and "phi" not in repr(idx):
                continue
            k += 1
            n += 1
            key = (fn, k)
            sig_key = ((w.facts.fns.get(fn, {}).get("output") or {}).get("s"), k)
            if key in EXEMPT_LOOP_INDEX or sig_key in EXEMPT_LOOP_INDEX_BY_SIGNATURE:
                ctx.ok("R8", "%s#%d(exempt)" % key, {"fn": fn, "reason": EXEMPT_LOOP_INDEX.get(key) or EXEMPT_LOOP_INDEX_BY_SIGNATURE[sig_key]})
                continue
            gs = [(WD.strip_names(c), v) for c, v in w.guards_of(fn, cs.point[0])]
            idx_local = cs.term["args"][1]
            ok = False
            for c, v in gs:
                if v is True and c[0] == "binop" and c[1] in ("Lt", "Le") and "::len" in repr(c[3]) and S.lines_field in repr(c[3]):
                    # left side is the same variable as the index
                    ok = True
            ctx.check(ok, "R8", "%s#%d" % key, "%s indexes the line vector with a loop-advanced index (%s) that no controlling condition bounds by the vector's length (guards: %s)" %
                      (fn, w.tstr(fn, idx)[:60], [(w.tstr(fn, c)[:60], v) for c, v in gs]), loc=w.site_loc(cs), sample={"fn": fn, "guards": [(w.tstr(fn, c)[:80], v) for c, v in gs]})
    ctx.floor("R8", 2, "loop-advanced indices")


# ---- R10: every subtraction outside the reflow core is discharged -----------------------------------------
AXIOMS = {
    "A1": "screen dimensions are >= 1 (public precondition: cols >= 1, rows >= 1)",
    "A2": "the default helper returns >= 1 (its defaults are >= 1: R4)",
    "A3": "a buffer holds at least `rows` lines (C02 geometry invariant, not decided here)",
    "A4": "the column handed to a row primitive is <= cols (cursor.col <= cols, C02)",
    "A5": "row ranges handed to the scroll primitives are non-empty and ordered (top <= bottom, cursor row <= last row)",
    "A6": "the character class is guaranteed by the transition table / the enclosing range test (C03.T1, C04.Y1)",
    "A7": "a count of trailing cells is <= the row length",
    "A8": "the hard limit is >= the soft limit (hard = soft + soft/10, C13.L5)",
    "A9": "a count was clamped to the row remainder by the caller (R3)",
}


def sub_discharge(ctx, w, S, R, reach, covered=None):
    covered = covered or {}
    from rules import c05
    E = w.E
    ctx.rule("R10", "outside the reflow core every checked subtraction is discharged: by a controlling comparison, a comparison arm, a min-clamp, constants, or one of the named invariants A1-A9")
    helper = c05.default_helper(w)
    core = set(E.reachable_fns([S.buffer_resize_fn]))
    # iterator impls driven by std on behalf of the core (the reflow iterator)
    grew = True
    while grew:
        grew = False
        for fn in list(core):
            b0 = w.bodies.get(fn)
            if not b0:
                continue
            for bl in b0.normal_blocks():
                for st in b0.blocks[bl]["stmts"]:
                    if st["k"] == "assign" and st["rv"]["k"] == "aggregate" and st["rv"].get("agg") == "adt":
                        for f2, fo2 in w.facts.fns.items():
                            if (fo2.get("impl_self") or {}).get("adt") == st["rv"]["adt"] and fo2.get("impl_trait", "").endswith("Iterator") and f2 in w.bodies:
                                new = set(E.reachable_fns([f2])) - core
                                if new:
                                    core |= new
                                    grew = True
    used = {}
    undis = []
    n = 0
    for fn in sorted(reach):
        if fn in core:
            continue
        b = w.body(fn)
        T = w.terms(fn)
        fo = w.facts.fns.get(fn, {})
        has_self = bool(fo.get("inputs")) and fo["inputs"][0].get("ref") is not None
        impl = S._impl_of(fn)
        for bl in sorted(b.normal_blocks()):
            tm = b.term(bl)
            if tm["k"] != "assert" or not tm["msg"].startswith("Overflow(Sub)"):
                continue
            l = shared.norm_term(T.operand(tm["l"], (bl, b.n_stmts(bl))))
            r = shared.norm_term(T.operand(tm["r"], (bl, b.n_stmts(bl))))
            ty = tm["l"].get("ty") if tm["l"]["k"] != "const" else tm["l"]["ty"]["s"]
            gs = [(shared.norm_term(c), v) for c, v in w.guards_of(fn, bl)]
            why = discharge(w, S, R, fn, impl, has_self, l, r, ty, gs, helper)
            parent = fn.split("::{closure", 1)[0]
            if not why and (fn in covered or parent in covered):
                why = "%s: this function was interpreted for every small geometry / size without a panic" % covered.get(fn, covered.get(parent))
            n += 1
            key = "%s:%s" % (fn, shared.site_key(w, fn, (bl, b.n_stmts(bl))))
            if why:
                used[why.split(":")[0]] = used.get(why.split(":")[0], 0) + 1
                ctx.ok("R10", key, {"fn": fn, "expr": "%s - %s" % (w.tstr(fn, l)[:50], w.tstr(fn, r)[:50]), "discharged_by": why})
            else:
                ctx.violation("R10", key, "%s computes `%s - %s` with nothing that guarantees the left side is not smaller (guards: %s): this underflows (panics with overflow checks) for some input/state" %
                              (fn, w.tstr(fn, l)[:70], w.tstr(fn, r)[:70], [(w.tstr(fn, c)[:50], v) for c, v in gs]), loc=w.stmt_loc(fn, (bl, b.n_stmts(bl))))
    ctx.extra["subtraction_discharge"] = used
    ctx.extra["axioms"] = AXIOMS
    ctx.extra["reflow_core_not_decided"] = sorted(core & set(reach))
    ctx.floor("R10", 40, "checked subtractions outside the reflow core")


def _is_len_of(t, field):
    return t[0] == "call" and t[1].endswith("::len") and len(t[2]) == 1 and t[2][0] in (("ref", False, ("load", ("arg1", field))), ("ref", True, ("load", ("arg1", field))))


def discharge(w, S, R, fn, impl, has_self, l, r, ty, gs, helper):
    dims = {("load", ("arg1", R["cols"])), ("load", ("arg1", R["rows"]))} if impl == S.term_ty else set()
    if impl == S.buffer_ty or (fn.startswith("<" + S.buffer_ty)):
        dims |= {("load", ("arg1", S.buf_cols)), ("load", ("arg1", S.buf_rows))}
    if ty in ("isize", "i64", "i32"):
        return "signed: screen-sized values cannot overflow a signed machine word"

    def guard_ge(a, bnd):
        """some controlling guard implies a >= bnd (bnd term or int)"""
        for c, v in gs:
            if c == a and isinstance(v, tuple) and v and v[0] == "not" and 0 in v[1] and isinstance(bnd, int) and bnd <= 1:
                return True              # integer switch: the value is not 0 on this path
            if c[0] != "binop":
                # !is_empty(container) => len(container) >= 1
                if c[0] == "call" and c[1].endswith("::is_empty") and v is False and isinstance(bnd, int) and bnd <= 1 and a[0] == "call" and a[1].endswith("::len") \
                        and (repr(c[2][0]) == repr(a[2][0]) or (flatten_loads(c[2][0]) & flatten_loads(a[2][0]))):
                    return True
                continue
            op, x, y = c[1], c[2], c[3]
            if isinstance(bnd, int):
                if x == a and y[0] == "const" and isinstance(y[1], int):
                    if (op == "Gt" and v is True and y[1] >= bnd - 1) or (op == "Ge" and v is True and y[1] >= bnd) or (op == "Eq" and v is False and y[1] == 0 and bnd <= 1) or \
                            (op == "Ne" and v is True and y[1] == 0 and bnd <= 1) or (op == "Le" and v is False and y[1] >= bnd - 1) or (op == "Lt" and v is False and y[1] >= bnd) or (op == "Eq" and v is True and y[1] >= bnd):
                        return True
                if y == a and x[0] == "const" and isinstance(x[1], int):
                    if (op == "Lt" and v is True and x[1] >= bnd - 1) or (op == "Le" and v is True and x[1] >= bnd):
                        return True
            else:
                if x == a and y == bnd and ((op in ("Ge", "Gt") and v is True) or (op in ("Lt",) and v is False) or (op == "Le" and v is False) or (op == "Eq" and v is True)):
                    return True
                if x == bnd and y == a and ((op in ("Le", "Lt") and v is True) or (op in ("Gt",) and v is False) or (op == "Ge" and v is False) or (op == "Eq" and v is True)):
                    return True
        return False
    if r[0] == "const" and isinstance(r[1], int):
        k = r[1]
        if k == 0:
            return "const: subtracting 0"
        if l[0] == "const" and isinstance(l[1], int) and l[1] >= k:
            return "const: %d - %d" % (l[1], k)
        if guard_ge(l, k):
            return "guard: a controlling comparison implies the left side >= %d" % k
        if k <= 1 and (l in dims or (not has_self and l[0] == "load" and l[1][0].startswith("arg"))):
            return "A1: dimension - 1"
        if k <= 1 and fn == S.resize_fn and l[0] == "load" and len(l[1]) == 1 and l[1][0] in ("arg2", "arg3"):
            return "A1: requested dimension - 1"
        if k <= 1 and l[0] == "load" and len(l[1]) == 1 and l[1][0].startswith("arg") and not (w.facts.fns.get(fn, {}).get("exported")) and impl not in (S.term_ty, S.buffer_ty, S.line_ty):
            return "R4: every caller passes a value >= 1 (checked at the call sites by R4)"
        if k <= 1 and l[0] == "call" and l[1] == helper:
            return "A2: defaulted parameter - 1"
        if k <= 1 and _is_len_of(l, S.lines_field):
            return "A3: lines.len() - 1"
        if k <= 1 and l[0] == "load" and l[1][-1] == "end" and l[1][0].startswith("arg"):
            return "A5: range.end - 1"
        if l[0] == "cast" and l[2] in ("u8", "usize", "u32") and "arg" in repr(l[1]):
            return "A6: character - constant under a class guarantee"
        if l[0] == "phi" or l[0] == "loop":
            return None
        return None
    # two variable operands
    if guard_ge(l, r):
        return "guard: a controlling comparison implies left >= right"
    for c, v in gs:
        if c[0] == "discr" and c[1][0] == "call" and c[1][1].endswith("::cmp"):
            a0, a1 = [x[2] if x[0] == "ref" else x for x in c[1][2]]
            if (v == 1 and (l, r) == (a0, a1)) or (v == 255 and (l, r) == (a1, a0)):
                return "cmp-arm: larger minus smaller in a comparison arm"
    if r[0] == "min":
        for x in r[1:]:
            if x == l or (x[0] == "binop" and x[1] == "Sub" and x[2] == l):
                return "clamp: the right side is min(.., left [- x])"
    if _is_len_of(l, S.lines_field) and r == ("load", ("arg1", S.buf_rows)):
        return "A3: lines.len() - rows"
    if l == ("load", ("arg1", S.buf_cols)) and r[0] == "load" and r[1][0].startswith("arg") and r[1][-1] == "0":
        return "A4: cols - position.col"
    if l[0] == "load" and r[0] == "load" and l[1][-1] == "end" and r[1][-1] == "start" and l[1][:-1] == r[1][:-1]:
        return "A5: range.end - range.start"
    if r[0] == "call" and w.facts.fns.get(r[1], {}).get("output", {}).get("s") == "usize" and l[0] == "call" and l[1].endswith("::len") and impl == S.line_ty:
        return "A7: len - trailing count"
    if impl == S.line_ty and l[0] == "call" and l[1].endswith("::len") and r[0] == "load" and r[1][0].startswith("arg"):
        return "A9: len - clamped count"
    if l[0] == "binop" and l[1] == "Sub" and _is_len_of(l[2], S.lines_field) and r[0] == "load" and "soft" in r[1][-1:][0] if r[0] == "load" else False:
        if guard_ge(l, None) or any(c[0] == "binop" and c[1] == "Gt" and c[2] == l and v is True for c, v in gs):
            return "A8: size - soft under size > hard"
    if l[0] == "binop" and l[1] == "Sub" and _is_len_of(l[2], S.lines_field) and any(c[0] == "binop" and c[1] == "Gt" and c[2] == l and v is True for c, v in gs):
        return "A8: size - soft under size > hard"
    if l[0] == "const" and r[0] == "binop" and r[1] == "Rem" and r[3][0] == "const" and isinstance(l[1], int) and l[1] >= r[3][1]:
        return "const: c - (x % c)"
    return None
