"""C14 - no scrolled-off line is lost, duplicated, reordered or altered.
Also hosts the scrollback-trimming rules shared with C13 / C12 / C16."""
import hir as H
import mir as M
import world as WD
from rules import shared


class Trim:
    """Derived anchors of the lazy trimming machinery."""

    def __init__(self, w, S, R):
        E = w.E
        self.ok = False
        # Terminal::gc -> Buffer gc
        self.term_gc = S.gc_fn
        self.buf_gc = None
        for cs in E.call_sites(self.term_gc):
            if cs.local and S._impl_of(cs.callee) == S.buffer_ty:
                self.buf_gc = cs.callee
                self.buf_gc_site = cs
        self.trim_fn = None
        self.drain_site = None
        if self.buf_gc:
            for f in sorted(E.reachable_fns([self.buf_gc])):
                for cs in E.call_sites(f):
                    if cs.callee.endswith("::drain"):
                        self.trim_fn = f
                        self.drain_site = cs
        bf = w.facts.struct_fields(S.buffer_ty)
        flags = [f["name"] for f in bf if f["ty"]["s"] == "bool"]
        self.flag = flags[0] if len(flags) == 1 else None
        lim = [f for f in bf if f["ty"]["s"].startswith("core::option::Option<") and (f["ty"].get("args") or [{}])[0].get("adt")]
        self.limit_field = lim[0]["name"] if len(lim) == 1 else None
        self.limit_ty = lim[0]["ty"]["args"][0]["adt"] if len(lim) == 1 else None
        self.ok = bool(self.buf_gc and self.trim_fn and self.flag and self.limit_field)


def handout_semantics(w, S, R, T):
    """Semantic form of the hand-out clause: the terminal's gc reads nothing of the terminal but the showing-screen flag and the
    active buffer (may-read summary), so evaluating it for both flag values x both results of the buffer's gc (Some(drained) /
    None) is exhaustive: it calls the buffer's gc exactly once on the active buffer in every case, the result carries the drained
    lines when the primary screen shows, and nothing of them otherwise.  -> (True, n) | (False, what)"""
    from rules import hinterp
    g = T.term_gc
    allowed = {R["active_buffer_type"], S.active_buffer}
    extra = sorted({p[1] for p in w.E.summaries[g].R if p[0] == "arg1" and len(p) >= 2 and p[1] not in allowed})
    if extra:
        return False, "%s also reads %s" % (g, extra)
    tfield = [f for f in w.facts.struct_fields(S.term_ty) if f["name"] == R["active_buffer_type"]][0]
    tadt = tfield["ty"].get("adt")
    variants = w.facts.enum_variants(tadt) if tadt in w.facts.adts else []
    if sorted(variants) != ["Alternate", "Primary"]:
        return False, "showing-screen flag is not the two-valued enum"
    DR = ("sym", "DRAINED")
    n = 0
    for var in variants:
        for res in (H.some(DR), H.NONE_V):
            class GI(hinterp.HandlerInterp):
                def call_fn(self, path, args):
                    if path == T.buf_gc and args and args[0] == hinterp.BUF:
                        self.events.append((path, list(args[1:]), "buffer"))
                        return res
                    return super().call_fn(path, args)
            me = hinterp.terminal_obj(w, S, R, 4, 3, 0, 0)
            me[2][R["active_buffer_type"]] = ("v", "%s::%s" % (tadt, var))
            it = GI(w.facts)
            try:
                out = it.call_fn(g, [me])
            except Exception as ex:
                return False, "cannot evaluate %s: %r" % (g, ex)
            n += 1
            calls = [e for e in it.events if e[2] == "buffer"]
            if [e[0] for e in calls] != [T.buf_gc]:
                return False, "with the %s screen showing %s makes the buffer calls %s (exactly one call of the buffer's gc expected)" % (var.lower(), g, [e[0] for e in calls])
            has = "DRAINED" in repr(out)
            if var == "Primary" and res != H.NONE_V and not has:
                return False, "with the primary screen showing the drained lines are not handed out"
            if var == "Alternate" and has:
                return False, "with the alternate screen showing the drained lines are handed out"
    return True, n


def gc_rules(ctx, w, S, R, rule_prefix="D2"):
    """The scrollback stream handed out is the primary buffer's drained prefix,
    and nothing while the alternate screen is active."""
    E = w.E
    T = Trim(w, S, R)
    rule = rule_prefix
    ctx.rule(rule, "Terminal::gc always trims the active buffer, hands its drained lines out only when the primary screen is active, and nothing otherwise")
    if not T.ok:
        ctx.missing_anchor(rule, "gc / trim machinery", "(buf_gc=%s trim=%s flag=%s)" % (T.buf_gc, T.trim_fn, T.flag))
        return T
    g = T.term_gc
    b = w.body(g)
    TT = w.terms(g)
    # the buffer gc runs on every path (the alternate buffer is trimmed too)
    ctx.check(b.every_path_to_return_hits((0, 0), {T.buf_gc_site.point}, include_start=True), rule, "always-trims",
              "%s does not call the buffer's gc on every path: while the alternate screen shows, its lines() would grow beyond the visible rows" % g, loc=w.fn_loc(g), sample={"gc": g, "buffer_gc": T.buf_gc})
    recv = WD.strip_names(TT.operand(T.buf_gc_site.term["args"][0], T.buf_gc_site.point))
    ctx.check(recv == ("ref", True, ("load", ("arg1", S.active_buffer))), rule, "active", "%s trims %s instead of the active buffer" % (g, w.tstr(g, recv)), loc=w.site_loc(T.buf_gc_site))
    # every point where the drained iterator flows into the result is guarded by 'not alternate'
    names = {x["discr"]: x["name"] for x in w.facts.adts.get("terminal::BufferType", {}).get("variants", [])}
    n = 0
    sem = None
    for bl in sorted(b.normal_blocks()):
        for i, s in enumerate(b.blocks[bl]["stmts"]):
            if s["k"] != "assign":
                continue
            t = TT.rvalue(s["rv"], (bl, i))
            if T.buf_gc in repr(t) and "Some" in repr(t) and s["place"]["local"] != T.buf_gc_site.term["dest"]["local"]:
                # use of the payload
                gs = [(WD.strip_names(c), v) for c, v in w.guards_of(g, bl)]
                guarded = False
                for c, v in gs:
                    sc = repr(c)
                    if R["active_buffer_type"] in sc and "eq" in sc and "Alternate" in sc and v is False:
                        guarded = True
                    if R["active_buffer_type"] in sc and "eq" in sc and "Primary" in sc and v is True:
                        guarded = True
                    if c == ("discr", ("load", ("arg1", R["active_buffer_type"]))) and isinstance(v, int) and names.get(v) == "Primary":
                        guarded = True
                n += 1
                if not guarded:
                    # the guard has a shape the matcher does not know (`!=`, a helper, a match): decide the clause by evaluation
                    if sem is None:
                        try:
                            sem = handout_semantics(w, S, R, T)
                        except Exception as ex:
                            sem = (False, repr(ex))
                    guarded = sem[0] is True
                ctx.check(guarded, rule, "payload@%s" % shared.site_key(w, g, (bl, i)),
                          "%s hands out the drained lines without having established that the primary screen is active: lines scrolled off the alternate screen leak into Changes.scrollback" % g,
                          loc=w.stmt_loc(g, (bl, i)), sample={"guards": [(w.tstr(g, c), v) for c, v in gs]})
    if n == 0:
        ctx.violation(rule, "payload", "%s never hands out the drained lines" % g, loc=w.fn_loc(g))
    return T


def _run(ctx, w):
    S = shared.screen(w)
    R = shared.roles(w)
    E = w.E
    ctx.explanation = ("The scrollback stream is decided structurally: which range is drained, who may call the trim and what happens to its result, how the stream reaches "
                       "Changes.scrollback and the text collector, and that rows above the view are never addressed by command handlers.")
    ctx.decided = ["D1 the trim drains a prefix (oldest lines first) and returns the drained lines to its caller", "D2 alternate-screen lines never enter the stream; primary lines always do",
                   "D3 Changes.scrollback is that stream; TextCollector pipes every element through the unwrapper and flushes lines() then the carry-over",
                   "D4 rows above the view are never written (or read) by command handlers: all access to the line vector is view-relative", "D5 the trim is invoked only by the buffer's gc, which only Terminal::gc calls"]
    ctx.not_decided = ["equality with the unlimited run as such (a relation between two executions)"]
    T = gc_rules(ctx, w, S, R, "D2")
    if not T.ok:
        return
    trim_rules(ctx, w, S, R, T)
    view_rules(ctx, w, S, R, T)
    # what scrolls off a range starting at row 0 must actually be appended above the view, whatever the limit
    from rules import c06, c12, prims
    up, down = c06.scroll_prims(w, S)
    c12.c06_w9(ctx, w, S, up)
    prims.scroll_primitives(ctx, w, S, "D7")
    ctx.floor("D7", 500, "scroll primitive evaluations")
    from rules import c13
    c13.config_plumbing(ctx, w, S, R, "D8")
    # what is not handed out must still be visible in lines(): the accessor shows the whole line vector, whatever the limit
    from rules import hinterp
    ctx.rule("D9", "Vt::lines() returns the whole line vector of the active buffer (nothing hidden, whatever the limit) and Vt::view() its last `rows` lines")
    try:
        okA, infoA = hinterp.accessor_semantics(w, S, R)
        ctx.check(okA, "D9", "accessors", str(infoA), loc=w.fn_loc("vt::Vt::lines"), sample={"cases": infoA})
    except Exception as ex:
        ctx.violation("D9", "accessors", "cannot evaluate the lines()/view() accessors: %r" % (ex,), loc=w.fn_loc("vt::Vt::lines"))
    stream_rules(ctx, w, S, R, T)


def trim_rules(ctx, w, S, R, T):
    E = w.E
    ctx0 = ctx
    sem = shared.gc_verdict(ctx0, w, S, T, "D1s")
    ctx = shared.Deferred(ctx0, {"D1"}, sem)
    ctx.rule("D1", "the trim drains the prefix ..excess of the line vector and returns the drained lines")
    f = T.trim_fn
    TT = w.terms(f)
    cs = T.drain_site
    recv = WD.strip_names(TT.operand(cs.term["args"][0], cs.point))
    rng = WD.strip_names(TT.operand(cs.term["args"][1], cs.point))
    ctx.check(recv == ("ref", True, ("load", ("arg1", S.lines_field))), "D1", "receiver", "the trim drains %s, not the line vector" % w.tstr(f, recv), loc=w.site_loc(cs))
    ctx.check(rng[0] == "adt" and rng[1] == "core::ops::range::RangeTo", "D1", "prefix", "the trim drains %s; it must drain a prefix `..n` (the oldest lines)" % w.tstr(f, rng), loc=w.site_loc(cs),
              sample={"range": w.tstr(f, rng)})
    b = w.body(f)
    rts = [WD.strip_names(TT.local(0, (rb, b.n_stmts(rb)))) for rb in b.return_blocks()]
    ctx.check(any("::drain" in repr(t) for t in rts), "D1", "returns", "the trim does not return the drained lines (they would be dropped, i.e. lost)", loc=w.fn_loc(f), sample={"returns": [w.tstr(f, t) for t in rts]})
    # buffer gc returns the trim's result
    g = T.buf_gc
    GT = w.terms(g)
    gb = w.body(g)
    rts = [WD.strip_names(GT.local(0, (rb, gb.n_stmts(rb)))) for rb in gb.return_blocks()]
    ctx.check(any(T.trim_fn in repr(t) for t in rts) or g == T.trim_fn, "D1", "gc-returns", "%s does not return the trim's result" % g, loc=w.fn_loc(g))
    ctx.floor("D1", 4, "trim obligations")

    ctx.rule("D5", "the trim is called only by the buffer's gc; the buffer's gc only by Terminal::gc; Terminal::gc only by the Vt entry points")
    hosts = {shared.Epilogue(w, S, a).host for a in (WD.VT_FEED_STR, WD.VT_RESIZE)} - {None}
    for callee, allowed in ((T.trim_fn, {T.buf_gc}), (T.buf_gc, {T.term_gc}), (T.term_gc, {WD.VT_FEED_STR, WD.VT_RESIZE} | hosts)):
        if callee == T.buf_gc and T.trim_fn == T.buf_gc:
            continue
        for c2 in E.callers_of(callee):
            if c2.term is None:
                continue
            ctx.check(c2.body in allowed, "D5", "%s<-%s" % (callee, c2.body),
                      "%s calls %s: lines trimmed there are not handed out through Changes.scrollback (they are silently lost)" % (c2.body, callee), loc=w.site_loc(c2),
                      sample={"caller": c2.body, "callee": callee})
    ctx.floor("D5", 3, "trim callers")
    from rules import c06
    c06.role_limits(ctx, w, S, R, "D6")


def lines_accesses(w, S, fn):
    """Direct uses of the line vector in fn: (call site, how, index term)."""
    E = w.E
    T = w.terms(fn)
    out = []
    lines_ref = (("load", ("arg1", S.lines_field)))
    for cs in E.call_sites(fn):
        if cs.local or not cs.term["args"]:
            continue
        a0 = WD.strip_names(T.operand(cs.term["args"][0], cs.point))
        if a0[0] == "ref" and a0[2] == lines_ref:
            name = cs.term["callee"].get("decl_name") or ""
            idx = WD.strip_names(T.operand(cs.term["args"][1], cs.point)) if len(cs.term["args"]) > 1 else None
            out.append((cs, name, a0[1], idx))
        elif a0[0] == "call" and a0[1].endswith("Deref>::deref") and a0[2] and a0[2][0] == ("ref", False, lines_ref):
            out.append((cs, cs.term["callee"].get("decl_name") or "", False, WD.strip_names(T.operand(cs.term["args"][1], cs.point)) if len(cs.term["args"]) > 1 else None))
    return out


def _flatten(t, sign, acc):
    if isinstance(t, tuple) and t and t[0] == "binop" and t[1] in ("Add", "Sub"):
        _flatten(t[2], sign, acc)
        _flatten(t[3], sign if t[1] == "Add" else -sign, acc)
    else:
        acc.append((sign, t))


def view_relative(t, S):
    """Is the index provably >= len - rows, i.e. of the form
    lines.len() - rows + (non-negative terms)?  Ranges: judged by their start
    (RangeFrom / Range) - RangeTo / RangeFull start at 0 and are absolute."""
    t = WD.strip_names(t)
    if t[0] == "adt" and t[1].startswith("core::ops::range::"):
        if t[2] in ("RangeFrom", "Range", "RangeInclusive"):
            return view_relative(t[4][0], S)
        return False
    acc = []
    _flatten(t, 1, acc)
    pos = [x for s_, x in acc if s_ > 0]
    neg = [x for s_, x in acc if s_ < 0]
    has_len = any(x[0] == "call" and x[1].endswith("::len") and S.lines_field in repr(x) for x in pos)
    rows = ("load", ("arg1", S.buf_rows))
    return has_len and neg == [rows]


def view_rules(ctx, w, S, R, T):
    E = w.E
    ctx.rule("D4", "command handlers address the line vector only relative to the view (index >= len - rows); absolute indices are confined to construction, resize and the trim")
    exempt = set(E.reachable_fns([S.buffer_resize_fn])) | {T.trim_fn, T.buf_gc, S.buffer_ctor}
    n = 0
    from rules import c06 as _c06, prims as _pr
    _up, _down = _c06.scroll_prims(w, S)
    scroll_fns = {f for f in (_up, _down) if f}
    scroll_sem = _pr.scroll_ok(w, S)
    handler_reach = E.reachable_fns([w.anchors["execute"]])
    for fn in sorted(w.bodies):
        if S._impl_of(fn) != S.buffer_ty and not fn.startswith("<" + S.buffer_ty + " as "):
            continue
        if fn not in handler_reach:
            continue          # read-only query accessors (lines(), text(), dump()) see the whole vector by design
        if fn in exempt and fn not in E.reachable_fns([c for c in [scroll_up_fn(w, S)] if c]):
            continue
        for cs, name, mut, idx in lines_accesses(w, S, fn):
            if name in ("len", "is_empty", "iter", "reserve", "extend", "push", "capacity", "deref", "as_slice"):
                # whole-vector operations: iter() is read-only traversal (text/dump), extend/push append below the view
                if name in ("iter",) and fn in E.reachable_fns([w.anchors["execute"]]):
                    ctx.violation("D4", "%s:%s" % (fn, shared.site_key(w, fn, cs.point)), "%s iterates over the whole line vector (scrollback included) inside a command handler" % fn, loc=w.site_loc(cs))
                continue
            if fn in exempt:
                continue
            n += 1
            ok = idx is not None and view_relative(idx, S)
            if not ok and fn in scroll_fns and scroll_sem:
                ok = True             # inside the scroll primitives the specification (rows above the view untouched, for every geometry) decides it
            ctx.check(ok, "D4", "%s:%s" % (fn, shared.site_key(w, fn, cs.point)),
                      "%s accesses the line vector with %s(%s), which is not relative to the view (len - rows + k): rows that already scrolled off can be altered, or the result depends on how much scrollback happens to be retained"
                      % (fn, name, w.tstr(fn, idx) if idx is not None else ""), loc=w.site_loc(cs), sample={"fn": fn, "op": name, "index": w.tstr(fn, idx) if idx is not None else None})
    ctx.floor("D4", 3, "view-relative accesses of the line vector")


def scroll_up_fn(w, S):
    from rules import c06
    return c06.scroll_prims(w, S)[0]


def stream_rules(ctx, w, S, R, T):
    E = w.E
    ctx.rule("D3", "Changes.scrollback is Terminal::gc's iterator unchanged; the collector feeds every element to the unwrapper, and flush() appends lines() and then the carry-over")
    for api in (WD.VT_FEED_STR, WD.VT_RESIZE):
        ep = shared.Epilogue(w, S, api)
        agg = ep.changes_aggregate()
        if agg is None:
            ctx.violation("D3", api + ":scrollback", "%s does not build a vt::Changes value" % api, loc=w.fn_loc(api))
        else:
            hfn, hpt, flds = agg
            t = WD.strip_names(flds.get("scrollback"))
            while t[0] == "cast":
                t = t[1]
            ctx.check(t[0] == "call" and t[1] == T.term_gc, "D3", api + ":scrollback", "Changes.scrollback of %s is %s, not the gc iterator" % (api, w.tstr(hfn, t)), loc=w.stmt_loc(hfn, hpt),
                      sample={"api": api, "scrollback": w.tstr(hfn, t)})
        ctx.check(ep.on_every_path(T.term_gc) and ep.returned_unchanged(), "D3", api + ":gc", "%s does not run the gc on every path" % api, loc=w.fn_loc(api))
    # TextCollector
    for fn in ("util::TextCollector::feed_str", "util::TextCollector::resize"):
        if fn not in w.bodies:
            ctx.missing_anchor("D3", fn)
            continue
        TT = w.terms(fn)
        b = w.body(fn)
        rts = [WD.strip_names(TT.local(0, (rb, b.n_stmts(rb)))) for rb in b.return_blocks()]
        t = rts[0] if rts else None
        ok = False
        if t and t[0] == "call" and t[1].endswith("Iterator::filter_map"):
            src, clo = t[2]
            ok = "scrollback" in repr(src) and clo[0] == "closure"
            if ok:
                cc = [c for c in E.call_sites(clo[1]) if c.local]
                ok = [c.callee for c in cc] == ["util::TextUnwrapper::push"]
        ctx.check(ok, "D3", fn, "%s must return scrollback.filter_map(|l| unwrapper.push(&l)); found %s" % (fn, w.tstr(fn, t) if t else None), loc=w.fn_loc(fn), sample={"fn": fn})
    fn = "util::TextCollector::flush"
    if fn in w.bodies:
        TT = w.terms(fn)
        b = w.body(fn)
        calls = [cs for cs in E.call_sites(fn)]
        lines = [cs for cs in calls if cs.callee == "vt::Vt::lines"]
        ext = [cs for cs in calls if cs.callee.endswith("::extend")]
        fl = [cs for cs in calls if cs.callee == "util::TextUnwrapper::flush"]
        ok = len(lines) == 1 and len(ext) == 1 and len(fl) == 1 and b.point_dominates(lines[0].point, ext[0].point)
        if ok:
            a = TT.operand(ext[0].term["args"][1], ext[0].point)
            ok = "TextUnwrapper::flush" in repr(a)
        # no take/skip/filter between lines() and the collect
        bad = [cs.callee for cs in calls if cs.callee.rsplit("::", 1)[-1] in ("take", "skip", "filter", "step_by", "rev", "skip_while", "take_while")]
        ctx.check(ok and not bad, "D3", fn, "%s must collect every element of lines() through the unwrapper and then append the unwrapper's carry-over (suspicious adaptors: %s)" % (fn, bad), loc=w.fn_loc(fn),
                  sample={"fn": fn, "adaptors": bad})
    else:
        ctx.missing_anchor("D3", fn)
    ctx.floor("D3", 6, "stream obligations")
    unwrapper_rules(ctx, w)


def unwrapper_rules(ctx, w, rule="D3u"):
    """Reader agreement of the two unwrappers (shared with C09)."""
    E = w.E
    ctx.rule(rule, "the unwrapper appends the untrimmed row while the row is soft-wrapped and emits (trimmed) exactly when it is not, on every path")
    fn = "util::TextUnwrapper::push"
    if fn not in w.bodies:
        ctx.missing_anchor(rule, fn)
        return
    b = w.body(fn)
    T = w.terms(fn)
    wrapped_t = None
    sw = None
    for bl in sorted(b.normal_blocks()):
        t = b.term(bl)
        if t["k"] == "switch":
            c = WD.strip_names(T.operand(t["discr"], (bl, b.n_stmts(bl))))
            if c[0] == "load" and c[1][0] == "arg2" and len(c[1]) == 2:
                sw = (bl, t, c)
    if not sw:
        ctx.violation(rule, fn + ":test", "%s does not branch on the row's soft-wrap mark" % fn, loc=w.fn_loc(fn))
        return
    bl, t, c = sw
    # exactly one switch; every path passes it; no other condition
    others = [x for x in b.normal_blocks() if b.term(x)["k"] == "switch" and x != bl]
    ctx.check(not others, rule, fn + ":only-test", "%s takes decisions other than `line.wrapped` (%d extra branch(es)): whether a logical line is emitted must depend on the wrap mark alone" % (fn, len(others)),
              loc=w.fn_loc(fn), sample={"extra_branches": len(others)})
    f_edge = [tgt for v, tgt in t["targets"] if v == 0][0]
    t_edge = t["otherwise"]
    for cs in E.call_sites(fn):
        nm = cs.term["callee"].get("decl_name")
        if nm == "trim_end":
            ctx.check(b.edge_controls((bl, f_edge), cs.point[0]), rule, fn + ":trim", "%s trims a row that is soft-wrapped (interior blanks of a logical line would be lost)" % fn, loc=w.site_loc(cs))
        if nm in ("take", "replace"):
            ctx.check(b.edge_controls((bl, f_edge), cs.point[0]), rule, fn + ":emit", "%s emits the accumulated line while the row is soft-wrapped" % fn, loc=w.site_loc(cs))
    pushes = [cs for cs in E.call_sites(fn) if cs.term["callee"].get("decl_name") == "push_str"]
    on_t = [cs for cs in pushes if b.edge_controls((bl, t_edge), cs.point[0])]
    on_f = [cs for cs in pushes if b.edge_controls((bl, f_edge), cs.point[0])]
    ctx.check(len(on_t) >= 1 and len(on_f) >= 1, rule, fn + ":append", "%s must append the row's text on both branches (wrapped: untrimmed; not wrapped: trimmed)" % fn, loc=w.fn_loc(fn),
              sample={"appends_when_wrapped": len(on_t), "appends_when_not": len(on_f)})
    # returns Some exactly on the not-wrapped branch
    rets = w.assign_sites({fn}, lambda p: False)
    some_blocks = []
    none_blocks = []
    for bb in sorted(b.normal_blocks()):
        for i, s in enumerate(b.blocks[bb]["stmts"]):
            if s["k"] == "assign" and s["place"]["local"] == 0 and s["rv"]["k"] == "aggregate" and s["rv"].get("adt") == "core::option::Option":
                (some_blocks if s["rv"]["variant"] == "Some" else none_blocks).append(bb)
    ok = some_blocks and none_blocks and all(b.edge_controls((bl, f_edge), x) for x in some_blocks) and all(b.edge_controls((bl, t_edge), x) for x in none_blocks)
    ctx.check(ok, rule, fn + ":result", "%s must return Some(line) exactly when the row is not soft-wrapped and None when it is" % fn, loc=w.fn_loc(fn), sample={"some": len(some_blocks), "none": len(none_blocks)})


def run(ctx, w):
    _run(ctx, w)
    # which mode numbers switch screens (47 / 1047 / 1049) and which finals scroll is part of the statement: the control
    # functions must be decoded as specified
    from rules import c03
    shared.embed(ctx, w, c03.dispatch_rules)
