"""C16 - the alternate screen never disturbs the primary screen."""
import hir as H
import mir as M
import world as WD
from rules import shared


def switch_fns(w, S, R):
    """Functions that exchange the two screen buffers (mem::swap of the two
    buffer fields)."""
    E = w.E
    out = {}
    for f in sorted(S.terminal_scope):
        T = w.terms(f)
        for cs in E.call_sites(f):
            if cs.callee.endswith("mem::swap"):
                a = [WD.strip_names(T.operand(x, cs.point)) for x in cs.term["args"]]
                paths = sorted(x[2][1][1] for x in a if x[0] == "ref" and x[2][0] == "load" and len(x[2][1]) == 2)
                if paths == sorted(S.buffer_fields):
                    out.setdefault(f, []).append(cs)
    return out


def relayout_after_switch(ctx, w, S, R, rule="P7"):
    """Every call of a buffer-switch routine is followed, on every path to the
    caller's return, by the re-layout routine (lazy resize of the buffer that
    was parked, clamp of the saved context swapped in)."""
    E = w.E
    ctx.rule(rule, "every screen switch is followed by the re-layout routine on every path (the parked buffer and its saved cursor may have a stale size)")
    sw = switch_fns(w, S, R)
    n = 0
    for f in sorted(S.terminal_scope):
        b = w.body(f)
        rl = {cs.point for cs in E.call_sites(f) if cs.callee in S.relayout_fns}
        for cs in E.call_sites(f):
            if cs.callee in sw:
                n += 1
                ok = b.every_path_to_return_hits(cs.point, rl)
                ctx.check(ok, rule, "%s:%s" % (f, shared.site_key(w, f, cs.point)),
                          "%s switches screens (%s) but some path returns without re-laying out: after a resize during the excursion the screen swapped in keeps a stale size" % (f, cs.callee),
                          loc=w.site_loc(cs), sample={"fn": f, "switch": cs.callee})
    for f in sw:
        # a switch routine that re-lays out itself is fine too
        pass
    if n < 4:
        ctx.violation(rule, "floor", "only %d screen-switch call sites found (4 confirmed by reading: enter/leave for 47|1047 and 1049)" % n)


def _run(ctx, w):
    S = shared.screen(w)
    R = shared.roles(w)
    E = w.E
    act, park = S.active_buffer, S.parked_buffer
    ctx.explanation = ("Isolation of the primary screen is decided as ownership/frame rules: who can write or borrow the parked buffer, that every command handler's write set "
                       "avoids it, that text() reads the primary through the role accessor, and ordering/guard rules on the three enter/leave mode handlers.")
    ctx.decided = ["P1 the parked buffer is written only by the constructor, the two switch routines and the hard reset; read only through the role accessors",
                   "P2 no command handler other than DECSET/DECRST/RIS can write the parked buffer", "P3 text() reads the primary buffer whichever screen is active",
                   "P4 entering builds a fresh alternate buffer (current size, no scrollback, current pen) after the swap", "P5 1049: save before entering, restore after leaving",
                   "P6 enter only from the primary, leave only from the alternate (mixed 47/1047/1049 cannot double-swap)", "P7 re-layout after every switch", "P8 the alternate screen's scrolled-off lines never reach the scrollback stream"]
    ctx.not_decided = ["content preservation of the primary when it is re-wrapped after a resize during the excursion (C10)"]
    sw = switch_fns(w, S, R)
    if len(sw) != 2:
        ctx.missing_anchor("P1", "the two buffer-switch routines", "(found %s)" % sorted(sw))
        return

    ctx.rule("P1", "the parked buffer is written only by the constructor, the switch routines and the hard reset, and read only by the role accessors")
    ris_reach = w.handler_reach("Ris")
    accessors = set()
    for fn in sorted(w.bodies):
        if S._impl_of(fn) != S.term_ty or "impl_trait" in w.facts.fns.get(fn, {}):
            continue          # derived Debug etc. are not part of the terminal's behaviour
        b = w.body(fn)
        is_ctor = any(s["k"] == "assign" and s["rv"]["k"] == "aggregate" and s["rv"].get("adt") == S.term_ty for bl in b.blocks for s in bl["stmts"])
        wr = [pt for pt, ps in E.stmt_writes[fn].items() if any(p[:2] == ("arg1", park) for p in ps)]
        wr += [cs.point for cs in E.call_sites(fn) if not (cs.local and S._impl_of(cs.callee) == S.term_ty) and any(p[:2] == ("arg1", park) for p in cs.W)]
        if wr:
            ctx.check(fn in sw or fn in ris_reach or is_ctor, "P1", "writer:" + fn, "%s writes the parked screen buffer: something done on one screen alters the other" % fn, loc=w.stmt_loc(fn, wr[0]),
                      sample={"writer": fn})
        rd = [pt for pt, ps in E.stmt_reads[fn].items() if any(p[:2] == ("arg1", park) for p in ps)]
        refs = []
        for bl in b.normal_blocks():
            for i, s in enumerate(b.blocks[bl]["stmts"]):
                if s["k"] == "assign" and s["rv"]["k"] == "ref":
                    p = w.definite_path(fn, s["rv"]["place"])
                    if p and p[:2] == ("arg1", park):
                        refs.append(((bl, i), s["rv"]["mut"]))
        if refs and fn not in sw:
            if any(m for _, m in refs):
                ctx.check(fn in ris_reach or is_ctor, "P1", "mutborrow:" + fn, "%s takes a mutable borrow of the parked screen buffer" % fn, loc=w.stmt_loc(fn, refs[0][0]))
            else:
                accessors.add(fn)
    # shared borrows only in functions returning &Buffer chosen by the active-type flag
    for fn in sorted(accessors):
        fo = w.facts.fns.get(fn, {})
        ok = (fo.get("output") or {}).get("s") == "&%s" % S.buffer_ty
        ctx.check(ok, "P1", "reader:" + fn, "%s reads the parked buffer but is not a role accessor returning &Buffer" % fn, loc=w.fn_loc(fn), sample={"accessor": fn})
    ctx.floor("P1", 4, "parked-buffer access sites")

    ctx.rule("P2", "no control function other than DECSET/DECRST/RIS (and the disabled XTWINOPS) can write the parked buffer")
    for v in w.anchors["function_variants"]:
        hit = sorted({M.path_str(p) for p in w.handler_W(v) if p[:2] == ("arg1", park)})
        if v in ("Decset", "Decrst", "Ris"):
            ctx.ok("P2", v, {"function": v, "writes_parked": hit[:2]})
            continue
        ctx.check(not hit, "P2", v, "Function::%s may write the parked screen buffer (%s)" % (v, hit[:3]), loc=w.fn_loc(w.handler(v)[0]), sample={"function": v, "writes_parked": hit})
    ctx.floor("P2", 45, "Function variants")

    # ---- P3 --------------------------------------------------------------------------------------
    ctx.rule("P3", "text() reads the primary buffer: the role accessor returns the active buffer iff the active type is Primary")
    abt = ("load", ("arg1", R["active_buffer_type"]))
    chain_ok = False
    prim_acc = None
    if "vt::Vt::text" in w.bodies:
        for cs in E.call_sites("vt::Vt::text"):
            if cs.local:
                for c2 in E.call_sites(cs.callee):
                    if c2.local and c2.callee in accessors:
                        prim_acc = c2.callee
                        # its result is what the text routine is applied to
                        T2 = w.terms(cs.callee)
                        for c3 in E.call_sites(cs.callee):
                            if c3.local and S._impl_of(c3.callee) == S.buffer_ty:
                                recv = T2.operand(c3.term["args"][0], c3.point)
                                chain_ok = prim_acc in repr(recv)
    ctx.check(chain_ok, "P3", "chain", "Vt::text() does not read the buffer returned by a role accessor (accessor found: %s)" % prim_acc, sample={"accessor": prim_acc})
    if prim_acc:
        b = w.body(prim_acc)
        T = w.terms(prim_acc)
        for bl in sorted(b.normal_blocks()):
            for i, s in enumerate(b.blocks[bl]["stmts"]):
                if s["k"] == "assign" and s["rv"]["k"] == "ref":
                    p = w.definite_path(prim_acc, s["rv"]["place"])
                    if not p or p[1] not in S.buffer_fields or len(p) != 2:
                        continue
                    gs = [(WD.strip_names(c), v) for c, v in w.guards_of(prim_acc, bl)]
                    is_primary = None
                    for c, v in gs:
                        sc = repr(c)
                        if R["active_buffer_type"] in sc and "Primary" in sc and "eq" in sc:
                            is_primary = bool(v)
                        if R["active_buffer_type"] in sc and "Alternate" in sc and "eq" in sc:
                            is_primary = not bool(v)
                        if c[0] == "discr" and R["active_buffer_type"] in sc:
                            vs = w.facts.adts["terminal::BufferType"]["variants"] if "terminal::BufferType" in w.facts.adts else []
                            names = {x["discr"]: x["name"] for x in vs}
                            if isinstance(v, int):
                                is_primary = names.get(v) == "Primary"
                    want_primary = p[1] == act
                    if not (is_primary is not None and is_primary == want_primary) and _accessor_semantics(w, S, R, prim_acc, act):
                        is_primary = want_primary       # the test has a shape the matcher does not know (matches!, a helper): decided by evaluation
                    ctx.check(is_primary is not None and is_primary == want_primary, "P3", "%s:%s" % (prim_acc, p[1]),
                              "%s hands out `%s` when the active type %s Primary: text() would read the wrong screen" % (prim_acc, p[1], "is" if is_primary else "is not"), loc=w.stmt_loc(prim_acc, (bl, i)),
                              sample={"accessor": prim_acc, "returns": p[1], "when_active_is_primary": is_primary})
    ctx.floor("P3", 3, "role accessor cells")

    # ---- P4/P5/P6 -----------------------------------------------------------------------------------------
    ctx.rule("P4", "entering the alternate screen builds a fresh buffer after the swap: Buffer::new(cols, rows, Some(0), Some(&pen))")
    ctx.rule("P6", "the swap happens only under the matching active-type test, and the flag is updated with it")
    enter = leave = None
    for f, css in sw.items():
        T = w.terms(f)
        b = w.body(f)
        sets = [WD.strip_names(t) for fn, pt, p, t in w.assign_sites({f}, lambda p: p == ("arg1", R["active_buffer_type"]))]
        to_alt = any("Alternate" in repr(t) for t in sets)
        to_prim = any("Primary" in repr(t) for t in sets)
        if to_alt and not to_prim:
            enter = f
        elif to_prim and not to_alt:
            leave = f
        else:
            ctx.violation("P6", f + ":flag", "%s swaps the buffers without setting the active-type flag to exactly one value" % f, loc=w.fn_loc(f))
            continue
        for cs in css:
            gs = [(WD.strip_names(c), v) for c, v in w.guards_of(f, cs.point[0])]
            want = "Primary" if to_alt else "Alternate"
            names = {x["discr"]: x["name"] for x in w.facts.adts.get("terminal::BufferType", {}).get("variants", [])}
            ok = False
            for c, v in gs:
                if c == ("discr", ("load", ("arg1", R["active_buffer_type"]))) and isinstance(v, int) and names.get(v) == want:
                    ok = True
                sc = repr(c)
                if R["active_buffer_type"] in sc and "eq" in sc and want in sc and v is True:
                    ok = True
            if not ok:
                # a guard of another shape (early return on `!=`, matches!, ...): the per-mode decision table (P14) evaluates every switching mode
                # from BOTH screens and demands that nothing changes from the wrong one
                from rules import hinterp as _hi
                c_ = getattr(w.facts, "_mode_verdict", None)
                if c_ is None:
                    try:
                        c_ = _hi.mode_semantics(w, S, R)
                    except Exception as ex_:
                        c_ = ([("evaluation", repr(ex_))], 0)
                    w.facts._mode_verdict = c_
                ok = not c_[0] and c_[1] >= 200
            ctx.check(ok, "P6", f + ":guard", "%s swaps the buffers without having established that the active screen is the %s one (guards: %s): a second enter/leave would swap twice" % (f, want.lower(), [(w.tstr(f, c), v) for c, v in gs]),
                      loc=w.site_loc(cs), sample={"fn": f, "guards": [(w.tstr(f, c), v) for c, v in gs]})
    if enter:
        T = w.terms(enter)
        b = w.body(enter)
        from rules import c06 as _c06
        news = _c06.ctor_sites(w, S, enter)
        ok = len(news) == 1
        if ok:
            cs, a = news[0]
            want = [("load", ("arg1", R["cols"])), ("load", ("arg1", R["rows"])), ("adt", "core::option::Option", "Some", ("0",), (("const", 0),)),
                    ("adt", "core::option::Option", "Some", ("0",), (("ref", False, ("load", ("arg1", R["pen"]))),))]
            dest = w.definite_path(enter, cs.term["dest"])
            # stored into the active buffer after the swap
            stored = dest == ("arg1", act) or any(p == ("arg1", act) and cs.callee in repr(t) for fn, pt, p, t in w.assign_sites({enter}))
            after = all(b.point_dominates(s.point, cs.point) for s in sw[enter])
            ctx.check(a == want, "P4", "args", "the alternate buffer is built with %s; required (cols, rows, Some(0), Some(&pen)): current size, no scrollback, blank cells in the current pen" % [w.tstr(enter, x) for x in a],
                      loc=w.site_loc(cs), sample={"args": [w.tstr(enter, x) for x in a]})
            ctx.check(stored and after, "P4", "placement", "the fresh buffer is not installed as the active buffer after the swap (the primary would be overwritten or the old alternate content shown)", loc=w.site_loc(cs))
        else:
            ctx.violation("P4", "fresh", "%s builds %d new buffers; every entry must present a blank alternate screen" % (enter, len(news)), loc=w.fn_loc(enter))
    else:
        ctx.missing_anchor("P4", "enter routine")
    ctx.floor("P6", 2, "swap guards")

    ctx.rule("P5", "?1049h saves the cursor before entering; ?1049l restores it after leaving")
    from rules import c17
    save, restore = c17.routines(w, S, R)
    for v, first, second, what in (("Decset", save, enter, "save before switching"), ("Decrst", leave, restore, "switch back before restoring")):
        for h in w.handler(v):
            m, i, arm = shared.arm_for(w, h, "parser::DecMode::SaveCursorAltScreenBuffer")
            if arm is None:
                ctx.missing_anchor("P5", "1049 arm in %s" % h)
                continue
            lines = {n.get("line") for n in H.walk(arm["body"]) if isinstance(n.get("line"), int)}
            b = w.body(h)
            a = [cs for cs in E.call_sites(h) if cs.line in lines and cs.local and (cs.callee == first or first in E.reachable_fns([cs.callee]))]
            c = [cs for cs in E.call_sites(h) if cs.line in lines and cs.local and (cs.callee == second or second in E.reachable_fns([cs.callee]))]
            ok = len(a) == 1 and len(c) == 1 and b.point_dominates(a[0].point, c[0].point) and a[0].point != c[0].point
            ctx.check(ok, "P5", "%s[1049]" % v, "%s, 1049 arm: must %s (the saved contexts travel with the buffers, so the order decides which screen's context is used)" % (h, what),
                      loc=w.site_loc(a[0]) if a else w.fn_loc(h), sample={"handler": h, "order": [x.callee for x in a + c]})
    ctx.floor("P5", 2, "1049 orderings")
    from rules import c06
    c06.role_limits(ctx, w, S, R, "P9")
    from rules import c02
    c02.relayout_clears_wrap(ctx, w, S, R, "P10")
    c02.row_units(ctx, w, S, R, "P11")
    from rules import prims, c10 as _c10
    prims.ctor_semantics(ctx, w, S, "P12")
    # the primary is "re-wrapped but never altered": what a re-wrap may drop is decided by the default-cell predicate only
    _c10.q1_rules(ctx, w, S, R, S.buffer_resize_fn)
    from rules import c01 as _c01
    _c01.loop_index(ctx, w, S, _c01.api_reach(w))

    relayout_after_switch(ctx, w, S, R, rule="P7")
    from rules import c14
    c14.gc_rules(ctx, w, S, R, rule_prefix="P8")
    # "1049 saves the cursor on entry and restores it on exit ... puts the cursor back on
    # the same character": the save/restore pairing and per-screen context rules of C17
    c17.run(ctx, w, embedded=True)


def _accessor_semantics(w, S, R, acc, act):
    """The role accessor evaluated for both values of the showing-screen flag with the two buffer fields as distinct symbols: it returns
    the active field iff the flag is Primary, the parked one otherwise."""
    import symeval as SE
    tfield = [f for f in w.facts.struct_fields(S.term_ty) if f["name"] == R["active_buffer_type"]][0]
    tadt = tfield["ty"].get("adt")
    try:
        variants = w.facts.enum_variants(tadt)
        if sorted(variants) != ["Alternate", "Primary"]:
            return False
        for var in variants:
            st = {f["name"]: ("sym", "F_" + f["name"]) for f in w.facts.struct_fields(S.term_ty)}
            st[R["active_buffer_type"]] = ("v", "%s::%s" % (tadt, var))
            r = SE.Interp(w.facts).call_fn(acc, [("obj", S.term_ty, st)])
            while isinstance(r, tuple) and r and r[0] == "ref":
                r = r[-1]
            parked = [b_ for b_ in S.buffer_fields if b_ != act][0]
            if r != ("sym", "F_" + (act if var == "Primary" else parked)):
                return False
        return True
    except Exception:
        return False


def run(ctx, w):
    _run(ctx, w)
    shared.mode_rule(ctx, w, shared.screen(w), shared.roles(w), "P14")
    # the commands of this property must first of all be DECODED as specified (selector values, parameter slots, finals)
    from rules import c03
    shared.embed(ctx, w, c03.dispatch_rules)
    # "re-wrapped to the new size but never altered" / "on return all geometry invariants hold": the structural clauses of the
    # re-layout (C10) and the trim request after every growth of the line vector (C13.L3) are conditions of this property too
    from rules import c10, c13, c14
    shared.embed(ctx, w, c10.run)
    S_, R_ = shared.screen(w), shared.roles(w)
    T_ = c14.Trim(w, S_, R_)
    if T_.ok:
        c13.growth_flag_rule(ctx, w, S_, R_, T_, "P13")
