"""C03 - the parser follows the DEC/ANSI state machine; dispatch is exact and
memoryless.  Decided exhaustively from the extracted tables (A1)."""
import hir as H
import mir as M
import reference as REF
import world as WD
from rules import tables


def fmt_atom(a):
    return "U+%04X" % a[0] if a[1] - a[0] == 1 else "U+%04X..U+%04X" % (a[0], a[1] - 1)


def roles(tb):
    """Which dispatcher plays which role, read off three canonical cells."""
    r = {}
    c = tb.cell("Ground", 0x08)
    r["execute"] = c.tails[0] if c.tails else None
    c = tb.cell("Escape", 0x30)
    r["esc_dispatch"] = c.tails[0] if c.tails else None
    c = tb.cell("CsiEntry", 0x40)
    r["csi_dispatch"] = c.tails[0] if c.tails else None
    return r


def observed_action(cell, role_of):
    """Map an extracted cell to the reference vocabulary."""
    acts = [a for a in cell.actions if a != "noop"]
    clear = "clear" in acts
    acts = [a for a in acts if a != "clear"]
    if cell.kind() == "print":
        return "print", clear, acts
    if cell.tails:
        return role_of.get(cell.tails[0], "dispatch:" + cell.tails[0]), clear, acts
    if cell.result is not None:
        return "returns:" + repr(cell.result)[:40], clear, acts
    if len(acts) == 1 and acts[0] in ("collect", "param"):
        return acts[0], clear, []
    if not acts:
        return ("none" if cell.next_state != cell.state else "ignore"), clear, []
    return "+".join(acts), clear, []


def run_transition(ctx, w, tb, only_states=None, rule="T1"):
    role = roles(tb)
    role_of = {v: k for k, v in role.items() if v}
    ctx.rule(rule, "for every state and every code point: next state, action kind and entry-clear agree with Williams' table (+ the stated deviations)")
    if len(set(role.values())) != 3 or None in role.values():
        ctx.violation(rule, "roles", "cannot identify the three dispatchers from the canonical cells (Ground/BS, Escape/0, CsiEntry/@): %r" % role)
        return role
    if sorted(tb.states) != sorted(REF.STATES):
        ctx.violation(rule, "states", "parser states %s differ from Williams' 14 states" % tb.states)
        return role
    for st in tb.states:
        if only_states and st not in only_states:
            continue
        for a in tb.atoms:
            cell = tb.cell(st, a[0])
            # reference must be uniform on the atom too: check both ends and the middle
            refs = {REF.transition(st, x) for x in (a[0], a[1] - 1, (a[0] + a[1]) // 2)}
            if len(refs) != 1:
                # refine: the reference distinguishes inside this atom -> compare pointwise
                pts = range(a[0], a[1]) if a[1] - a[0] <= 4096 else (a[0], a[1] - 1)
            else:
                pts = (a[0],)
            for x in pts:
                rn, ra, rc = REF.transition(st, x)
                c = cell if x == a[0] else tb.cell(st, x)
                oa, oc, extra = observed_action(c, role_of)
                # 'ignore' and 'none' differ only by whether the state changes
                if ra == "none" and rn == st:
                    ra = "ignore"
                want = (rn, ra, rc)
                got = (c.next_state, oa if not extra else oa + "+" + "+".join(extra), oc)
                # a dispatching/executing arm must leave in the reference state
                ok = want == got
                if ok and ra in ("execute", "esc_dispatch", "csi_dispatch") and st != "EscapeIntermediate":
                    # the function produced (no intermediate collected) for both ends of the atom
                    for y in sorted({x, (a[1] - 1) if x == a[0] else x}):
                        o2 = tb.step(st, y)
                        res = tables.describe(o2.result)
                        if ra == "execute":
                            wres = REF.EXECUTE.get(y)
                        elif ra == "esc_dispatch":
                            wres = REF.esc(None, y) if y <= 0x7E else None
                        else:
                            wres = REF.csi(None, y) if y <= 0x7E else None
                        if isinstance(wres, tuple) and isinstance(res, tuple) and len(res) == 2 and isinstance(res[1], tuple) and res[1] and res[1][0] in ("modes", "collect"):
                            continue      # symbolic payloads are compared in T5/T6
                        if res != wres:
                            ok = False
                            got = got + ("result %r for U+%04X, reference %r" % (res, y, wres),)
                ctx.check(
                    ok, rule, "%s/%s" % (st, fmt_atom(a) if x == a[0] else "U+%04X" % x),
                    "state %s, input %s: reference says next=%s action=%s clear=%s but the code does next=%s action=%s clear=%s (arm %s)%s"
                    % (st, fmt_atom(a), rn, ra, rc, got[0], got[1], got[2], c.arm, ("; " + got[3]) if len(got) > 3 else ""),
                    loc=c.loc,
                    sample={"state": st, "input": fmt_atom(a), "next": got[0], "action": got[1], "clear": got[2], "arm": c.arm},
                )
    return role


def pointwise(ctx, w, tb, role, rule="T1x"):
    """Thorough tier: the comparison with the reference is repeated for EVERY
    Unicode scalar value individually (not per atom): 14 x 1,112,064 lookups.
    This cross-checks the interval partition itself."""
    ctx.rule(rule, "every (state, code point) pair individually: extracted cell of the code point's atom == reference transition")
    role_of = {v: k for k, v in role.items() if v}
    bad = 0
    total = 0
    import bisect
    starts = [a[0] for a in tb.atoms]
    for st in tb.states:
        cache = {}
        for a in tb.atoms:
            c = tb.cell(st, a[0])
            oa, oc, extra = observed_action(c, role_of)
            cache[a] = (c.next_state, oa if not extra else oa + "+" + "+".join(extra), oc)
        for x in range(0, 0x110000):
            if 0xD800 <= x < 0xE000:
                continue
            a = tb.atoms[bisect.bisect_right(starts, x) - 1]
            rn, ra, rc = REF.transition(st, x)
            if ra == "none" and rn == st:
                ra = "ignore"
            total += 1
            if cache[a] != (rn, ra, rc):
                bad += 1
                if bad <= 10:
                    ctx.violation(rule, "%s/U+%04X" % (st, x), "state %s, U+%04X: reference (%s,%s,%s) vs code %s" % (st, x, rn, ra, rc, cache[a]))
    if bad == 0:
        ctx.ok(rule, "all", {"pairs_compared": total})
    ctx.rule_counts[rule] = total
    ctx.extra["pointwise_pairs"] = total


def run(ctx, w):
    tb = tables.parser_tables(w)
    ctx.explanation = (
        "The complete transition function of the parser (14 states x all Unicode scalar values, via the exact "
        "interval partition induced by the literals in the source) and all dispatch tables are extracted from the "
        "HIR with Rust's first-match semantics and compared with reference tables written from Williams' diagram "
        "and the control-function specifications."
    )
    ctx.decided = [
        "T1/T2 next state + action kind + entry clear for every (state, code point)",
        "T3 C0/C1 execute table", "T4 ESC dispatch incl. Fe == C1 folding", "T5 CSI dispatch (all marker/intermediate x final pairs, parameter slots)",
        "T6 ANSI/DEC mode number tables", "T7 memoryless clear (high-water mark read before reset; cells written only at the current index)",
    ]
    ctx.not_decided = ["numeric accumulation of a parameter value beyond its shape (see C01.R7)", "SGR sub-table (decided under C08.G1)"]
    ctx.exhaustive = True
    role = run_transition(ctx, w, tb)
    ctx.floor("T1", 14 * 20, "transition cells")
    if ctx.tier == "thorough":
        pointwise(ctx, w, tb, role)
    ctx.extra["atoms"] = len(tb.atoms)
    ctx.extra["dispatchers"] = role

    dispatch_rules(ctx, w, tb)

    # the first-part accessor used for ps[k] really returns part 0
    ctx.rule("T5a", "the accessor used for `parameter k` returns the parameter's first value")
    accs = set()
    for n in H.walk(w.hir(role["csi_dispatch"])["body"]):
        if H.is_k(n, "mcall") and n.get("callee_local") and (w.facts.fns.get(n["callee"], {}).get("output") or {}).get("s") == "u16":
            accs.add(n["callee"])
    for acc in sorted(accs):
        b = w.body(acc)
        T = w.terms(acc)
        rts = [T.local(0, (rb, b.n_stmts(rb))) for rb in b.return_blocks()]
        ok = all(t[0] == "load" and len(t[1]) == 3 and t[1][0] == "arg1" and isinstance(t[1][2], tuple) and t[1][2][0] == "idx" and t[1][2][1] == ("const", 0)
                 or (t[0] == "load" and len(t[1]) == 3 and t[1][2] == ("cidx", 0, False)) for t in rts)
        ctx.check(ok, "T5a", acc, "%s does not return element 0 of the parameter's parts: %s" % (acc, [w.tstr(acc, t) for t in rts]),
                  loc=w.fn_loc(acc), sample={"accessor": acc, "returns": [w.tstr(acc, t) for t in rts]})
    ctx.floor("T5a", 1, "parameter accessors")

    run_t7(ctx, w, tb)
    capacity(ctx, w, tb)
    # T8: parameter values are delivered as written up to 65535: the digit fold
    # never drops a digit and cannot overflow the type it computes in (C01.R7)
    from rules import c01, c08
    c01.digits(ctx, w)
    c08.decode_rules(ctx, w)
    defaults_through_helper(ctx, w)



def digit_fold(ctx, w, tb, rule="T8"):
    """T8: the digit accumulator evaluated: for every value v and digit d with 10*v + d <= 65535 (the parameter range the
    statements quantify over) the current part becomes exactly 10*v + d, no other part changes, and the value accessor
    returns the first part.  What happens beyond 65535 is not specified and not checked."""
    from rules import prims
    ctx.rule(rule, "the parameter's digit accumulator evaluated for every (v, d) of a boundary-covering set with 10*v+d <= 65535: the current part becomes exactly 10*v+d, nothing else changes; "
                   "the value accessor returns part 0 (counts and coordinates up to 65535 reach the handlers as written)")
    pty = tb.param_ty
    fl = w.facts.struct_fields(pty) or []
    arr = [f for f in fl if f["ty"].get("array") and f["ty"]["array"]["s"] == "u16"]
    idx = [f for f in fl if f["ty"]["s"] == "usize"]
    fold = [fn for fn, fo in w.facts.fns.items() if (fo.get("impl_self") or {}).get("adt") == pty and [i["s"] for i in fo.get("inputs", [])][1:] == ["u8"] and fn in w.facts.hir]
    acc = [fn for fn, fo in w.facts.fns.items() if (fo.get("impl_self") or {}).get("adt") == pty and len(fo.get("inputs", [])) == 1 and (fo.get("output") or {}).get("s") == "u16"
           and "impl_trait" not in fo and fn in w.facts.hir]
    if len(arr) != 1 or len(idx) != 1 or len(fold) != 1 or len(acc) != 1:
        ctx.missing_anchor(rule, "parameter cell (u16 parts + index), its digit accumulator and value accessor", "(%s / %s / %s / %s)" % ([f["name"] for f in arr], [f["name"] for f in idx], fold, acc))
        return
    an, xn, n_parts = arr[0]["name"], idx[0]["name"], arr[0]["ty"]["len"]
    vals = sorted({0, 1, 2, 5, 9, 10, 11, 42, 99, 100, 255, 256, 655, 656, 999, 1000, 4095, 6552, 6553})
    n = bad = 0
    for cur in sorted({0, n_parts - 1}):
        for v in vals:
            for d in range(10):
                want = 10 * v + d
                if want > 0xFFFF:
                    continue
                parts = [7000 + i for i in range(n_parts)]
                parts[cur] = v
                obj = ("obj", pty, {an: prims.Vec(list(parts)), xn: cur})
                try:
                    prims.VecInterp(w.facts).call_fn(fold[0], [obj, d])
                    got = list(obj[2][an].items)
                    gi = obj[2][xn]
                    first = prims.VecInterp(w.facts).call_fn(acc[0], [obj])
                except prims.errs() as ex:
                    got, gi, first = "error: %s" % (ex,), cur, None
                exp = list(parts)
                exp[cur] = want
                n += 1
                if got != exp or gi != cur or first != exp[0]:
                    bad += 1
                    if bad <= 4:
                        ctx.violation(rule, "%s(%d,%d)@%d" % (fold[0], v, d, cur), "%s on a part holding %d with digit %d gives parts %s (index %s), value accessor %s; expected the part to become %d, everything else unchanged, accessor = part 0" %
                                      (fold[0], v, d, got, gi, first, want), loc=w.fn_loc(fold[0]))
    if not bad:
        ctx.ok(rule, "all", {"cases": n, "fold": fold[0], "accessor": acc[0]})
    ctx.rule_counts[rule] = n


def dispatch_rules(ctx, w, tb=None):
    """T3-T6: every control, ESC and CSI sequence yields exactly the implemented function with the right parameter
    slots (shared by the command-level properties: a command that is decoded wrongly cannot act rightly)."""
    tb = tb or tables.parser_tables(w)
    digit_fold(ctx, w, tb)
    ctx.rule("T2e", "ESC from every state enters Escape and clears intermediate and parameters (a two-character escape is never dispatched under a stale marker)")
    for st in tb.states:
        cell = tb.cell(st, 0x1B)
        ctx.check(cell.next_state == "Escape" and "clear" in cell.actions and cell.result is None, "T2e", "ESC@" + st,
                  "in state %s ESC does not abort into Escape with intermediate / parameters cleared (next=%s actions=%s)" % (st, cell.next_state, cell.actions), loc=cell.loc)
    ctx.floor("T2e", 14, "states")
    # ---- T3 execute table, in every state that executes ---------------------------------
    ctx.rule("T3", "every C0/C1 control yields exactly the implemented function (or nothing), in every state that executes it")
    for st in tb.states:
        for ch in list(range(0x00, 0x20)) + list(range(0x80, 0xA0)) + [0x7F]:
            rn, ra, rc = REF.transition(st, ch)
            if ra != "execute":
                continue
            out = tb.step(st, ch)
            got = tables.describe(out.result)
            want = REF.EXECUTE.get(ch)
            ctx.check(got == want, "T3", "%s/U+%04X" % (st, ch),
                      "control U+%04X in state %s yields %r, reference %r" % (ch, st, got, want),
                      loc=tb.cell(st, ch).loc, sample={"state": st, "control": "U+%04X" % ch, "function": got})
    ctx.floor("T3", 14 * 10, "execute cells")

    # ---- T4 ESC dispatch -----------------------------------------------------------------
    ctx.rule("T4", "ESC <intermediate?> <final>: implemented finals yield their function, Fe acts as its C1 counterpart, everything else nothing; ends in Ground")
    for inter in [None] + list(range(0x20, 0x30)):
        st = "Escape" if inter is None else "EscapeIntermediate"
        for fin in range(0x30, 0x7F):
            rn, ra, rc = REF.transition(st, fin)
            if ra != "esc_dispatch":
                continue
            out = tb.step(st, fin, tables.NONE if inter is None else inter)
            got = tables.describe(out.result)
            want = REF.esc(inter, fin)
            ns = out.next_state or st
            ctx.check(got == want and ns == "Ground", "T4", "ESC %s%s" % (chr(inter) if inter else "", chr(fin)),
                      "ESC %s%s yields %r and ends in %s; reference %r ending in Ground" % (chr(inter) if inter else "", chr(fin), got, ns, want),
                      loc=tb.cell(st, fin).loc, sample={"seq": "ESC %s%s" % (chr(inter) if inter else "", chr(fin)), "function": got})
    # Fe folding against the *extracted* C1 results
    for fin in range(0x40, 0x60):
        rn, ra, rc = REF.transition("Escape", fin)
        if ra != "esc_dispatch":
            continue
        a = tables.describe(tb.step("Escape", fin).result)
        b = tables.describe(tb.step("Ground", fin + 0x40).result)
        ctx.check(a == b, "T4", "Fe %s == C1 U+%04X" % (chr(fin), fin + 0x40),
                  "ESC %s yields %r but its 8-bit counterpart U+%04X yields %r" % (chr(fin), a, fin + 0x40, b),
                  loc=tb.cell("Escape", fin).loc)
    ctx.floor("T4", 17 * 60, "ESC dispatch cells")

    # ---- T5 CSI dispatch ----------------------------------------------------------------------
    ctx.rule("T5", "CSI <marker/intermediate?> <final>: exactly the implemented control functions with the right parameter slots; everything else nothing")
    ansi_fn = dec_fn = sgr_ty = None
    for inter in [None] + list(range(0x20, 0x30)) + list(range(0x3C, 0x40)):
        for fin in range(0x40, 0x7F):
            out = tb.step("CsiEntry", fin, tables.NONE if inter is None else inter)
            got = tables.describe(out.result)
            want = REF.csi(inter, fin)
            # normalise the three symbolic payloads
            g2 = got
            if isinstance(got, tuple) and len(got) == 2 and isinstance(got[1], tuple) and got[1] and got[1][0] in ("modes", "collect"):
                kind = got[1][0]
                if kind == "modes":
                    if got[0] in ("Sm", "Rm"):
                        ansi_fn = ansi_fn or got[1][1]
                        g2 = (got[0], ("modes", "ansi" if got[1][1] == ansi_fn else got[1][1]))
                    else:
                        dec_fn = dec_fn or got[1][1]
                        g2 = (got[0], ("modes", "dec" if got[1][1] == dec_fn else got[1][1]))
                else:
                    sgr_ty = sgr_ty or got[1][1]
                    g2 = (got[0], ("collect", "sgr" if got[1][1] == sgr_ty else got[1][1]))
            ns = out.next_state or "CsiEntry"
            ctx.check(g2 == want and ns == "Ground", "T5", "CSI %s%s" % (chr(inter) if inter else "", chr(fin)),
                      "CSI %s%s yields %r (ends in %s); reference %r" % (chr(inter) if inter else "", chr(fin), g2, ns, want),
                      loc=tb.cell("CsiEntry", fin).loc,
                      sample={"seq": "CSI %s%s" % (chr(inter) if inter else "", chr(fin)), "function": repr(g2)})
    ctx.floor("T5", 21 * 63, "CSI dispatch cells")
    # the same dispatch is reached from CsiParam and CsiIntermediate (same arm effect)
    for st in ("CsiParam", "CsiIntermediate"):
        for fin in (0x40, 0x48, 0x6D, 0x7E):
            a = tb.cell(st, fin)
            b = tb.cell("CsiEntry", fin)
            ctx.check(a.tails[:1] == b.tails[:1] and a.next_state == "Ground", "T5", "%s/%s" % (st, chr(fin)),
                      "final %s in %s does not dispatch like in CsiEntry" % (chr(fin), st), loc=a.loc)

    # ---- T6 mode tables ----------------------------------------------------------------------------
    ctx.rule("T6", "ANSI and DEC private mode numbers map to exactly the implemented modes")
    for nm, fn, ref in (("ansi", ansi_fn, REF.ANSI_MODES), ("dec", dec_fn, REF.DEC_MODES)):
        if not fn:
            ctx.missing_anchor("T6", "%s mode decoder" % nm, "(no CSI h/l arm uses one)")
            continue
        table, default = tables.mode_table(w, fn)
        for n in sorted(set(table) | set(ref)):
            ctx.check(table.get(n, default) == ref.get(n), "T6", "%s/%d" % (nm, n),
                      "%s mode %d decodes to %r, reference %r" % (nm, n, table.get(n, default), ref.get(n)),
                      loc=w.fn_loc(fn), sample={"mode": n, "decoded": table.get(n, default)})
        ctx.check(default is None, "T6", "%s/default" % nm, "unknown %s mode numbers decode to %r instead of being skipped" % (nm, default), loc=w.fn_loc(fn))
    ctx.floor("T6", 12, "mode numbers")



def defaults_through_helper(ctx, w, rule="T10"):
    """missing or 0 = default: every u16 parameter a handler receives is used
    only as the argument of the default-mapping helper (never raw)."""
    from rules import c05
    E = w.E
    ctx.rule(rule, "a numeric parameter delivered by the parser reaches the terminal only through the `0 or missing -> default` helper")
    helper = c05.default_helper(w)
    if not helper:
        ctx.missing_anchor(rule, "default helper")
        return
    n = 0
    for v in w.anchors["function_variants"]:
        var = [x for x in w.facts.adts[WD.FUNCTION]["variants"] if x["name"] == v][0]
        if not any(f["ty"]["s"] == "u16" for f in var["fields"]) and v != "Xtwinops":
            continue
        for h in w.handler(v):
            fo = w.facts.fns[h]
            T = w.terms(h)
            b = w.body(h)
            u16_args = [i + 1 for i, t in enumerate(fo["inputs"]) if t["s"] == "u16"]
            for ai in u16_args:
                raw = ("load", ("arg%d" % ai,))
                bad = []
                for blk in sorted(b.normal_blocks()):
                    bl = b.blocks[blk]
                    t = bl["term"]
                    pt = (blk, len(bl["stmts"]))
                    if t["k"] == "call":
                        callee = t["callee"].get("resolved") or ""
                        for a in t["args"]:
                            tt = WD.strip_names(T.operand(a, pt))
                            if contains_raw(tt, raw, helper) and callee != helper:
                                bad.append((pt, tt))
                    for i, st in enumerate(bl["stmts"]):
                        if st["k"] == "assign" and st["rv"]["k"] in ("binop", "cast", "aggregate"):
                            tt = WD.strip_names(T.rvalue(st["rv"], (blk, i)))
                            if contains_raw(tt, raw, helper):
                                bad.append(((blk, i), tt))
                n += 1
                uses_helper = any(WD.strip_names(T.operand(cs.term["args"][0], cs.point)) == raw for cs in E.call_sites(h, helper))
                ctx.check(not bad and uses_helper, rule, "%s:arg%d" % (v, ai),
                          "Function::%s: its numeric parameter is used raw%s instead of going through %s: a missing or 0 parameter no longer means the default" % (v, (" in " + w.tstr(h, bad[0][1])[:80]) if bad else "", helper),
                          loc=w.stmt_loc(h, bad[0][0]) if bad else w.fn_loc(h), sample={"function": v, "through_helper": uses_helper})
    ctx.floor(rule, 20, "numeric handler parameters")


def contains_raw(t, raw, helper):
    if t == raw:
        return True
    if isinstance(t, tuple):
        if t and t[0] == "call" and t[1] == helper:
            return False
        return any(contains_raw(x, raw, helper) for x in t if isinstance(x, tuple))
    return False


def capacity(ctx, w, tb, rule="T9"):
    """up to 32 parameters, up to 6 values per parameter"""
    ctx.rule(rule, "the parser keeps 32 parameters with up to 6 colon-separated values each")
    pf = [f for f in w.facts.struct_fields(tb.parser_ty) if "array" in f["ty"]][0]
    ctx.check(pf["ty"].get("len") == 32, rule, "parameters", "the parameter array holds %s entries; sequences with up to 32 parameters must be delivered as written" % pf["ty"].get("len"),
              sample={"parameters": pf["ty"].get("len")})
    sf = [f for f in w.facts.struct_fields(tb.param_ty) if "array" in f["ty"]][0]
    ctx.check(sf["ty"].get("len") == 6, rule, "sub-parameters", "a parameter holds %s values; the SGR colour forms need up to 6 (38:2::r:g:b)" % sf["ty"].get("len"), sample={"values": sf["ty"].get("len")})


def run_t7(ctx, w, tb):
    """Memorylessness of the reset."""
    E = w.E
    ctx.rule("T7a", "in every clear routine the high-water mark is read before it is reset (no read of it is reachable from its reset)")
    # clear routines: the callee(s) classified 'clear' + the per-parameter clear they call
    feed = tb.feed_fn
    clear_fns = set()
    param_fns = set()
    for cs in E.call_sites(feed):
        if cs.local:
            k = None
            try:
                k = tb.classify_action(cs.callee)
            except H.Unsupported:
                pass
            if k == "clear":
                clear_fns.add(cs.callee)
            if k == "param":
                param_fns.add(cs.callee)
    sub = set()
    for f in clear_fns:
        for cs in E.sites[f]:            # incl. local functions passed by name to an iterator adaptor
            if cs.local and cs.W and cs.callee in w.bodies and not cs.callee.startswith(f + "::{closure"):
                sub.add(cs.callee)
    n = 0
    for f in sorted(clear_fns | sub):
        b = w.body(f)
        # counters = usize fields of self both read and written here
        wr = {}
        rd = {}
        for pt, ps in E.stmt_writes[f].items():
            for p in ps:
                if p[0] == "arg1" and len(p) == 2:
                    wr.setdefault(p[1], []).append(pt)
        for pt, ps in E.stmt_reads[f].items():
            for p in ps:
                if p[0] == "arg1" and len(p) == 2:
                    rd.setdefault(p[1], []).append(pt)
        for fld in sorted(set(wr) & set(rd)):
            bad = [(wp, rp) for wp in wr[fld] for rp in rd[fld] if b.path_exists(wp, rp)]
            n += 1
            ctx.check(not bad, "T7a", "%s.%s" % (f, fld),
                      "in %s the field `%s` is read after it has been reset: the range cleared no longer covers what the previous sequence used, so stale parameters leak into the next sequence"
                      % (f, fld), loc=w.stmt_loc(f, bad[0][1]) if bad else None,
                      sample={"fn": f, "field": fld, "reset_at": [w.stmt_loc(f, p) for p in wr[fld]], "read_at": [w.stmt_loc(f, p) for p in rd[fld]]})
    ctx.floor("T7a", 2, "clear routines with a high-water mark")

    ctx.rule("T7d", "a clear routine with a high-water mark clears its storage over a range that covers everything up to and including the mark (`..=mark`, `0..mark+1` or the whole array), not a fixed cell")
    for f in sorted(clear_fns | sub):
        b = w.body(f)
        T = w.terms(f)
        fo = w.facts.fns[f]
        adt = (fo.get("impl_self") or {}).get("adt")
        arrs = [x["name"] for x in (w.facts.struct_fields(adt) or []) if x["ty"]["s"].startswith("[")]
        marks = [x["name"] for x in (w.facts.struct_fields(adt) or []) if x["ty"]["s"] == "usize"
                 and any(("arg1", x["name"]) in ps for ps in E.stmt_writes[f].values()) and any(("arg1", x["name"]) in ps for ps in E.stmt_reads[f].values())]
        for arr in arrs:
            if not any(p[:2] == ("arg1", arr) for p in E.summaries[f].W):
                continue
            cover = []
            seen = []
            for cs in E.call_sites(f):
                if not cs.term["args"]:
                    continue
                recv = WD.strip_names(T.operand(cs.term["args"][0], cs.point))
                if not (recv[0] == "ref" and recv[2] == ("load", ("arg1", arr))):
                    continue
                nm = cs.callee.rsplit("::", 1)[-1]
                if nm in ("index_mut", "index") and len(cs.term["args"]) == 2:
                    r = WD.strip_names(T.operand(cs.term["args"][1], cs.point))
                    seen.append(w.tstr(f, r))
                    okr = False
                    if r[0] == "adt" and r[1].endswith("RangeToInclusive") and r[4] and r[4][0][0] == "load" and r[4][0][1][0] == "arg1" and r[4][0][1][1] in marks:
                        okr = True
                    elif r[0] == "adt" and r[1].endswith("RangeFull"):
                        okr = True
                    elif r[0] == "adt" and r[1].endswith("::Range") and len(r[4]) == 2 and r[4][0] == ("const", 0) and r[4][1][0] == "binop" and r[4][1][1] == "Add" \
                            and r[4][1][2][0] == "load" and r[4][1][2][1][1:2] and r[4][1][2][1][1] in marks and r[4][1][3] == ("const", 1):
                        okr = True
                    elif r[0] == "call" and r[1].endswith("RangeInclusive::<Idx>::new") and r[2][0] == ("const", 0) and r[2][1][0] == "load" and r[2][1][1][1:2] and r[2][1][1][1] in marks:
                        okr = True
                    if okr:
                        cover.append(cs)
                elif nm in ("fill", "iter_mut", "into_iter", "as_mut_slice"):
                    seen.append("whole array (%s)" % nm)
                    cover.append(cs)
            # whole-array assignment `self.arr = [..]` / Default
            whole = [pt for pt, ps in E.stmt_writes[f].items() if ("arg1", arr) in ps]
            ctx.check(bool(cover) or bool(whole), "T7d", "%s.%s" % (f, arr),
                      "%s clears `%s` only at %s (high-water mark(s): %s): cells the previous sequence used beyond that keep their values and leak into the next sequence" % (f, arr, seen or "single cells", marks),
                      loc=w.fn_loc(f), sample={"fn": f, "storage": arr, "ranges": seen, "marks": marks})
    ctx.floor("T7d", 2, "clear routines with a storage array")

    ctx.rule("T7e", "the collect action stores the byte it is given, unconditionally (the LAST private marker / intermediate selects the function, as in the extracted dispatch tables)")
    collect_fns = set()
    for cs in E.call_sites(feed):
        if cs.local:
            try:
                if tb.classify_action(cs.callee) == "collect":
                    collect_fns.add(cs.callee)
            except H.Unsupported:
                pass
    for f in sorted(collect_fns):
        sites = [(pt, WD.strip_names(t)) for f2, pt, p, t in w.assign_sites({f}, lambda p: p == ("arg1", tb.f_inter))]
        want = ("adt", "core::option::Option", "Some", ("0",), (("load", ("arg2",)),))
        via_calls = [cs.callee for cs in E.call_sites(f) if any(p[:2] == ("arg1", tb.f_inter) for p in cs.W)]
        ok = bool(sites) and all(t == want for _, t in sites) and ("arg1", tb.f_inter) in w.mustwrite.must(f) and not via_calls
        ctx.check(ok, "T7e", f, "%s does not simply store its input as the intermediate (assignments: %s; through calls: %s): which of several collected bytes wins decides which function is dispatched" %
                  (f, [w.tstr(f, t) for _, t in sites], via_calls), loc=w.fn_loc(f), sample={"fn": f})
    ctx.floor("T7e", 1, "collect actions")

    ctx.rule("T7b", "the clear routine resets every field a sequence can have written (intermediate, counter, all used parameters)")
    for f in sorted(clear_fns):
        must = w.mustwrite.must(f)
        for fld in (tb.f_inter, tb.f_cur):
            ctx.check(("arg1", fld) in must, "T7b", "%s.%s" % (f, fld),
                      "%s does not reset `%s` on every path" % (f, fld), loc=w.fn_loc(f))
        # parameters: the per-parameter clear is applied to params[..=cur_param]
        wp = [p for p in E.summaries[f].W if p[:2] == ("arg1", tb.f_params)]
        ctx.check(bool(wp), "T7b", "%s.%s" % (f, tb.f_params), "%s no longer clears the parameter array" % f, loc=w.fn_loc(f))
    ctx.floor("T7b", 3, "reset fields")

    ctx.rule("T7c", "parameter cells are written only at the current index, which only grows within a sequence")
    for f in sorted(param_fns):
        T = w.terms(f)
        b = w.body(f)
        k = 0
        # every place written under params must be indexed by the load of cur_param
        for cs in E.call_sites(f):
            if not any(p[:2] == ("arg1", tb.f_params) for p in cs.W):
                continue
            recv = T.operand(cs.term["args"][0], cs.point)
            k += 1
            ok = (recv[0] == "ref" and recv[2][0] == "load" and recv[2][1][:2] == ("arg1", tb.f_params)
                  and len(recv[2][1]) == 3 and recv[2][1][2] == ("idx", ("load", ("arg1", tb.f_cur))))
            ctx.check(ok, "T7c", "%s->%s" % (f, cs.callee),
                      "parameter cell written through %s instead of params[cur_param]" % w.tstr(f, recv), loc=w.site_loc(cs),
                      sample={"fn": f, "callee": cs.callee, "cell": w.tstr(f, recv)})
        if k == 0:
            ctx.violation("T7c", f, "no parameter write found in the `param` action %s" % f, loc=w.fn_loc(f))
    ctx.floor("T7c", 2, "parameter write sites")
