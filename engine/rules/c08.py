"""C08 - SGR attributes and colours reach the printed cells unchanged."""
import hir as H
import mir as M
import reference as REF
import symeval as SE
import world as WD
from rules import shared, tables


def sgr_iter(w):
    """(struct path, next fn, field name, Param type, cur field, parts field)."""
    tb = tables.parser_tables(w)
    out = tb.step("CsiEntry", ord("m"))
    d = tables.describe(out.result)
    if not (isinstance(d, tuple) and d[0] == "Sgr" and d[1][0] == "collect"):
        raise WD.AnchorError("CSI m does not collect an SGR iterator: %r" % (d,))
    sty = d[1][1]
    nxt = None
    for fn, fo in w.facts.fns.items():
        if (fo.get("impl_self") or {}).get("adt") == sty and fo.get("impl_trait", "").endswith("Iterator") and fo.get("name") == "next":
            nxt = fn
    sf = w.facts.struct_fields(sty)
    if not nxt or not sf or len(sf) != 1:
        raise WD.AnchorError("SGR iterator %s: next() or its single field not found" % sty)
    pty = tb.param_ty
    pf = w.facts.struct_fields(pty)
    cur = [f["name"] for f in pf if f["ty"]["s"] == "usize"]
    parts = [f["name"] for f in pf if "array" in f["ty"]]
    if len(cur) != 1 or len(parts) != 1:
        raise WD.AnchorError("cannot identify Param's fields by type")
    plen = [f for f in pf if "array" in f["ty"]][0]["ty"]["len"]
    return sty, nxt, sf[0]["name"], pty, cur[0], parts[0], plen


class SgrEval:
    def __init__(self, w):
        self.w = w
        (self.sty, self.next_fn, self.fld, self.pty, self.cur, self.parts, self.plen) = sgr_iter(w)

    def param(self, parts):
        padded = tuple(parts) + (0,) * (self.plen - len(parts))
        return ("obj", self.pty, {self.cur: len(parts) - 1, self.parts: ("s", padded)})

    def run(self, params):
        """params: list of lists of parts (ints or symbolic). -> (result, remaining count)"""
        it = SE.Interp(self.w.facts)
        obj = ("obj", self.sty, {self.fld: ("s", tuple(self.param(p) for p in params))})
        r = it.call_fn(self.next_fn, [obj])
        rest = obj[2][self.fld]
        return r, len(rest[1]), it


def describe_op(r):
    """SgrOp value -> reference vocabulary."""
    if r == H.NONE_V:
        return None
    if not (isinstance(r, tuple) and r[0] == "v" and r[1] == H.SOME):
        return ("?", r)
    v = r[2][0]
    name = v[1].rsplit("::", 1)[1]
    if len(v) == 2 or not v[2]:
        return (name,)
    return (name,) + tuple(describe_color(a) for a in v[2])


def describe_color(c):
    if isinstance(c, tuple) and c[0] == "v" and c[1] == "color::Color::Indexed":
        return ("Indexed", strip_cast(c[2][0], "u8"))
    if isinstance(c, tuple) and c[0] == "v" and c[1] == "color::Color::RGB":
        rgb = c[2][0]
        if isinstance(rgb, tuple) and rgb[0] == "ext" and rgb[1].endswith("::new"):
            return ("RGB",) + tuple(strip_cast(x, "u8") for x in rgb[2])
        return ("RGB?", rgb)
    return ("?", c)


def strip_cast(v, ty):
    if isinstance(v, tuple) and v[0] == "symcast" and v[2] == ty:
        return ("u8", v[1][1] if v[1][0] == "sym" else v[1])
    if isinstance(v, int):
        return v
    return v


class ColorInterp(SE.Interp):
    pass


def run(ctx, w):
    S = shared.screen(w)
    R = shared.roles(w)
    E = w.E
    ctx.explanation = ("The SGR decoder is extracted as a decision table (exact partition of the 16-bit parameter space by the literals of the decoder; colour "
                       "components stay symbolic), the pen update as a per-operation write frame, the attribute masks as constants; cells are tied to the pen by provenance.")
    ctx.decided = ["G1 decode table (all single parameters exhaustively by class; ':' and ';' colour forms; unknown codes consume one parameter)",
                   "G2 apply table: each operation updates exactly its pen component", "G3 attribute masks: non-zero, disjoint, used consistently by is_/set_/unset_",
                   "G4 cells printed or blanked take the terminal's pen", "G5 accessors return what was stored"]
    ctx.not_decided = ["nothing about SGR itself; cell placement is C04/C07"]
    ctx.exhaustive = True

    decode_rules(ctx, w)
    apply_rules(ctx, w, S, R)
    mask_rules(ctx, w)
    # G4: cells carry the pen (shared with C04 / C07)
    from rules import c04, c07, c03
    c04.print_rules(ctx, w, S, R)
    c07.pens(ctx, w, S, R)
    c07.nocontent(ctx, w, S, R, None)
    fresh_screen_pen(ctx, w, S, R)
    from rules import prims
    prims.ctor_semantics(ctx, w, S, "G10")
    # rows vacated by a scroll are "blanked afterwards" too: they carry the pen handed to the primitive (all branches)
    prims.scroll_primitives(ctx, w, S, "G11")
    ctx.floor("G11", 500, "scroll primitive evaluations")
    # colours survive the writer -> decoder round trip (bright colours 90-107, index 16, 255, RGB)
    from rules import c11
    shared.embed(ctx, w, c11.pen_roundtrip)
    # parameters handed to the decoder are exactly those of the current sequence
    # (no stale sub-parameters): the memoryless-reset rules of C03
    c03.run_t7(ctx, w, tables.parser_tables(w))
    c03.capacity(ctx, w, tables.parser_tables(w), rule="G1d")
    # "the pen is the fold of the SGR parameters RECEIVED": which sequences are SGR at all is the parser's transition and
    # dispatch tables (a dropped private marker turns `CSI > 4 m` into an SGR), and the parameter values its digit fold
    tb_ = tables.parser_tables(w)
    c03.run_transition(ctx, w, tb_)
    ctx.floor("T1", 14 * 20, "transition cells")
    c03.dispatch_rules(ctx, w, tb_)
    # blanks made by the row primitives (ICH / DCH / ECH / EL) carry the pen handed to them, in every branch
    prims.row_primitives(ctx, w, S, "G12")


def decode_rules(ctx, w):
    ev = SgrEval(w)
    nh = w.hir(ev.next_fn)
    lits = H.expr_literals(nh["body"])
    for n in H.walk(nh["body"]):
        if n.get("p"):
            H.pat_literals(n, lits)
    for n in range(0, 110):
        lits.add(n)
    atoms = H.partition(lits, 0, 65536)
    SENT = 4          # a parameter that follows: SGR 4 (underline), to see neighbours are not disturbed
    ctx.rule("G1a", "every single-valued SGR parameter decodes to the reference operation (or is skipped) and consumes exactly itself")
    for a in atoms:
        for n in sorted({a[0], a[1] - 1}):
            try:
                r, rest, it = ev.run([[n], [SENT]])
                got = describe_op(r)
            except H.Unsupported as e:
                got, rest = ("unsupported", str(e)), -1
            want = REF.sgr_single(n)
            if want is None and n not in (38, 48):
                # unknown: skipped, the neighbour is decoded next
                ok = got == ("SetUnderline",) and rest == 0
                msg = "unknown SGR %d must be skipped without disturbing its neighbour (got %r, %d parameter(s) left)" % (n, got, rest)
            elif n in (38, 48):
                # extended colour introducer followed by a non-colour selector: only the introducer is dropped
                ok = got == ("SetUnderline",) and rest == 0
                msg = "SGR %d followed by selector 4 must drop the introducer only (got %r, %d left)" % (n, got, rest)
            else:
                ok = got == want and rest == 1
                msg = "SGR %d decodes to %r leaving %d parameter(s); reference %r leaving 1" % (n, got, rest, want)
            ctx.check(ok, "G1a", "SGR %d" % n, msg, loc=w.fn_loc(ev.next_fn), sample={"param": n, "op": repr(got), "left": rest})
    ctx.floor("G1a", 60, "single SGR parameter classes")
    if ctx.tier == "thorough":
        ctx.rule("G1x", "thorough: every one of the 65536 single-valued SGR parameters individually (cross-checks the class partition)")
        bad = 0
        for n in range(65536):
            try:
                r, rest, it = ev.run([[n], [SENT]])
                got = describe_op(r)
            except H.Unsupported as e:
                got, rest = ("unsupported", str(e)), -1
            want = REF.sgr_single(n)
            ok = (got == ("SetUnderline",) and rest == 0) if (want is None) else (got == want and rest == 1)
            if not ok:
                bad += 1
                if bad <= 10:
                    ctx.violation("G1x", "SGR %d" % n, "SGR %d decodes to %r leaving %d" % (n, got, rest), loc=w.fn_loc(ev.next_fn))
        if not bad:
            ctx.ok("G1x", "all", {"parameters": 65536})
        ctx.rule_counts["G1x"] = 65536

    ctx.rule("G1b", "extended colours in ':' and ';' forms decode to the colour written, for both grounds, and consume exactly their parameters")
    Rr, Gg, Bb, Ii, Xx = SE.sym("r"), SE.sym("g"), SE.sym("b"), SE.sym("i"), SE.sym("x")
    for base, op in ((38, "SetForegroundColor"), (48, "SetBackgroundColor")):
        cases = [
            ("%d:2:r:g:b" % base, [[base, 2, Rr, Gg, Bb], [SENT]], (op, ("RGB", ("u8", "r"), ("u8", "g"), ("u8", "b"))), 1),
            ("%d:2::r:g:b" % base, [[base, 2, Xx, Rr, Gg, Bb], [SENT]], (op, ("RGB", ("u8", "r"), ("u8", "g"), ("u8", "b"))), 1),
            ("%d:5:i" % base, [[base, 5, Ii], [SENT]], (op, ("Indexed", ("u8", "i"))), 1),
            ("%d;2;r;g;b" % base, [[base], [2], [Rr], [Gg], [Bb], [SENT]], (op, ("RGB", ("u8", "r"), ("u8", "g"), ("u8", "b"))), 1),
            ("%d;5;i" % base, [[base], [5], [Ii], [SENT]], (op, ("Indexed", ("u8", "i"))), 1),
        ]
        # ... and the same forms as the LAST thing in the sequence (nothing follows)
        cases += [(nm + " (last)", ps[:-1], wt, 0) for nm, ps, wt, lf in list(cases)]
        for name, params, want, left in cases:
            try:
                r, rest, it = ev.run(params)
                got = describe_op(r)
            except H.Unsupported as e:
                got, rest = ("unsupported", str(e)), -1
            ctx.check(got == want and rest == left, "G1b", name, "SGR %s decodes to %r leaving %d; reference %r leaving %d" % (name, got, rest, want, left),
                      loc=w.fn_loc(ev.next_fn), sample={"form": name, "op": repr(got), "left": rest})
        # malformed colon forms are unknown parameters: skipped alone
        for name, params in (("%d:5" % base, [[base, 5], [SENT]]), ("%d:2:r:g" % base, [[base, 2, 1, 2], [SENT]]), ("%d:9:1" % base, [[base, 9, 1], [SENT]])):
            try:
                r, rest, it = ev.run(params)
                got = describe_op(r)
            except H.Unsupported as e:
                got, rest = ("unsupported", str(e)), -1
            ctx.check(got == ("SetUnderline",) and rest == 0, "G1b", name + " (malformed)", "malformed %s must be skipped alone (got %r, %d left)" % (name, got, rest), loc=w.fn_loc(ev.next_fn))
    # a known code with sub-parameters is not that code
    for name, params in (("1:2", [[1, 2], [SENT]]), ("0:0", [[0, 0], [SENT]])):
        r, rest, it = ev.run(params)
        ctx.check(describe_op(r) == ("SetUnderline",) and rest == 0, "G1b", name + " (sub-parameters)", "SGR %s must be skipped (got %r)" % (name, describe_op(r)), loc=w.fn_loc(ev.next_fn))
    # empty tail
    r, rest, it = ev.run([])
    ctx.check(r == H.NONE_V, "G1b", "end", "the decoder must end on an empty parameter list")
    ctx.floor("G1b", 18, "colour forms")

    # Color::rgb really builds RGB(r,g,b) in that order
    ctx.rule("G1c", "Color::rgb(r,g,b) stores the components in that order")
    fn = "color::Color::rgb"
    if fn in w.bodies:
        b = w.body(fn)
        T = w.terms(fn)
        rts = [WD.strip_names(T.local(0, (rb, b.n_stmts(rb)))) for rb in b.return_blocks()]
        ok = all(t[0] == "adt" and t[2] == "RGB" and t[4][0][0] == "call" and t[4][0][2] == (("load", ("arg1",)), ("load", ("arg2",)), ("load", ("arg3",))) for t in rts)
        ctx.check(ok, "G1c", fn, "Color::rgb returns %s" % [w.tstr(fn, t) for t in rts], loc=w.fn_loc(fn), sample={"returns": [w.tstr(fn, t) for t in rts]})
    else:
        ctx.missing_anchor("G1c", fn)


def apply_semantics(ctx, w, S, R, rule):
    """The SGR handler evaluated for each single operation on an all-clear and an all-set pen: exactly the operation's
    component changes (observed through the pen's public accessors), to the documented value."""
    from rules import c11
    ctx.rule(rule, "each SGR operation, applied by the handler to an all-clear and to an all-set pen, changes exactly its own component (observed through foreground / background / intensity / is_* accessors)")
    hs = w.handler("Sgr")
    if len(hs) != 1:
        ctx.missing_anchor(rule, "single SGR handler")
        return None
    h = hs[0]
    attrs = ["italic", "underline", "blink", "inverse", "strikethrough"]
    col = ("v", "color::Color::Indexed", (7,))

    def obs(pen):
        it = c11.ApplyInterp(w.facts)
        d = pen[2]
        out = {"foreground": d["foreground"], "background": d["background"], "intensity": d["intensity"]}
        for a in attrs:
            out[a] = it.call_fn("pen::Pen::is_" + a, [pen])
        return out

    def base(all_set):
        p = c11.default_pen()
        if all_set:
            p[2]["foreground"] = H.some(("v", "color::Color::Indexed", (1,)))
            p[2]["background"] = H.some(("v", "color::Color::Indexed", (2,)))
            p[2]["intensity"] = ("v", "pen::Intensity::Faint")
            it = c11.ApplyInterp(w.facts)
            for a in attrs:
                it.call_fn("pen::Pen::set_" + a, [p])
        return p
    ref = {"SetBoldIntensity": ("intensity", ("v", "pen::Intensity::Bold")), "SetFaintIntensity": ("intensity", ("v", "pen::Intensity::Faint")), "ResetIntensity": ("intensity", ("v", "pen::Intensity::Normal")),
           "SetForegroundColor": ("foreground", H.some(col)), "ResetForegroundColor": ("foreground", H.NONE_V),
           "SetBackgroundColor": ("background", H.some(col)), "ResetBackgroundColor": ("background", H.NONE_V)}
    for a in attrs:
        ref["Set" + a.capitalize()] = (a, True)
        ref["Reset" + a.capitalize()] = (a, False)
    okall = True
    n = 0
    try:
        for v in w.facts.enum_variants("parser::SgrOp") or []:
            for all_set in (False, True):
                pen = base(all_set)
                before = obs(pen)
                payload = bool([x for x in w.facts.adts["parser::SgrOp"]["variants"] if x["name"] == v and x.get("fields")])
                op = ("v", "parser::SgrOp::" + v, (col,)) if payload else ("v", "parser::SgrOp::" + v)
                term = ("obj", S.term_ty, {R["pen"]: pen})
                c11.ApplyInterp(w.facts).call_fn(h, [term, ("s", (op,))])
                after = obs(term[2][R["pen"]])
                if v == "Reset":
                    want = obs(c11.default_pen())
                elif v in ref:
                    want = dict(before)
                    want[ref[v][0]] = ref[v][1]
                else:
                    want = None
                n += 1
                if want is None or after != want:
                    okall = False
                    diff = {k: (before[k], after[k]) for k in after if after[k] != (want or before).get(k)} if want else "no reference for this operation"
                    ctx.violation(rule, "%s/%s" % (v, "set" if all_set else "clear"), "SgrOp::%s applied to an all-%s pen: %s (component: before -> after); the reference changes only %s" %
                                  (v, "set" if all_set else "clear", diff, ref.get(v, ("the whole pen",))[0]), loc=w.fn_loc(h))
    except (H.Unsupported, KeyError, IndexError, TypeError) as ex:
        ctx.note("semantic form of the apply table not applicable: %r" % (ex,))
        return None
    if okall:
        ctx.ok(rule, "all", {"cases": n})
        ctx.rule_counts[rule] = n
    return okall


def apply_rules(ctx, w, S, R):
    E = w.E
    ctx0 = ctx
    sem = apply_semantics(ctx0, w, S, R, "G2s")
    ctx = shared.Deferred(ctx0, {"G2"}, sem)
    ctx.rule("G2", "each SGR operation updates exactly its component of the pen (attributes are independent)")
    pen = R["pen"]
    attr = {"Italic": "italic", "Underline": "underline", "Blink": "blink", "Inverse": "inverse", "Strikethrough": "strikethrough"}
    want = {"Reset": ("whole", None), "SetBoldIntensity": ("intensity", "pen::Intensity::Bold"), "SetFaintIntensity": ("intensity", "pen::Intensity::Faint"),
            "ResetIntensity": ("intensity", "pen::Intensity::Normal"),
            "SetForegroundColor": ("foreground", "some"), "ResetForegroundColor": ("foreground", "none"),
            "SetBackgroundColor": ("background", "some"), "ResetBackgroundColor": ("background", "none")}
    for k, v in attr.items():
        want["Set" + k] = ("call", "pen::Pen::set_" + v)
        want["Reset" + k] = ("call", "pen::Pen::unset_" + v)
    variants = w.facts.enum_variants("parser::SgrOp") or []
    for h in w.handler("Sgr"):
        for v in variants:
            vp = "parser::SgrOp::" + v
            arm = None
            for m in H.find(w.hir(h)["body"], lambda n: H.is_k(n, "match")):
                for a in m["arms"]:
                    pats = [a["pat"]] if a["pat"]["p"] != "or" else a["pat"]["pats"]
                    for p in pats:
                        pp = p["path"].get("path") if p["p"] == "tuplestruct" else (p.get("e") or {}).get("path")
                        if pp == vp and arm is None:
                            arm = a
            if arm is None:
                ctx.violation("G2", v, "no arm for SgrOp::%s in %s" % (v, h), loc=w.fn_loc(h))
                continue
            assigns = shared.self_assigns(arm["body"])
            calls = [n for n in H.walk(arm["body"]) if H.is_k(n, "mcall")]
            kind, arg = want.get(v, (None, None))
            ok = False
            got = "assigns %s, calls %s" % ([".".join(a[0]) for a in assigns], [c.get("callee") for c in calls])
            if kind == "whole":
                ok = len(assigns) == 1 and assigns[0][0] == (pen,) and not calls and is_default_call(assigns[0][1])
            elif kind in ("intensity", "foreground", "background"):
                if len(assigns) == 1 and assigns[0][0] == (pen, kind) and not calls:
                    rhs = H.unwrap(assigns[0][1])
                    if kind == "intensity":
                        ok = H.path_of(rhs) == arg
                    elif arg == "none":
                        ok = H.path_of(rhs) == H.NONE
                    else:
                        ok = H.is_k(rhs, "call") and H.path_of(rhs["f"]) == H.SOME and H.local_name(rhs["args"][0]) is not None \
                            and binds_payload(arm["pat"], H.local_name(rhs["args"][0]))
            elif kind == "call":
                ok = not assigns and len(calls) == 1 and calls[0].get("callee") == arg and H.self_field(calls[0]["recv"]) == (pen,)
            ctx.check(ok, "G2", v, "SgrOp::%s: the handler %s; the reference update is %s %s" % (v, got, kind, arg), loc="%s:%s" % (w.fn_loc(h).rsplit(":", 1)[0], arm.get("line")),
                      sample={"op": v, "update": got})
    ctx.floor("G2", 18, "SGR operations")
    # frame of the whole handler (not covered by the semantic form: always enforced)
    ctx = ctx0
    shared.frame(ctx, w, "G2", "Sgr", [(pen,)], "SGR changes nothing but the pen")
    # Pen::default() is the all-clear pen
    fn = "<pen::Pen as core::default::Default>::default"
    if fn in w.bodies:
        b = w.body(fn)
        T = w.terms(fn)
        rts = [WD.strip_names(T.local(0, (rb, b.n_stmts(rb)))) for rb in b.return_blocks()]
        def is_clear(t):
            if t[0] != "adt" or t[1] != "pen::Pen":
                return False
            d = dict(zip(t[3], t[4]))
            return (d.get("foreground", ("x",))[:3] == ("adt", "core::option::Option", "None") and d.get("background", ("x",))[:3] == ("adt", "core::option::Option", "None")
                    and d.get("intensity", ("x",))[:3] == ("adt", "pen::Intensity", "Normal") and d.get("attrs") == ("const", 0))
        ctx.check(all(is_clear(t) for t in rts), "G2", "Pen::default", "Pen::default() is not the all-clear pen: %s" % [w.tstr(fn, t) for t in rts], loc=w.fn_loc(fn))


def inline_helper(w, t):
    """`helper(&self, const...)` -> the helper's return term with the arguments substituted (one level)."""
    if t and t[0] == "call" and t[1] in w.bodies and not w.E.summaries[t[1]].W:
        hb = w.body(t[1])
        HT = w.terms(t[1])
        rts = [WD.strip_names(HT.local(0, (rb, hb.n_stmts(rb)))) for rb in hb.return_blocks()]
        if len(rts) == 1:
            return shared.subst_loads(rts[0], list(t[2]))
    return t


def is_default_call(rhs):
    rhs = H.unwrap(rhs)
    return H.is_k(rhs, "call") and (H.path_of(rhs["f"]) or "").endswith("Default>::default") or \
        (H.is_k(rhs, "call") and (H.path_of(rhs["f"]) or "").endswith("::default"))


def binds_payload(pat, name):
    return any(n.get("p") == "bind" and n.get("name") == name for n in H.walk(pat))


def mask_rules(ctx, w):
    ctx.rule("G3", "the attribute masks are non-zero, pairwise disjoint, and each is_/set_/unset_ triple uses one and the same mask (test != 0, |=, &= !)")
    attrs = ["italic", "underline", "strikethrough", "blink", "inverse"]
    masks = {}
    for a in attrs:
        m = None
        for kind in ("is", "set", "unset"):
            fn = "pen::Pen::%s_%s" % (kind, a)
            if fn not in w.bodies:
                ctx.missing_anchor("G3", fn)
                continue
            b = w.body(fn)
            T = w.terms(fn)
            if kind == "is":
                rts = [WD.strip_names(T.local(0, (rb, b.n_stmts(rb)))) for rb in b.return_blocks()]
                t = rts[0] if len(rts) == 1 else None
                t = inline_helper(w, t)
                ok = bool(t) and t[0] == "binop" and t[1] == "Ne" and t[3] == ("const", 0) and t[2][0] == "binop" and t[2][1] == "BitAnd" and t[2][2][0] == "load" and t[2][3][0] == "const"
                if ok:
                    m = t[2][3][1]
                    fld = t[2][2][1]
                ctx.check(ok, "G3", fn, "%s must be `(attrs & MASK) != 0`, found %s" % (fn, [w.tstr(fn, x) for x in rts]), loc=w.fn_loc(fn), sample={"fn": fn, "term": [w.tstr(fn, x) for x in rts]})
            else:
                sites = w.assign_sites({fn})
                if not sites:
                    # delegated to a helper taking the mask: analyse the helper with the constant argument
                    for cs in w.E.call_sites(fn):
                        if cs.local and len(cs.term["args"]) == 2:
                            a = WD.strip_names(T.operand(cs.term["args"][1], cs.point))
                            sites = [(f2, pt, p, shared.subst_loads(WD.strip_names(t2), [("load", ("arg1",)), a])) for f2, pt, p, t2 in w.assign_sites({cs.callee})]
                ok = False
                got = [w.tstr(fn, t) for _, _, _, t in sites]
                if len(sites) == 1 and m is not None:
                    _, _, p, t = sites[0]
                    t = WD.strip_names(t)
                    if kind == "set":
                        ok = t == ("binop", "BitOr", ("load", fld), ("const", m))
                    else:
                        ok = t == ("binop", "BitAnd", ("load", fld), ("const", 255 - m)) or t == ("binop", "BitAnd", ("load", fld), ("unop", "Not", ("const", m)))
                ctx.check(ok, "G3", fn, "%s must %s the mask 0x%02x of is_%s; found %s" % (fn, "OR in" if kind == "set" else "AND out", m or 0, a, got), loc=w.fn_loc(fn), sample={"fn": fn, "term": got})
        masks[a] = m
    vals = [v for v in masks.values() if v is not None]
    ctx.check(len(vals) == 5 and all(v > 0 for v in vals), "G3", "nonzero", "attribute masks must be non-zero: %s" % masks)
    dis = all((a & b) == 0 for i, a in enumerate(vals) for b in vals[i + 1:])
    ctx.check(dis, "G3", "disjoint", "attribute masks overlap: %s" % masks, sample={"masks": masks})
    ctx.floor("G3", 17, "mask obligations")
    ctx.rule("G5", "Pen / Cell accessors return the stored component")
    for fn, fld in (("pen::Pen::foreground", "foreground"), ("pen::Pen::background", "background")):
        if fn in w.bodies:
            b = w.body(fn)
            T = w.terms(fn)
            rts = [WD.strip_names(T.local(0, (rb, b.n_stmts(rb)))) for rb in b.return_blocks()]
            ctx.check(rts == [("load", ("arg1", fld))], "G5", fn, "%s returns %s" % (fn, [w.tstr(fn, t) for t in rts]), loc=w.fn_loc(fn), sample={"fn": fn})
        else:
            ctx.missing_anchor("G5", fn)
    for fn, var in (("pen::Pen::is_bold", "Bold"), ("pen::Pen::is_faint", "Faint")):
        if fn in w.bodies:
            b = w.body(fn)
            T = w.terms(fn)
            rts = [T.local(0, (rb, b.n_stmts(rb))) for rb in b.return_blocks()]
            s = repr(rts)
            ctx.check("intensity" in s and var in s and "PartialEq" in s, "G5", fn, "%s returns %s" % (fn, [w.tstr(fn, t) for t in rts]), loc=w.fn_loc(fn), sample={"fn": fn})
    for fn, idx in (("cell::Cell::pen", "1"), ("cell::Cell::char", "0")):
        if fn in w.bodies:
            b = w.body(fn)
            T = w.terms(fn)
            rts = [WD.strip_names(T.local(0, (rb, b.n_stmts(rb)))) for rb in b.return_blocks()]
            ok = rts in ([("load", ("arg1", idx))], [("ref", False, ("load", ("arg1", idx)))])
            ctx.check(ok, "G5", fn, "%s returns %s" % (fn, [w.tstr(fn, t) for t in rts]), loc=w.fn_loc(fn), sample={"fn": fn})
    ctx.floor("G5", 6, "accessors")


def fresh_screen_pen(ctx, w, S, R):
    """G9: a screen that is blanked by replacing its buffer while the terminal keeps its pen (entering the alternate
    screen) is blanked in the CURRENT pen: the constructor call receives Some(&self.pen)."""
    from rules import c06
    ctx.rule("G9", "a buffer built while the terminal keeps running (alternate-screen entry) is blanked with the current pen: Buffer::new(.., Some(&self.pen))")
    n = 0
    abt = ("arg1", R["active_buffer_type"])
    for fn in sorted(w.bodies):
        if S._impl_of(fn) != S.term_ty:
            continue
        # functions that (re)set the pen themselves (constructor, hard reset) start from the default pen: nothing to carry over
        resets_pen = any(True for f2, pt, p, t in w.assign_sites({fn}, lambda p: p == ("arg1", R["pen"]))) or \
            any(s_["k"] == "assign" and s_["rv"]["k"] == "aggregate" and s_["rv"].get("adt") == S.term_ty for bl in w.body(fn).blocks for s_ in bl["stmts"])
        if resets_pen:
            continue
        for cs, a in c06.ctor_sites(w, S, fn):
            n += 1
            want = ("adt", "core::option::Option", "Some", ("0",), (("ref", False, ("load", ("arg1", R["pen"]))),))
            ctx.check(len(a) == 4 and a[3] == want, "G9", "%s:%s" % (fn, shared.site_key(w, fn, cs.point)),
                      "%s builds a screen with pen argument %s: its cells do not report the pen in effect (expected Some(&self.pen))" % (fn, w.tstr(fn, a[3])[:60] if len(a) == 4 else a),
                      loc=w.site_loc(cs), sample={"fn": fn, "pen_argument": w.tstr(fn, a[3])[:60] if len(a) == 4 else None})
    ctx.floor("G9", 1, "buffer constructions outside constructor / reset")
