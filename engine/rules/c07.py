"""C07 - erase, insert and delete touch exactly their documented extent."""
import hir as H
import mir as M
import world as WD
from rules import shared
from rules.shared import norm_term

EDIT = ["Ed", "El", "Ech", "Ich", "Decaln"]

# what each public selector must erase, per cell row (callee parameter space):
#   row footprint (which rows) and column extent on the cursor row
REF_SCOPES = {
    ("El", "parser::ElScope::ToRight"): {"cols": "col..cols", "unwrap": "always", "rows": "row"},
    ("El", "parser::ElScope::ToLeft"): {"cols": "0..min(col+1,cols)", "unwrap": "never", "rows": "row"},
    ("El", "parser::ElScope::All"): {"cols": "0..cols", "unwrap": "always", "rows": "row"},
    ("Ed", "parser::EdScope::Below"): {"cols": "col..cols", "unwrap": "always", "rows": "row+below"},
    ("Ed", "parser::EdScope::Above"): {"cols": "0..min(col+1,cols)", "unwrap": "never", "rows": "above+row"},
    ("Ed", "parser::EdScope::All"): {"cols": None, "unwrap": "n/a", "rows": "all"},
}


def _run(ctx, w):
    S = shared.screen(w)
    R = shared.roles(w)
    E = w.E
    cur = R["cursor"]
    ctx.explanation = ("Erase/insert/delete are decided as frame rules on the handlers, and - per public selector (EL 0/1/2, ED 0/1/2, ECH, ICH, DCH) - by partially "
                       "evaluating the buffer's erase primitive for the mode each selector passes and comparing the rows, the column range and the soft-wrap "
                       "clearing of the selected arm with the documented extent.")
    ctx.decided = ["X1 frame of the editing commands", "X2 the soft-wrap mark is cleared exactly when the row's tail is erased / characters are deleted",
                   "X3 blanks carry the current pen (DECALN: 'E' with the default pen)", "X4 counts are clamped to the rest of the row before use",
                   "X5 each selector erases its documented rows and columns", "X6 DCH first leaves the wrap-pending column", "X7 erasing never depends on what the cells contained"]
    ctx.not_decided = ["value flow through rotate_left/right inside a row (that shifted cells keep their content)"]

    ctx.rule("X1", "ED/EL/ECH/ICH/DECALN write only the active buffer and the dirty set; DCH additionally cursor.col and wrap-pending")
    buf = [(S.active_buffer,), (S.dirty_field,)]
    for v in EDIT:
        shared.frame(ctx, w, "X1", v, buf, "the cursor and all modes stay exactly as they were")
    shared.frame(ctx, w, "X1", "Dch", buf + [(cur, "col"), (R["pending_wrap"],)], "DCH may only leave the wrap-pending column")

    # ---- selectors: decided semantically by X10 (handlers' decision table + interpretation of the erase primitive on
    # symbolic screens): rows, columns, soft-wrap clearing, position and pen operands per selector.  (The earlier
    # term-matching form of X5/X2 alarmed on behaviour-preserving restructurings of ed/el/erase and was retired.)
    erase_fn = None
    for h in w.handler("El"):
        for cs in E.call_sites(h):
            if cs.local and S._impl_of(cs.callee) == S.buffer_ty and any(S.is_row_content(p) for p in cs.W):
                erase_fn = cs.callee

    # ---- DCH / ICH primitives ---------------------------------------------------------------
    ctx.rule("X2d", "deleting characters clears the row's soft-wrap mark on every path")
    ctx.rule("X4", "insert/delete/erase counts are clamped by min(n, cols - col) before any use")
    for v, need_unwrap in (("Dch", True), ("Ich", False)):
        for h in w.handler(v):
            T = w.terms(h)
            for cs in E.call_sites(h):
                if not (cs.local and S._impl_of(cs.callee) == S.buffer_ty and any(S.is_row_content(p) for p in cs.W)):
                    continue
                prim = cs.callee
                pb = w.body(prim)
                PT = w.terms(prim)
                fo = w.facts.fns[prim]
                ni = [i for i, t in enumerate(fo["inputs"]) if t["s"] == "usize"][0] + 1
                from rules import c06
                bad = c06.uses_outside_min(w, prim, ni)
                clamp_ok = False
                for c2 in E.call_sites(prim):
                    if c2.callee.endswith("::min"):
                        a = [WD.strip_names(PT.operand(x, c2.point)) for x in c2.term["args"]]
                        if ("load", ("arg%d" % ni,)) in a:
                            o = [x for x in a if x != ("load", ("arg%d" % ni,))]
                            clamp_ok = bool(o) and o[0] == ("binop", "Sub", ("load", ("arg1", S.buf_cols)), ("load", ("arg2", "0")))
                if not (clamp_ok and not bad):
                    from rules import prims as _pr
                    if _pr.edits_ok(w, S, R):          # decided by evaluation (X10): every position, every count incl. 65535
                        clamp_ok, bad = True, []
                ctx.check(clamp_ok and not bad, "X4", prim, "%s does not clamp its count to `cols - col` before using it%s" % (prim, (": " + w.tstr(prim, bad[0][1])) if bad else ""),
                          loc=w.fn_loc(prim), sample={"fn": prim, "clamp": clamp_ok, "unclamped_uses": len(bad)})
                if need_unwrap:
                    wpts = {pt for pt, ps in E.stmt_writes[prim].items() if any(p[-1] == S.wrap_field for p in ps)}
                    okw = bool(wpts) and pb.every_path_to_return_hits((0, 0), wpts, include_start=True) and all(const_false(pb, pt) for pt in wpts)
                    ctx.check(okw, "X2d", prim, "%s does not clear the soft-wrap mark of the row on every path" % prim, loc=w.fn_loc(prim), sample={"fn": prim, "writes": len(wpts)})
                # position handed over is the cursor position; the cell/pen is the current pen
                pos = WD.strip_names(T.operand(cs.term["args"][1], cs.point))
                want = ("tuple", (("load", ("arg1", cur, "col")), ("load", ("arg1", cur, "row"))))
                ctx.check(pos == want, "X5", "%s:position" % v, "%s acts at %s instead of the cursor position" % (h, w.tstr(h, pos)), loc=w.site_loc(cs), sample={"fn": h, "position": w.tstr(h, pos)})
    ctx.floor("X4", 2, "row-shift primitives")

    pens(ctx, w, S, R)
    dch_rule(ctx, w, S, R)
    nocontent(ctx, w, S, R, erase_fn)
    shared.stale_operands(ctx, w, S, R, "X8", ["Ed", "El", "Ech", "Ich", "Dch", "Il", "Dl"])
    ctx.floor("X8", 10, "cursor reads feeding buffer primitives")
    from rules import prims
    prims.row_primitives(ctx, w, S, "X9")
    ctx.floor("X9", 100, "row primitive evaluations")
    prims.buffer_edit_primitives(ctx, w, S, R, "X10", spec=True)
    decaln_extent(ctx, w, S, R)
    ctx.rule("X12", "ED / EL (every selector), ECH / ICH / DCH (every count) and DECALN evaluated as whole handlers on a 4x3 symbolic terminal for every cursor position incl. wrap-pending: exactly the documented extent changes, "
                    "blanks carry the pen, the cursor stays (DCH first leaves the wrap-pending column), nothing is skipped for special positions")
    try:
        from rules import hinterp
        okh, infoh = hinterp.edit_handlers_semantics(w, S, R)
        ctx.check(okh, "X12", "handlers", str(infoh), loc=w.fn_loc(w.handler("El")[0]) if w.handler("El") else None, sample={"cases": infoh})
        if okh:
            ctx.rule_counts["X12"] = infoh
    except Exception as ex:
        ctx.violation("X12", "handlers", "cannot evaluate the editing handlers: %r" % (ex,))
    ctx.floor("X10", 1000, "buffer edit primitive evaluations")


def const_false(body, pt):
    s = body.blocks[pt[0]]["stmts"][pt[1]]
    return s["k"] == "assign" and s["rv"]["k"] == "use" and s["rv"]["op"]["k"] == "const" and (s["rv"]["op"].get("val") or {}).get("bool") is False


def check_scope(ctx, w, S, R, h, cs, variant, scope, ref):
    E = w.E
    cur = R["cursor"]
    T = w.terms(h)
    prim = cs.callee
    pb = w.body(prim)
    PT = w.terms(prim)
    key = "%s:%s" % (variant, scope.rsplit("::", 1)[-1])
    # position + pen handed over
    pos = WD.strip_names(T.operand(cs.term["args"][1], cs.point))
    want = ("tuple", (("load", ("arg1", cur, "col")), ("load", ("arg1", cur, "row"))))
    ctx.check(pos == want, "X5", key + ":position", "%s erases relative to %s instead of the cursor position" % (h, w.tstr(h, pos)), loc=w.site_loc(cs), sample={"fn": h, "position": w.tstr(h, pos)})
    mode = T.operand(cs.term["args"][2], cs.point)
    if mode[0] != "adt":
        ctx.violation("X5", key + ":mode", "%s passes a non-constant erase mode %s" % (h, w.tstr(h, mode)), loc=w.site_loc(cs))
        return
    start = shared.select_arm(w, prim, 3, mode[1], mode[2])
    if start is None:
        ctx.violation("X5", key + ":arm", "cannot find the arm of %s for %s" % (prim, mode[2]), loc=w.fn_loc(prim))
        return
    blocks = pb.reachable_from([start])
    col, row, cols, rows = ("load", ("arg2", "0")), ("load", ("arg2", "1")), ("load", ("arg1", S.buf_cols)), ("load", ("arg1", S.buf_rows))
    n_t = ("load", ("arg3", "@" + mode[2], "0"))
    ref_cols = {
        "col..cols": ("adt", "core::ops::range::Range", "Range", ("start", "end"), (col, cols)),
        "0..cols": ("adt", "core::ops::range::Range", "Range", ("start", "end"), (("const", 0), cols)),
        "0..min(col+1,cols)": ("adt", "core::ops::range::Range", "Range", ("start", "end"), (("const", 0), ("min", ("binop", "Add", ("const", 1), col), cols))),
        "col..col+min(n,cols-col)": ("adt", "core::ops::range::Range", "Range", ("start", "end"),
                                     (col, ("binop", "Add", col, ("min", ("binop", "Sub", cols, col), n_t)))),
        None: None,
    }[ref["cols"]]
    ref_cols = norm_term(ref_cols) if ref_cols else None
    # row operations in the arm
    row_refs = []          # index_mut(self, usize)
    row_ranges = []        # Buffer::clear(range) style
    col_ranges = []        # Line::clear(range)
    for c2 in E.call_sites(prim):
        if c2.point[0] not in blocks or not c2.local:
            continue
        ins = w.facts.fns[c2.callee]["inputs"]
        if (c2.decl or "").endswith("IndexMut::index_mut") and S._impl_of(c2.callee) == S.buffer_ty and ins[1]["s"] == "usize":
            row_refs.append(norm_term(PT.operand(c2.term["args"][1], c2.point)))
        elif S._impl_of(c2.callee) == S.buffer_ty and len(ins) > 1 and ins[1]["s"] == "core::ops::range::Range<usize>" and c2.W:
            row_ranges.append(norm_term(PT.operand(c2.term["args"][1], c2.point)))
        elif S._impl_of(c2.callee) == S.line_ty and len(ins) > 1 and ins[1]["s"] == "core::ops::range::Range<usize>" and c2.W:
            col_ranges.append(norm_term(PT.operand(c2.term["args"][1], c2.point)))
    rng = lambda a, b: norm_term(("adt", "core::ops::range::Range", "Range", ("start", "end"), (a, b)))
    want_rows = {
        "row": ([row], []),
        "row+below": ([row], [rng(("binop", "Add", row, ("const", 1)), rows)]),
        "above+row": ([row], [rng(("const", 0), row)]),
        "all": ([], [rng(("const", 0), rows)]),
    }[ref["rows"]]
    got_rows = (sorted(set(row_refs), key=repr), sorted(set(row_ranges), key=repr))
    ok = got_rows == (sorted(set(norm_term(x) for x in want_rows[0]), key=repr), sorted(set(want_rows[1]), key=repr))
    ctx.check(ok, "X5", key + ":rows",
              "%s (%s): the erase primitive touches rows %s / row ranges %s, documented extent is %s" % (variant, scope, [w.tstr(prim, t) for t in got_rows[0]], [w.tstr(prim, t) for t in got_rows[1]], ref["rows"]),
              loc=w.fn_loc(prim), sample={"selector": key, "rows": [w.tstr(prim, t) for t in got_rows[0]], "row_ranges": [w.tstr(prim, t) for t in got_rows[1]]})
    if ref_cols is not None:
        okc = col_ranges == [ref_cols]
        ctx.check(okc, "X5", key + ":cols",
                  "%s (%s): on the cursor row the columns %s are erased, documented extent is %s" % (variant, scope, [w.tstr(prim, t) for t in col_ranges], ref["cols"]),
                  loc=w.fn_loc(prim), sample={"selector": key, "columns": [w.tstr(prim, t) for t in col_ranges]})
    # soft-wrap clearing
    wpts = sorted(pt for pt, ps in E.stmt_writes[prim].items() if pt[0] in blocks and any(p[-1] == S.wrap_field for p in ps))
    if ref["unwrap"] == "always":
        okw = bool(wpts) and pb.every_path_to_return_hits((start, 0), set(wpts), include_start=True) and all(const_false(pb, pt) for pt in wpts)
        ctx.check(okw, "X2", key, "%s (%s) erases the tail of the row but does not clear its soft-wrap mark on every path" % (variant, scope), loc=w.fn_loc(prim),
                  sample={"selector": key, "unwrap_writes": len(wpts)})
    elif ref["unwrap"] == "never":
        ctx.check(not wpts, "X2", key, "%s (%s) does not erase the tail of the row, yet changes its soft-wrap mark" % (variant, scope), loc=w.stmt_loc(prim, wpts[0]) if wpts else None,
                  sample={"selector": key, "unwrap_writes": len(wpts)})
    elif ref["unwrap"] == "iff-end":
        # the write is guarded by `end == cols` with end = col + min(n, cols - col)
        end_t = norm_term(("binop", "Add", col, ("min", ("binop", "Sub", cols, col), n_t)))
        good = bool(wpts)
        for pt in wpts:
            gs = [(norm_term(c), v) for c, v in w.guards_of(prim, pt[0])]
            g = any(v is True and c[0] == "binop" and c[1] == "Eq" and {c[2], c[3]} == {end_t, cols} for c, v in gs)
            good = good and g and const_false(pb, pt)
        ctx.check(good, "X2", key, "ECH must clear the soft-wrap mark exactly when the erased cells reach the end of the row (guard `col + min(n, cols-col) == cols`)", loc=w.fn_loc(prim),
                  sample={"selector": key, "unwrap_writes": len(wpts)})


def pens(ctx, w, S, R):
    E = w.E
    ctx.rule("X3", "erased / inserted blanks are built from the terminal's current pen; DECALN writes 'E' with the default pen")
    pen_t = ("load", ("arg1", R["pen"]))
    for v in ("Ed", "El", "Ech", "Ich", "Dch"):
        for h in w.handler(v):
            T = w.terms(h)
            for cs in E.call_sites(h):
                if not (cs.local and S._impl_of(cs.callee) == S.buffer_ty and any(S.is_row_content(p) for p in cs.W)):
                    continue
                ins = w.facts.fns[cs.callee]["inputs"]
                for i, ty in enumerate(ins):
                    if ty["s"] == "&pen::Pen":
                        t = WD.strip_names(T.operand(cs.term["args"][i], cs.point))
                        ctx.check(t == ("ref", False, pen_t), "X3", "%s:%s" % (v, shared.site_key(w, h, cs.point)), "%s passes pen %s instead of the current pen" % (h, w.tstr(h, t)), loc=w.site_loc(cs),
                                  sample={"fn": h, "pen": w.tstr(h, t)})
                    if ty["s"] == "cell::Cell":
                        t = WD.strip_names(T.operand(cs.term["args"][i], cs.point))
                        ok = t[0] == "call" and t[1] == "cell::Cell::blank" and t[2] == (pen_t,)
                        ctx.check(ok, "X3", "%s:%s:cell" % (v, shared.site_key(w, h, cs.point)), "%s inserts %s instead of a blank with the current pen" % (h, w.tstr(h, t)), loc=w.site_loc(cs),
                                  sample={"fn": h, "cell": w.tstr(h, t)})
    for h in w.handler("Decaln"):
        T = w.terms(h)
        for cs in E.call_sites(h):
            if cs.local and S._impl_of(cs.callee) == S.buffer_ty and any(S.is_row_content(p) for p in cs.W):
                t = WD.strip_names(T.operand(cs.term["args"][2], cs.point))
                ok = t[0] == "call" and (t[1].endswith("From<char>>::from") or t[1].endswith("Into<U>>::into")) and t[2] == (("const", ("char", 0x45)),)
                ctx.check(ok, "X3", "Decaln:cell", "DECALN writes %s instead of 'E' with the default pen" % w.tstr(h, t), loc=w.site_loc(cs), sample={"cell": w.tstr(h, t)})
    # the conversions used really are blank-with-pen / char-with-default-pen
    for fn, want in (("cell::Cell::blank", "blank"), ("<cell::Cell as core::convert::From<char>>::from", "from")):
        if fn not in w.bodies:
            ctx.missing_anchor("X3", fn)
            continue
        b = w.body(fn)
        T = w.terms(fn)
        rts = [WD.strip_names(T.local(0, (rb, b.n_stmts(rb)))) for rb in b.return_blocks()]
        if want == "blank":
            ok = all(t[0] == "adt" and t[1] == "cell::Cell" and t[4] == (("const", ("char", 0x20)), ("load", ("arg1",))) for t in rts)
        else:
            ok = all(t[0] == "call" and t[1] == "cell::Cell::new" and t[2][0] == ("load", ("arg1",)) and t[2][1][0] == "call" and t[2][1][1].endswith("Default>::default") for t in rts)
        if not ok:
            # another spelling (a constructor call, a struct literal ...): decide by evaluation, observed through the public accessors
            try:
                from rules import prims
                it = prims.VecInterp(w.facts)
                acc = {}
                for g, fo in w.facts.fns.items():
                    if (fo.get("impl_self") or {}).get("adt") == "cell::Cell" and "impl_trait" not in fo and [i_["s"] for i_ in fo["inputs"]] == ["&cell::Cell"]:
                        acc.setdefault(fo["output"]["s"], []).append(g)
                if len(acc.get("char", [])) == 1 and len(acc.get("&pen::Pen", [])) == 1:
                    P = ("sym", "PEN")
                    v = it.call_fn(fn, [P] if want == "blank" else [0x45])
                    ch, pn = it.call_fn(acc["char"][0], [v]), it.call_fn(acc["&pen::Pen"][0], [v])
                    while isinstance(pn, tuple) and pn and pn[0] == "ref":
                        pn = pn[-1]
                    if want == "blank":
                        ok = ch == 0x20 and pn == P
                    else:
                        dflt = None
                        try:
                            dflt = it.call_fn("<pen::Pen as core::default::Default>::default", [])
                        except Exception:
                            pass
                        ok = ch == 0x45 and (pn == ("ext", "core::default::Default::default", ()) or (dflt is not None and pn == dflt))
            except Exception:
                ok = False
        ctx.check(ok, "X3", fn, "%s returns %s" % (fn, [w.tstr(fn, t) for t in rts]), loc=w.fn_loc(fn), sample={"fn": fn, "returns": [w.tstr(fn, t) for t in rts]})
    ctx.floor("X3", 6, "pen / blank operands")


def dch_rule(ctx, w, S, R):
    E = w.E
    cur = R["cursor"]
    ctx.rule("X6", "DCH leaves the wrap-pending column (col >= cols -> cols-1) before deleting")
    col_t, cols_t = ("load", ("arg1", cur, "col")), ("load", ("arg1", R["cols"]))
    for h in w.handler("Dch"):
        b = w.body(h)
        T = w.terms(h)
        dels = [cs for cs in E.call_sites(h) if cs.local and S._impl_of(cs.callee) == S.buffer_ty and any(S.is_row_content(p) for p in cs.W)]
        fix = None
        for cs in E.call_sites(h):
            if cs.local and ("arg1", cur, "col") in E.summaries[cs.callee].W and len(cs.term["args"]) == 2:
                a = WD.strip_names(T.operand(cs.term["args"][1], cs.point))
                gs = [(WD.strip_names(c), v) for c, v in w.guards_of(h, cs.point[0])]
                guarded = any(v is True and c[0] == "binop" and c[1] in ("Ge", "Eq") and c[2] == col_t and c[3] == cols_t for c, v in gs) or \
                    any(v is True and c == ("load", ("arg1", R["pending_wrap"])) for c, v in gs)
                if guarded and a == ("binop", "Sub", cols_t, ("const", 1)):
                    fix = cs
        ok = fix is not None and all(not b.path_exists(d.point, fix.point) for d in dels) and bool(dels)
        # every path to the delete with col>=cols goes through the fix: the guarding switch dominates the delete
        if ok:
            for d in dels:
                sw_blocks = [blk for blk in b.normal_blocks() if b.term(blk)["k"] == "switch" and b.block_dominates(blk, fix.point[0])]
                ok = ok and any(b.block_dominates(s, d.point[0]) for s in sw_blocks)
        ctx.check(ok, "X6", h, "%s does not move the cursor from the wrap-pending column to cols-1 before deleting" % h, loc=w.fn_loc(h), sample={"fn": h, "fix": w.site_loc(fix) if fix else None})


def nocontent(ctx, w, S, R, erase_fn):
    """X7: whether and how a row is erased never depends on its previous content."""
    E = w.E
    ctx.rule("X7", "the erase primitives never read cell content (erasing cannot depend on what was there)")
    fns = set()
    if erase_fn is None:
        for h in w.handler("El"):
            for cs in E.call_sites(h):
                if cs.local and S._impl_of(cs.callee) == S.buffer_ty and any(S.is_row_content(p) for p in cs.W):
                    erase_fn = cs.callee
    if erase_fn:
        fns |= E.reachable_fns([erase_fn])
    for v in ("Ich", "Dch"):
        for h in w.handler(v):
            for cs in E.call_sites(h):
                if cs.local and S._impl_of(cs.callee) == S.buffer_ty:
                    fns |= E.reachable_fns([cs.callee])
    for fn in sorted(fns):
        if S._impl_of(fn) not in (S.buffer_ty, S.line_ty):
            continue
        Rd = E.summaries[fn].R
        if S._impl_of(fn) == S.buffer_ty:
            bad = [p for p in Rd if p[0] == "arg1" and len(p) >= 4 and p[1] == S.lines_field and S.cells_field in p and p[-1] != S.cells_field]
        else:
            bad = [p for p in Rd if p[0] == "arg1" and len(p) >= 3 and p[1] == S.cells_field and p[2] == "[]"]
        # rotate_* (shifting) moves cells without inspecting them and is write-only in the summaries
        ctx.check(not bad, "X7", fn, "%s reads cell content (%s): erase/insert/delete must not depend on what the cells contained" % (fn, sorted(M.path_str(p) for p in bad)[:3]), loc=w.fn_loc(fn),
                  sample={"fn": fn, "reads": sorted(M.path_str(p) for p in Rd)[:8]})
    ctx.floor("X7", 5, "erase/shift primitives")


def run(ctx, w):
    _run(ctx, w)
    # the commands of this property must first of all be DECODED as specified (selector values, parameter slots, finals)
    from rules import c03
    shared.embed(ctx, w, c03.dispatch_rules)


def decaln_extent(ctx, w, S, R):
    """X11: the alignment pattern covers the WHOLE screen: the cell write ranges over 0..cols x 0..rows (not over the
    scroll region, not up to a margin)."""
    E = w.E
    ctx.rule("X11", "DECALN writes every cell: the written position ranges over columns 0..cols and rows 0..rows of the terminal")

    def ranges_in(t, acc):
        if isinstance(t, tuple):
            if t and t[0] == "adt" and str(t[1]).startswith("core::ops::range::Range") and len(t) > 4:
                acc.append((t[1], t[4]))
            if t and t[0] == "call" and str(t[1]).endswith("RangeInclusive::<Idx>::new"):
                acc.append(("incl", t[2]))
            for x in t:
                ranges_in(x, acc)
        return acc
    cols_t, rows_t = ("load", ("arg1", R["cols"])), ("load", ("arg1", R["rows"]))

    def full(rs, dim):
        for kind, ops in rs:
            if kind == "core::ops::range::Range" and tuple(ops) == (("const", 0), dim):
                return True
            if kind == "incl" and len(ops) == 2 and ops[0] == ("const", 0) and ops[1] == ("binop", "Sub", dim, ("const", 1)):
                return True
        return False
    n = 0
    for h in w.handler("Decaln"):
        T = w.terms(h)
        for cs in E.call_sites(h):
            if not (cs.local and S._impl_of(cs.callee) == S.buffer_ty and any(S.is_row_content(p) for p in cs.W)):
                continue
            pos = WD.strip_names(T.operand(cs.term["args"][1], cs.point))
            if pos[0] != "tuple" or len(pos[1]) != 2:
                ctx.violation("X11", h + ":position", "%s writes at %s; cannot recognise a (column, row) pair ranging over the screen" % (h, w.tstr(h, pos)[:80]), loc=w.site_loc(cs))
                continue
            n += 1
            cr, rr = ranges_in(pos[1][0], []), ranges_in(pos[1][1], [])
            ctx.check(full(cr, cols_t), "X11", h + ":columns", "%s writes columns %s; DECALN fills every column 0..cols" % (h, w.tstr(h, pos[1][0])[:100]), loc=w.site_loc(cs), sample={"columns": w.tstr(h, pos[1][0])[:100]})
            ctx.check(full(rr, rows_t), "X11", h + ":rows", "%s writes rows %s; DECALN fills every row 0..rows (margins do not limit it)" % (h, w.tstr(h, pos[1][1])[:100]), loc=w.site_loc(cs), sample={"rows": w.tstr(h, pos[1][1])[:100]})
    ctx.floor("X11", 2, "DECALN extent obligations")
