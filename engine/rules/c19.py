"""C19 - RIS returns the terminal to its power-on state from anywhere.

Decided: field coverage of the hard reset (every field of the terminal state
that is neither the size nor never-changing configuration is assigned on every
path of the handler of Function::Ris) and sibling agreement with the
constructor (the value assigned is the constructor's term modulo
parameter <-> field).  Parser side: see rules H3/H4.
"""
import hir as H
import mir as M
import world as WD
from rules import tables


def constructor_of(w, adt):
    """The function(s) that build `adt` with a struct aggregate covering all fields."""
    out = []
    for fn, body in w.bodies.items():
        ins = (w.facts.fns.get(fn) or {}).get("inputs", [])
        if ins and (ins[0].get("inner") or {}).get("adt") == adt:
            continue          # a method rebuilding the value from `self` (e.g. struct-update in a reset) is not the constructor
        for b in body.normal_blocks():
            for i, s in enumerate(body.blocks[b]["stmts"]):
                if s["k"] == "assign" and s["rv"]["k"] == "aggregate" and s["rv"].get("adt") == adt:
                    out.append((fn, (b, i), s["rv"]))
    return out


def _run(ctx, w):
    A = w.anchors
    term_ty = A["terminal_ty"]
    fields = A["terminal_fields"]
    ctx.explanation = (
        "RIS completeness is decided as field coverage + sibling agreement with the constructor, "
        "for every field of %s, on every path of the Function::Ris handler." % term_ty
    )
    ctx.decided = [
        "H1 every non-size, non-configuration field is assigned on every path of the Ris handler",
        "H2 each assigned value equals the constructor's (same callee / constant, parameters mapped to fields)",
        "H3 parser: ESC from every state enters Escape with the collected state cleared, `c` dispatches Ris and leaves Ground",
        "H4 Vt holds no state besides parser and terminal",
    ]
    ctx.not_decided = ["nothing structural; 'reacts like a fresh one' follows from state equality"]
    ctx.exhaustive = True
    E = w.E
    handlers = w.handler("Ris")
    reach = w.handler_reach("Ris")

    # ---- exemptions, derived -------------------------------------------
    # size fields: what the public size() accessor reads; configuration: fields
    # without any writer outside the constructor.
    ctors = constructor_of(w, term_ty)
    if len(ctors) != 1:
        ctx.missing_anchor("H1", "constructor of %s" % term_ty, "(found %d aggregate sites)" % len(ctors))
        return
    ctor_fn, ctor_pt, ctor_rv = ctors[0]
    size_fields = set()
    if "vt::Vt::size" in E.summaries:
        for r in E.summaries["vt::Vt::size"].R:
            if len(r) >= 3:
                size_fields.add(r[2])
    else:
        ctx.missing_anchor("H1", "vt::Vt::size")
    from rules import shared as _sh
    rw = _sh.real_writers(w, _sh.screen(w), ctor_fn)
    writers = {f: rw.get(f, set()) for f in fields}
    config = {f for f in fields if not writers[f]}
    exempt = (size_fields & set(fields)) | config
    ctx.extra["exempt_fields"] = {"size (read by Vt::size)": sorted(size_fields & set(fields)), "configuration (no writer outside the constructor)": sorted(config)}

    # ---- H1 coverage ---------------------------------------------------------
    ctx.rule("H1", "every behaviour-carrying field of the terminal is assigned on every path of the Ris handler")
    must = set()
    for h in handlers:
        must |= w.mustwrite.must(h)
    whole = ("arg1",) in must
    for f in fields:
        if f in exempt:
            continue
        ok = ("arg1", f) in must or whole
        ctx.check(
            ok, "H1", f,
            "field `%s` of %s is not assigned on every path of the hard reset (%s): after ESC c it keeps "
            "whatever the previous history left in it" % (f, term_ty, ", ".join(handlers)),
            loc=w.fn_loc(handlers[0]),
            sample={"field": f, "assigned_on_all_paths": True},
        )
    ctx.floor("H1", 15, "terminal fields")

    # ---- H2 sibling agreement -----------------------------------------------------
    ctx.rule("H2", "the value the hard reset assigns to a field is the constructor's value for that field")
    T = w.terms(ctor_fn)
    names = ctor_rv["field_names"]
    ctor_terms = {}
    for nm, op in zip(names, ctor_rv["ops"]):
        ctor_terms[nm] = T.operand(op, ctor_pt)
    # parameter -> field mapping taken from the aggregate itself
    mapping = {}
    for nm, t in ctor_terms.items():
        if t[0] == "load" and t[1][0].startswith("arg"):
            mapping[t] = ("load", ("arg1", nm))
    sites = w.assign_sites(reach, lambda p: len(p) == 2 and p[0] == "arg1")
    # `*self = Terminal { f: v, ..Terminal::new(args) }`: one site per field of the aggregate
    for fn, pt, p, term in w.assign_sites(reach, lambda p: p == ("arg1",)):
        t = WD.strip_names(term)
        if t[0] == "adt" and t[1] == term_ty:
            for nm, ft in zip(t[3], t[4]):
                sites.append((fn, pt, ("arg1", nm), ft))
        elif t[0] == "call" and t[1] == ctor_fn:
            # `*self = Terminal::new(<args>)`: every field takes the constructor's value for those arguments
            for nm in ctor_terms:
                sites.append((fn, pt, ("arg1", nm), ("field", t, nm)))
        else:
            ctx.violation("H2", "whole@" + fn, "%s replaces the whole terminal by %s, which is neither a struct literal nor the constructor" % (fn, w.tstr(fn, term)), loc=w.stmt_loc(fn, pt))
    seen = set()
    for fn, pt, p, term in sites:
        f = p[1]
        if f in exempt or f not in ctor_terms:
            continue
        want = WD.strip_names(WD.subst_term(ctor_terms[f], mapping))
        got = WD.strip_names(term)
        # a field copied out of a fresh `Terminal::new(<current size>, <configured limit>)` is the constructor's value
        if got[0] == "field" and got[2] == f and got[1][0] == "call" and got[1][1] == ctor_fn:
            cargs = got[1][2]
            params = [WD.strip_names(WD.subst_term(("load", ("arg%d" % (i + 1),)), {})) for i in range(len(cargs))]
            amap = {}
            for i, a in enumerate(cargs):
                if a[0] == "tuple":
                    for j, el in enumerate(a[1]):
                        amap[("load", ("arg%d" % (i + 1), str(j)))] = el
                amap[("load", ("arg%d" % (i + 1),))] = a
            got = WD.strip_names(WD.subst_term(ctor_terms[f], amap))
        seen.add(f)
        ctx.check(
            want == got, "H2", "%s@%s" % (f, fn),
            "hard reset assigns `%s` = %s but the constructor initialises it with %s: a reset terminal "
            "differs from a fresh one" % (f, w.tstr(fn, term), w.tstr(ctor_fn, ctor_terms[f])),
            loc=w.stmt_loc(fn, pt),
            sample={"field": f, "reset": w.tstr(fn, term), "constructor": w.tstr(ctor_fn, ctor_terms[f])},
        )
    ctx.floor("H2", 15, "field assignments in the hard reset")

    # ---- H3 parser side (from the extracted tables) -----------------------------------
    ctx.rule("H3", "ESC from every state enters Escape and clears; `c` from Escape dispatches Ris and ends in Ground")
    tb = tables.parser_tables(w)
    for st in tb.states:
        cell = tb.cell(st, 0x1B)
        ctx.check(
            cell.next_state == "Escape" and "clear" in cell.actions and cell.result is None,
            "H3", "ESC@" + st,
            "in state %s ESC does not abort into Escape with the parameters cleared (next=%s actions=%s)" % (st, cell.next_state, cell.actions),
            loc=cell.loc,
            sample={"state": st, "input": "ESC", "next": cell.next_state, "actions": cell.actions},
        )
    cell = tb.cell("Escape", ord("c"))
    res = tb.dispatch_result(cell, ord("c"), intermediate=None)
    ctx.check(
        res is not None and res[0] == "Ris" and cell.next_state == "Ground",
        "H3", "ESC c",
        "ESC c does not dispatch Function::Ris and return to Ground (got %r, next %s)" % (res, cell.next_state),
        loc=cell.loc, sample={"seq": "ESC c", "function": res, "next": cell.next_state},
    )

    # ---- H4 Vt state ---------------------------------------------------------------
    ctx.rule("H4", "Vt has no state besides the parser and the terminal")
    vf = w.facts.struct_fields(WD.VT) or []
    for f in vf:
        ok = f["ty"].get("adt") in (A["terminal_ty"], A["parser_ty"])
        ctx.check(ok, "H4", f["name"], "Vt field `%s: %s` is state that neither the parser table nor the hard reset covers" % (f["name"], f["ty"]["s"]),
                  sample={"field": f["name"], "type": f["ty"]["s"]})
    ctx.floor("H4", 2, "Vt fields")
    # the Ris handler cannot reach the parser: it only receives &mut Terminal
    ctx.note("Ris handler(s): %s; reachable: %d functions" % (handlers, len(reach)))


def run(ctx, w):
    _run(ctx, w)
    # the commands of this property must first of all be DECODED as specified (selector values, parameter slots, finals)
    from rules import c03, shared, tables as _tb
    shared.embed(ctx, w, c03.dispatch_rules)
    # the parser is in its power-on state after the reset: no parameter cell / intermediate survives a clear
    shared.embed(ctx, w, lambda c, ww: c03.run_t7(c, ww, _tb.parser_tables(ww)))
