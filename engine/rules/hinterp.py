"""Abstract evaluation of a terminal handler's HIR with the screen buffer and the
dirty set replaced by OPAQUE symbols: every call on them is recorded (callee +
argument values) instead of executed.  What is extracted is the handler's
decision table - which primitive it calls with which mode / position / range
for each selector value and cursor position class - exactly as tables.py
extracts the parser's.  Nothing of avt runs."""
import hir as H
import symeval as SE
import world as WD
from rules import prims

BUF = ("sym", "BUFFER")
DL = ("sym", "DIRTY")
PEN = ("sym", "PEN")


class HandlerInterp(prims.VecInterp):
    def __init__(self, facts):
        super().__init__(facts)
        self.events = []

    def call_fn(self, path, args):
        if args and args[0] in (BUF, DL):
            self.events.append((path, list(args[1:]), "buffer" if args[0] == BUF else "dirty"))
            out = (self.facts.fns.get(path, {}).get("output") or {}).get("s", "()")
            return ("t", ()) if out == "()" else ("sym", "result of " + path)
        return super().call_fn(path, args)


def default_state(w, S, R, cols, rows):
    """The constructor's state (scalars evaluated, containers opaque) for a cols x rows terminal."""
    from rules import c19
    ctors = c19.constructor_of(w, S.term_ty)
    if len(ctors) != 1:
        raise H.Unsupported("constructor of the terminal")
    cf, cpt, crv = ctors[0]
    T = w.terms(cf)
    it = SE.Interp(w.facts)

    def conv(t):
        if t[0] == "const":
            return t[1]
        if t[0] == "adt" and not t[4]:
            return ("v", "%s::%s" % (t[1], t[2]))
        if t[0] == "array":
            return ("s", tuple(conv(x) for x in t[1]))
        if t[0] == "load" and t[1] == ("arg1", "0"):
            return cols
        if t[0] == "load" and t[1] == ("arg1", "1"):
            return rows
        if t[0] == "binop" and t[1] in ("Sub", "Add"):
            a, b = conv(t[2]), conv(t[3])
            if isinstance(a, int) and isinstance(b, int):
                return a - b if t[1] == "Sub" else a + b
        if t[0] == "call" and not t[2] and t[1] in w.facts.hir:
            try:
                v = it.call_fn(t[1], [])
                if isinstance(v, tuple) and v and v[0] == "obj":
                    nm = v[1] if "selfty" not in str(v[1]) and not str(v[1]).startswith("<") else t[1].split(" as ")[0].lstrip("<")
                    return ("obj", nm, dict(v[2]))
            except H.Unsupported:
                pass
        return ("sym", "opaque")
    return {nm: conv(WD.strip_names(T.operand(op, cpt))) for nm, op in zip(crv["field_names"], crv["ops"])}


def terminal_obj(w, S, R, cols, rows, col, row, **over):
    st = default_state(w, S, R, cols, rows)
    st[S.active_buffer] = BUF
    st[S.dirty_field] = DL
    st[R["pen"]] = PEN
    cur = st.get(R["cursor"])
    if not (isinstance(cur, tuple) and cur[0] == "obj"):
        raise H.Unsupported("cursor default")
    cur = ("obj", cur[1], dict(cur[2], col=col, row=row))
    st[R["cursor"]] = cur
    st.update(over)
    return ("obj", S.term_ty, st)


def run_handler(w, S, R, fn, argvals, cols, rows, col, row, **over):
    """-> (events, final self object).  Raises hir.Unsupported outside the fragment."""
    me = terminal_obj(w, S, R, cols, rows, col, row, **over)
    it = HandlerInterp(w.facts)
    it.call_fn(fn, [me] + list(argvals))
    return it.events, me


def symbolic_terminal(w, S, R, cols, rows, col, row, sb=1):
    """A terminal object with a REAL symbolic buffer (one symbol per cell) and a real dirty set (all clean)."""
    me = terminal_obj(w, S, R, cols, rows, col, row)
    st = me[2]
    bf = w.facts.struct_fields(S.buffer_ty)

    def default_of(f):
        s = f["ty"]["s"]
        if s == "bool":
            return False
        if s == "usize":
            return 0
        if s.startswith("core::option::Option<"):
            return H.NONE_V
        return ("sym", "F_" + f["name"])
    lines = [("obj", S.line_ty, {S.cells_field: prims.Vec([("sym", "s%dc%d" % (r, c)) for c in range(cols)]), S.wrap_field: False}) for r in range(sb)]
    lines += [("obj", S.line_ty, {S.cells_field: prims.Vec([("sym", "r%dc%d" % (r, c)) for c in range(cols)]), S.wrap_field: False}) for r in range(rows)]
    flds = {f["name"]: default_of(f) for f in bf}
    flds.update({S.lines_field: prims.Vec(lines), S.buf_cols: cols, S.buf_rows: rows})
    st[S.active_buffer] = ("obj", S.buffer_ty, flds)
    dlf = w.facts.struct_fields(S.dl_ty)
    if not (dlf and len(dlf) == 1 and dlf[0]["ty"]["s"] == "alloc::vec::Vec<bool>"):
        raise H.Unsupported("dirty set representation")
    st[S.dirty_field] = ("obj", S.dl_ty, {dlf[0]["name"]: prims.Vec([False] * rows)})
    return me


def marks_cover_changes(w, S, R, fn):
    """For every parameter value / cursor position of a small screen: the rows whose cells or soft-wrap mark the
    handler changes are marked dirty by it.  -> (True, n) | (False, description) ; raises Unsupported."""
    fo = w.facts.fns[fn]
    ins = fo.get("inputs", [])[1:]
    if len(ins) > 1:
        raise H.Unsupported("handler with %d parameters" % len(ins))
    domain = [[]]
    cols, rows = 4, 3
    if ins:
        t = ins[0]
        if t.get("adt") in w.facts.adts and w.facts.adts[t["adt"]]["kind"] == "enum":
            domain = [[("v", "%s::%s" % (t["adt"], v))] for v in w.facts.enum_variants(t["adt"])]
        elif t["s"] in ("u16", "usize"):
            domain = [[n] for n in range(0, cols + 2)]
        else:
            raise H.Unsupported("handler parameter of type %s" % t["s"])
    n = 0
    dlf = w.facts.struct_fields(S.dl_ty)[0]["name"]
    for args in domain:
        for row in range(rows):
            for col in range(cols + 1):
                me = symbolic_terminal(w, S, R, cols, rows, col, row)
                before = [(list(l[2][S.cells_field].items), l[2][S.wrap_field]) for l in me[2][S.active_buffer][2][S.lines_field].items]
                it = prims.VecInterp(w.facts)
                it.call_fn(fn, [me] + list(args))
                after = [(list(l[2][S.cells_field].items), l[2][S.wrap_field]) for l in me[2][S.active_buffer][2][S.lines_field].items]
                if len(after) != len(before):
                    raise H.Unsupported("line vector changed length")
                changed = {i - 1 for i, (a, b) in enumerate(zip(before, after)) if a != b}
                if -1 in changed:
                    return False, "%s%s at (%d,%d) changes a scrollback line" % (fn, args, col, row)
                marked = {i for i, v in enumerate(me[2][S.dirty_field][2][dlf].items) if v}
                n += 1
                if not changed <= marked:
                    return False, "%s%s with the cursor at (%d,%d) on a %dx%d screen changes rows %s but marks %s" % (fn, args, col, row, cols, rows, sorted(changed), sorted(marked))
    return True, n


def wrap_mark_semantics(w, S, R, fn, ch=120):
    """The print handler evaluated on small symbolic terminals (3x3, every valid margin pair, every cursor position,
    wrap-pending / auto-wrap / insert mode on and off): whenever a row's soft-wrap mark goes from clear to set, that
    row was the cursor's row, auto-wrap and wrap-pending were on, and the cursor is on a different line afterwards.
    -> (True, cases) | (False, what); raises Unsupported outside the fragment."""
    cols, rows = 3, 3
    n = 0
    margins = [(t, b) for t in range(rows) for b in range(t + 1, rows)] + [(0, rows - 1)]
    for (tm, bm) in sorted(set(margins)):
        for row in range(rows):
            for pending in (False, True):
                for col in ([cols] if pending else range(cols)):
                    for aw in (False, True):
                        if pending and not aw and False:
                            continue
                        for ins in (False, True):
                            me = symbolic_terminal(w, S, R, cols, rows, col, row)
                            st = me[2]
                            st[R["pending_wrap"]] = pending
                            st[R["auto_wrap_mode"]] = aw
                            st[R["insert_mode"]] = ins
                            st[R["top_margin"]] = tm
                            st[R["bottom_margin"]] = bm
                            lines = st[S.active_buffer][2][S.lines_field]
                            before = list(lines.items)
                            flags = {id(l): l[2][S.wrap_field] for l in before}
                            old_line = before[len(before) - rows + row]
                            it = prims.VecInterp(w.facts)
                            it.call_fn(fn, [me, ch])
                            after = list(lines.items)
                            cur = st[R["cursor"]][2]
                            n += 1
                            desc = "%dx%d margins %d..%d cursor (%d,%d) wrap-pending=%s auto-wrap=%s insert=%s" % (cols, rows, tm, bm, col, row, pending, aw, ins)
                            for l in after:
                                if l[2][S.wrap_field] and not flags.get(id(l), False):
                                    if l is not old_line:
                                        return False, "%s: a row other than the cursor's row is marked soft-wrapped" % desc
                                    if not (aw and pending):
                                        return False, "%s: the cursor row is marked soft-wrapped although auto-wrap && wrap-pending does not hold" % desc
                                    new_line = after[len(after) - rows + cur["row"]] if 0 <= cur["row"] < rows else None
                                    if new_line is old_line:
                                        return False, "%s: the cursor row is marked soft-wrapped but the cursor is still on it afterwards (it never left the row)" % desc
    return True, n
