"""Abstract evaluation of a terminal handler's HIR with the screen buffer and the
dirty set replaced by OPAQUE symbols: every call on them is recorded (callee +
argument values) instead of executed.  What is extracted is the handler's
decision table - which primitive it calls with which mode / position / range
for each selector value and cursor position class - exactly as tables.py
extracts the parser's.  Nothing of avt runs."""
import hir as H
import symeval as SE
import world as WD
from rules import prims

BUF = ("sym", "BUFFER")
DL = ("sym", "DIRTY")
PEN = ("sym", "PEN")
TABS = ("sym", "TABS")


class HandlerInterp(prims.VecInterp):
    def __init__(self, facts):
        super().__init__(facts)
        self.events = []

    def call_fn(self, path, args):
        if args and args[0] in (BUF, DL, TABS):
            self.events.append((path, list(args[1:]), "buffer" if args[0] == BUF else "dirty" if args[0] == DL else "tabs"))
            out = (self.facts.fns.get(path, {}).get("output") or {}).get("s", "()")
            return ("t", ()) if out == "()" else ("sym", "result of " + path)
        return super().call_fn(path, args)


_DS = {}


def default_state(w, S, R, cols, rows):
    k = (id(w), cols, rows)
    if k not in _DS:
        _DS[k] = _default_state(w, S, R, cols, rows)
    out = {}
    for nm, v in _DS[k].items():
        out[nm] = ("obj", v[1], dict(v[2])) if isinstance(v, tuple) and v and v[0] == "obj" else v
    return out


def _default_state(w, S, R, cols, rows):
    """The constructor's state (scalars evaluated, containers opaque) for a cols x rows terminal."""
    from rules import c19
    ctors = c19.constructor_of(w, S.term_ty)
    if len(ctors) != 1:
        raise H.Unsupported("constructor of the terminal")
    cf, cpt, crv = ctors[0]
    T = w.terms(cf)
    it = SE.Interp(w.facts)

    def conv(t):
        if t[0] == "const":
            return t[1]
        if t[0] == "adt" and not t[4]:
            return ("v", "%s::%s" % (t[1], t[2]))
        if t[0] == "array":
            return ("s", tuple(conv(x) for x in t[1]))
        if t[0] == "load" and t[1] == ("arg1", "0"):
            return cols
        if t[0] == "load" and t[1] == ("arg1", "1"):
            return rows
        if t[0] == "binop" and t[1] in ("Sub", "Add"):
            a, b = conv(t[2]), conv(t[3])
            if isinstance(a, int) and isinstance(b, int):
                return a - b if t[1] == "Sub" else a + b
        if t[0] == "call" and not t[2] and t[1] in w.facts.hir:
            try:
                v = it.call_fn(t[1], [])
                if isinstance(v, tuple) and v and v[0] == "obj":
                    nm = v[1] if "selfty" not in str(v[1]) and not str(v[1]).startswith("<") else t[1].split(" as ")[0].lstrip("<")
                    return ("obj", nm, dict(v[2]))
            except H.Unsupported:
                pass
        return ("sym", "opaque")
    return {nm: conv(WD.strip_names(T.operand(op, cpt))) for nm, op in zip(crv["field_names"], crv["ops"])}


def terminal_obj(w, S, R, cols, rows, col, row, **over):
    st = default_state(w, S, R, cols, rows)
    st[S.active_buffer] = BUF
    st[S.dirty_field] = DL
    st[R["pen"]] = PEN
    if over.pop("opaque_tabs", False):
        st[R["tabs"]] = TABS
    cur = st.get(R["cursor"])
    if not (isinstance(cur, tuple) and cur[0] == "obj"):
        raise H.Unsupported("cursor default")
    cur = ("obj", cur[1], dict(cur[2], col=col, row=row))
    st[R["cursor"]] = cur
    st.update(over)
    return ("obj", S.term_ty, st)


def run_handler(w, S, R, fn, argvals, cols, rows, col, row, **over):
    """-> (events, final self object).  Raises hir.Unsupported outside the fragment."""
    me = terminal_obj(w, S, R, cols, rows, col, row, **over)
    it = HandlerInterp(w.facts)
    it.call_fn(fn, [me] + list(argvals))
    return it.events, me


def symbolic_terminal(w, S, R, cols, rows, col, row, sb=1):
    """A terminal object with a REAL symbolic buffer (one symbol per cell) and a real dirty set (all clean)."""
    me = terminal_obj(w, S, R, cols, rows, col, row)
    st = me[2]
    bf = w.facts.struct_fields(S.buffer_ty)

    def default_of(f):
        s = f["ty"]["s"]
        if s == "bool":
            return False
        if s == "usize":
            return 0
        if s.startswith("core::option::Option<"):
            return H.NONE_V
        return ("sym", "F_" + f["name"])
    lines = [("obj", S.line_ty, {S.cells_field: prims.Vec([("sym", "s%dc%d" % (r, c)) for c in range(cols)]), S.wrap_field: False}) for r in range(sb)]
    lines += [("obj", S.line_ty, {S.cells_field: prims.Vec([("sym", "r%dc%d" % (r, c)) for c in range(cols)]), S.wrap_field: False}) for r in range(rows)]
    flds = {f["name"]: default_of(f) for f in bf}
    flds.update({S.lines_field: prims.Vec(lines), S.buf_cols: cols, S.buf_rows: rows})
    st[S.active_buffer] = ("obj", S.buffer_ty, flds)
    dlf = w.facts.struct_fields(S.dl_ty)
    if not (dlf and len(dlf) == 1 and dlf[0]["ty"]["s"] == "alloc::vec::Vec<bool>"):
        raise H.Unsupported("dirty set representation")
    st[S.dirty_field] = ("obj", S.dl_ty, {dlf[0]["name"]: prims.Vec([False] * rows)})
    return me


def marks_cover_changes(w, S, R, fn):
    """For every parameter value / cursor position of a small screen: the rows whose cells or soft-wrap mark the
    handler changes are marked dirty by it.  -> (True, n) | (False, description) ; raises Unsupported."""
    fo = w.facts.fns[fn]
    ins = fo.get("inputs", [])[1:]
    if len(ins) > 1:
        raise H.Unsupported("handler with %d parameters" % len(ins))
    domain = [[]]
    cols, rows = 4, 3
    if ins:
        t = ins[0]
        if t.get("adt") in w.facts.adts and w.facts.adts[t["adt"]]["kind"] == "enum":
            domain = [[("v", "%s::%s" % (t["adt"], v))] for v in w.facts.enum_variants(t["adt"])]
        elif t["s"] in ("u16", "usize"):
            domain = [[n] for n in range(0, cols + 2)]
        else:
            raise H.Unsupported("handler parameter of type %s" % t["s"])
    n = 0
    dlf = w.facts.struct_fields(S.dl_ty)[0]["name"]
    states = [(False, 0, rows - 1), (True, 0, rows - 1), (True, 0, rows - 2), (True, 1, rows - 1), (False, 1, rows - 2)]
    for args in domain:
      for (om, tm, bm) in states:
        for row in range(rows):
            for col in range(cols + 1):
                me = symbolic_terminal(w, S, R, cols, rows, col, row)
                me[2][R["origin_mode"]] = om
                me[2][R["top_margin"]] = tm
                me[2][R["bottom_margin"]] = bm
                me[2][R["pending_wrap"]] = (col == cols)
                before = [(list(l[2][S.cells_field].items), l[2][S.wrap_field]) for l in me[2][S.active_buffer][2][S.lines_field].items]
                it = prims.VecInterp(w.facts)
                it.call_fn(fn, [me] + list(args))
                after = [(list(l[2][S.cells_field].items), l[2][S.wrap_field]) for l in me[2][S.active_buffer][2][S.lines_field].items]
                if len(after) != len(before):
                    raise H.Unsupported("line vector changed length")
                changed = {i - 1 for i, (a, b) in enumerate(zip(before, after)) if a != b}
                if -1 in changed:
                    return False, "%s%s at (%d,%d) changes a scrollback line" % (fn, args, col, row)
                marked = {i for i, v in enumerate(me[2][S.dirty_field][2][dlf].items) if v}
                n += 1
                if not changed <= marked:
                    return False, "%s%s with the cursor at (%d,%d) on a %dx%d screen (origin mode %s, margins %d..%d) changes rows %s but marks %s" % (fn, args, col, row, cols, rows, "on" if om else "off", tm, bm, sorted(changed), sorted(marked))
    return True, n


def wrap_mark_semantics(w, S, R, fn, ch=120):
    """The print handler evaluated on small symbolic terminals (3x3, every valid margin pair, every cursor position,
    wrap-pending / auto-wrap / insert mode on and off): whenever a row's soft-wrap mark goes from clear to set, that
    row was the cursor's row, auto-wrap and wrap-pending were on, and the cursor is on a different line afterwards.
    -> (True, cases) | (False, what); raises Unsupported outside the fragment."""
    cols, rows = 3, 3
    n = 0
    margins = [(t, b) for t in range(rows) for b in range(t + 1, rows)] + [(0, rows - 1)]
    for (tm, bm) in sorted(set(margins)):
        for row in range(rows):
            for pending in (False, True):
                for col in ([cols] if pending else range(cols)):
                    for aw in (False, True):
                        if pending and not aw and False:
                            continue
                        for ins in (False, True):
                            me = symbolic_terminal(w, S, R, cols, rows, col, row)
                            st = me[2]
                            st[R["pending_wrap"]] = pending
                            st[R["auto_wrap_mode"]] = aw
                            st[R["insert_mode"]] = ins
                            st[R["top_margin"]] = tm
                            st[R["bottom_margin"]] = bm
                            lines = st[S.active_buffer][2][S.lines_field]
                            before = list(lines.items)
                            flags = {id(l): l[2][S.wrap_field] for l in before}
                            old_line = before[len(before) - rows + row]
                            it = prims.VecInterp(w.facts)
                            it.call_fn(fn, [me, ch])
                            after = list(lines.items)
                            cur = st[R["cursor"]][2]
                            n += 1
                            desc = "%dx%d margins %d..%d cursor (%d,%d) wrap-pending=%s auto-wrap=%s insert=%s" % (cols, rows, tm, bm, col, row, pending, aw, ins)
                            for l in after:
                                if l[2][S.wrap_field] and not flags.get(id(l), False):
                                    if l is not old_line:
                                        return False, "%s: a row other than the cursor's row is marked soft-wrapped" % desc
                                    if not (aw and pending):
                                        return False, "%s: the cursor row is marked soft-wrapped although auto-wrap && wrap-pending does not hold" % desc
                                    new_line = after[len(after) - rows + cur["row"]] if 0 <= cur["row"] < rows else None
                                    if new_line is old_line:
                                        return False, "%s: the cursor row is marked soft-wrapped but the cursor is still on it afterwards (it never left the row)" % desc
    return True, n


CURSOR_SPEC = {
    # variant: (kind, number of parameters)
    "Cuu": ("up", 1), "Cud": ("down", 1), "Cuf": ("right", 1), "Cub": ("left", 1), "Cnl": ("down0", 1), "Cpl": ("up0", 1),
    "Vpr": ("down", 1), "Cha": ("col", 1), "Vpa": ("row", 1), "Cup": ("rowcol", 2), "Bs": ("left1", 0), "Cr": ("cr", 0),
}


def cursor_semantics(w, S, R, full=False):
    """The pure cursor commands evaluated on a 5x5 terminal for every valid margin pair, origin mode on/off, every
    start position incl. the wrap-pending column and parameter values 0,1,2,4,9: the resulting cursor is the one the
    C05 statement prescribes, wrap-pending is cleared, the buffer is not touched, nothing else changes.
    -> (True, cases) | (False, what); raises Unsupported outside the fragment."""
    C, Rr = 5, 5
    n_cases = 0
    margins = sorted({(t, b) for t in range(Rr) for b in range(t + 1, Rr)}) if full else [(0, 4), (1, 3), (0, 2), (2, 4), (1, 2)]
    params = (0, 1, 2, 4, 9) if full else (0, 1, 3, 9)
    for variant, (kind, arity) in sorted(CURSOR_SPEC.items()):
        hs = w.handler(variant)
        if not hs:
            continue
        h = hs[0]
        if len(w.facts.fns[h].get("inputs", [])) != arity + 1:
            raise H.Unsupported("handler %s has %d parameters" % (h, len(w.facts.fns[h].get("inputs", [])) - 1))
        argsets = [[]] if arity == 0 else [[a] for a in params] if arity == 1 else [[a, b] for a in params for b in params]
        for (tm, bm) in margins:
            for om in (False, True):
                for row in range(Rr):
                    for col in range(C + 1):
                      for aw in ((True, False) if col == C else (True,)):      # a pending wrap survives DECAWM being switched off
                        for args in argsets:
                            over = {R["top_margin"]: tm, R["bottom_margin"]: bm, R["origin_mode"]: om, R["pending_wrap"]: col == C, R["auto_wrap_mode"]: aw}
                            ev, me = run_handler(w, S, R, h, list(args), C, Rr, col, row, **over)
                            st = me[2]
                            cur = st[R["cursor"]][2]
                            n_cases += 1
                            c0 = min(col, C - 1)
                            n1 = max(args[0], 1) if args else 1
                            wc, wr = c0, row
                            if kind in ("up", "up0"):
                                wr = max(row - n1, tm if row >= tm else 0)
                            elif kind in ("down", "down0"):
                                wr = min(row + n1, bm if row <= bm else Rr - 1)
                            elif kind == "right":
                                wc = min(c0 + n1, C - 1)
                            elif kind in ("left", "left1"):
                                wc = max(c0 - n1, 0)
                            elif kind == "col":
                                wc = min(n1 - 1, C - 1)
                            if kind in ("up0", "down0", "cr"):
                                wc = 0
                            if kind in ("row", "rowcol"):
                                r1 = max(args[0], 1) - 1
                                wr = min(tm + r1, bm) if om else min(r1, Rr - 1)
                            if kind == "rowcol":
                                wc = min(max(args[1], 1) - 1, C - 1)
                            desc = "%s%s on %dx%d, margins %d..%d, origin mode %s, auto-wrap %s, from (%d,%d)" % (variant, tuple(args), C, Rr, tm, bm, "on" if om else "off", "on" if aw else "off", col, row)
                            if [e for e in ev if e[2] == "buffer"]:
                                return False, "%s touches the buffer (%s)" % (desc, [e[0] for e in ev if e[2] == "buffer"])
                            if (cur["col"], cur["row"]) != (wc, wr):
                                return False, "%s ends at (%s,%s), the statement prescribes (%d,%d)" % (desc, cur["col"], cur["row"], wc, wr)
                            if st[R["pending_wrap"]] is not False:
                                return False, "%s leaves wrap-pending set" % desc
                            for k in ("top_margin", "bottom_margin", "origin_mode"):
                                if st[R[k]] != over[R[k]]:
                                    return False, "%s changes %s" % (desc, k)
    return True, n_cases


def accessor_semantics(w, S, R):
    """Vt::lines / Vt::view (through the terminal) evaluated on a symbolic terminal: lines() is the WHOLE line vector of
    the active buffer (scrollback + view, nothing hidden), view() its last `rows` lines - whatever the configured limit.
    -> (True, n) | (False, what)"""
    import world as WD2
    E = w.E
    out_n = 0
    for api, kind in (("vt::Vt::lines", "all"), ("vt::Vt::view", "view")):
        if api not in w.bodies:
            raise H.Unsupported(api)
        tf = [cs.callee for cs in E.call_sites(api) if cs.local and S._impl_of(cs.callee) == S.term_ty]
        if len(tf) != 1:
            raise H.Unsupported("terminal accessor behind %s" % api)
        lim_fields = [f["name"] for f in w.facts.struct_fields(S.term_ty) if f["ty"]["s"] == "core::option::Option<usize>"]
        for lim in (H.NONE_V, H.some(0), H.some(1)):
            for sb in (0, 1, 3):
                me = symbolic_terminal(w, S, R, 2, 2, 0, 0, sb=sb)
                for lf in lim_fields:
                    me[2][lf] = lim
                it = prims.VecInterp(w.facts)
                r = it.call_fn(tf[0], [me])
                if isinstance(r, prims.View):
                    got = r.get()
                elif isinstance(r, prims.Vec):
                    got = r.items
                else:
                    raise H.Unsupported("accessor result %r" % (r,))
                all_lines = me[2][S.active_buffer][2][S.lines_field].items
                want = all_lines if kind == "all" else all_lines[len(all_lines) - 2:]
                out_n += 1
                if [id(x) for x in got] != [id(x) for x in want]:
                    return False, "%s with %d scrollback line(s), limit %s returns %d line(s); expected %s" % (api, sb, "None" if lim == H.NONE_V else lim[2][0], len(got), "all %d lines of the active buffer" % len(all_lines) if kind == "all" else "the last 2 (the view)")
    return True, out_n


def edit_handlers_semantics(w, S, R):
    """ED / EL (every selector), ECH / ICH / DCH (counts 0..cols+1) and DECALN evaluated as whole handlers on a 4x3
    symbolic terminal for every cursor position incl. the wrap-pending column: exactly the documented cells become
    blanks in the pen ('E' in the default pen for DECALN), the rest of the row shifts for ICH / DCH, every other
    cell and row stays, the cursor stays (DCH leaves the wrap-pending column first), the soft-wrap mark of the cursor
    row is cleared exactly when its tail is erased / characters are deleted.  -> (True, n) | (False, what)"""
    from rules import c07
    cols, rows = 4, 3
    n = 0
    jobs = []
    for (variant, scope), ref in sorted(c07.REF_SCOPES.items()):
        for h in w.handler(variant):
            jobs.append((variant, h, [("v", scope)], ("erase", ref), scope.rsplit("::", 1)[1]))
    # selectors the statement gives no extent (ED 3 "saved lines" ...): nothing on the screen changes
    for variant, enum in (("Ed", "parser::EdScope"), ("El", "parser::ElScope")):
        if enum in w.facts.adts:
            for v in w.facts.enum_variants(enum):
                if (variant, "%s::%s" % (enum, v)) not in c07.REF_SCOPES:
                    for h in w.handler(variant):
                        jobs.append((variant, h, [("v", "%s::%s" % (enum, v))], ("noop", None), v))
    for variant, kind in (("Ech", "ech"), ("Ich", "ich"), ("Dch", "dch")):
        for h in w.handler(variant):
            for cnt in range(0, cols + 2):
                jobs.append((variant, h, [cnt], (kind, None), str(cnt)))
    for h in w.handler("Decaln"):
        jobs.append(("Decaln", h, [], ("decaln", None), ""))
    for variant, h, args, (kind, ref), label in jobs:
        for row in range(rows):
            for col in range(cols + 1):
                me = symbolic_terminal(w, S, R, cols, rows, col, row)
                st = me[2]
                st[R["pending_wrap"]] = (col == cols)
                lines = st[S.active_buffer][2][S.lines_field]
                for l in lines.items:
                    l[2][S.wrap_field] = True
                names = [[c[1] for c in l[2][S.cells_field].items] for l in lines.items]
                it = prims.VecInterp(w.facts)
                it.call_fn(h, [me] + list(args))
                bl = it.call_fn("cell::Cell::blank", [PEN])
                got = []
                for l in lines.items:
                    cs = []
                    for c in l[2][S.cells_field].items:
                        if c == bl:
                            cs.append("blank")
                        elif isinstance(c, tuple) and c[0] == "sym":
                            cs.append(c[1])
                        elif kind == "decaln" and isinstance(c, tuple) and c[0] == "v" and "69" in repr(c[2][0]) and prims.is_default_pen(w.facts, c[2][1]):
                            cs.append("E")
                        else:
                            cs.append("?%r" % (c,))
                    got.append((cs, bool(l[2][S.wrap_field])))
                want = [(list(r), True) for r in names]
                vr = row + 1                      # index into lines (one scrollback line first)
                c0 = min(col, cols - 1)
                wcur = (col, row)
                wpend = (col == cols)
                if kind == "erase":
                    c = ref["cols"]
                    lo, hi = {"col..cols": (col, cols), "0..cols": (0, cols), "0..min(col+1,cols)": (0, min(col + 1, cols))}.get(c, (0, 0))
                    cells = want[vr][0]
                    for x in range(lo, hi):
                        cells[x] = "blank"
                    want[vr] = (cells, False if ref["unwrap"] == "always" else True)
                    rr = ref["rows"]
                    blank_row = (["blank"] * cols, False)
                    if rr == "row+below":
                        for r2 in range(row + 1, rows):
                            want[r2 + 1] = blank_row
                    elif rr == "above+row":
                        for r2 in range(0, row):
                            want[r2 + 1] = blank_row
                    elif rr == "all":
                        for r2 in range(rows):
                            want[r2 + 1] = blank_row
                elif kind == "ech":
                    m = min(max(args[0], 1), cols - col) if col <= cols else 0
                    cells = want[vr][0]
                    for x in range(col, col + m):
                        cells[x] = "blank"
                    want[vr] = (cells, False if col + m == cols else True)
                elif kind == "ich":
                    m = min(max(args[0], 1), cols - col)
                    r0 = names[vr]
                    want[vr] = (r0[:col] + ["blank"] * m + r0[col:cols - m], True)
                elif kind == "dch":
                    if col == cols:
                        wcur, wpend = (cols - 1, row), False
                    cc = wcur[0]
                    m = min(max(args[0], 1), cols - cc)
                    r0 = names[vr]
                    want[vr] = (r0[:cc] + r0[cc + m:] + ["blank"] * m, False)
                elif kind == "decaln":
                    for r2 in range(rows):
                        want[r2 + 1] = (["E"] * cols, got[r2 + 1][1])
                n += 1
                desc = "%s %s with the cursor at (%d,%d)%s on a %dx%d screen" % (variant.upper(), label, col, row, " (wrap pending)" if col == cols else "", cols, rows)
                for i, (g, x) in enumerate(zip(got, want)):
                    if g != x:
                        return False, "%s: row %d becomes %s (soft-wrapped: %s); the documented extent gives %s (soft-wrapped: %s)" % (desc, i - 1, g[0], g[1], x[0], x[1])
                cur = st[R["cursor"]][2]
                if (cur["col"], cur["row"]) != wcur or st[R["pending_wrap"]] != wpend:
                    return False, "%s: cursor / wrap-pending end as (%s,%s)/%s, expected (%d,%d)/%s" % (desc, cur["col"], cur["row"], st[R["pending_wrap"]], wcur[0], wcur[1], wpend)
    return True, n


def print_semantics(w, S, R, h):
    """The print handler evaluated on 3x3 symbolic terminals for every valid margin pair, cursor position, wrap-pending /
    auto-wrap / insert-mode combination, against the C04 statement: deferred wrap first (column 0 of the next row,
    scrolling the region on the bottom margin, marking the row left as soft-wrapped - nothing of that on the last row
    below the region), then the cell goes under the cursor (insert mode shifts the rest right, last cell dropped; the
    last column is always overwritten) and the cursor advances or parks wrap-pending (only with auto-wrap on).
    -> (True, n) | (False, what)"""
    CH = 120
    n = 0
    for cols, rows in ((3, 3), (2, 1), (1, 2), (1, 1)):
      margins = sorted({(t, b) for t in range(rows) for b in range(t + 1, rows)} | {(0, rows - 1)})
      for (tm, bm) in margins:
          for row in range(rows):
              for pending in (False, True):
                  for col in ([cols] if pending else range(cols)):
                      for aw in (False, True):
                          for ins in (False, True):
                              me = symbolic_terminal(w, S, R, cols, rows, col, row)
                              st = me[2]
                              st[R["pending_wrap"]], st[R["auto_wrap_mode"]], st[R["insert_mode"]] = pending, aw, ins
                              st[R["top_margin"]], st[R["bottom_margin"]] = tm, bm
                              lines = st[S.active_buffer][2][S.lines_field]
                              it = prims.VecInterp(w.facts)
                              it.call_fn(h, [me, CH])
                              newc = it.call_fn("cell::Cell::new", [CH, PEN])
                              bl = it.call_fn("cell::Cell::blank", [PEN])

                              def show(c):
                                  if c == newc:
                                      return "NEW"
                                  if c == bl:
                                      return "blank"
                                  return c[1] if isinstance(c, tuple) and c[0] == "sym" else "?%r" % (c,)
                              got = [([show(c) for c in l[2][S.cells_field].items], bool(l[2][S.wrap_field])) for l in lines.items]
                              # ---- specification -----------------------------------------------------------------
                              mat = [(["s0c%d" % c for c in range(cols)], False)] + [(["r%dc%d" % (r, c) for c in range(cols)], False) for r in range(rows)]
                              c_, r_, p_ = col, row, pending
                              if aw and p_:
                                  c_, p_ = 0, False
                                  if r_ == bm:
                                      mat[1 + r_] = (mat[1 + r_][0], True)
                                      blank_row = (["blank"] * cols, False)
                                      if tm == 0:
                                          mat = mat[:1 + bm + 1] + [blank_row] + mat[1 + bm + 1:]
                                      else:
                                          seg = mat[1 + tm + 1:1 + bm + 1] + [blank_row]
                                          mat[tm] = (mat[tm][0], False) if True else mat[tm]      # the row above the region loses continuity
                                          mat = mat[:1 + tm] + seg + mat[1 + bm + 1:]
                                  elif r_ < rows - 1:
                                      mat[1 + r_] = (mat[1 + r_][0], True)
                                      r_ += 1
                              off = len(mat) - rows
                              rowcells = list(mat[off + r_][0])
                              if c_ + 1 >= cols:
                                  rowcells[cols - 1] = "NEW"
                                  if aw:
                                      c_, p_ = cols, True
                              else:
                                  if ins:
                                      rowcells = rowcells[:c_] + ["NEW"] + rowcells[c_:cols - 1]
                                  else:
                                      rowcells[c_] = "NEW"
                                  c_, p_ = c_ + 1, False
                              mat[off + r_] = (rowcells, mat[off + r_][1])
                              n += 1
                              desc = "%dx%d, margins %d..%d, cursor (%d,%d), wrap-pending=%s, auto-wrap=%s, insert=%s" % (cols, rows, tm, bm, col, row, pending, aw, ins)
                              if [g[0] for g in got] != [m[0] for m in mat]:
                                  return False, "%s: the screen becomes %s, the statement gives %s" % (desc, [g[0] for g in got], [m[0] for m in mat])
                              gw = [g[1] for g in got]
                              mw = [m[1] for m in mat]
                              if gw != mw:
                                  return False, "%s: soft-wrap marks become %s, the statement gives %s" % (desc, gw, mw)
                              cur = st[R["cursor"]][2]
                              if (cur["col"], cur["row"], st[R["pending_wrap"]]) != (c_, r_, p_):
                                  return False, "%s: cursor / wrap-pending end as (%s,%s)/%s, the statement gives (%d,%d)/%s" % (desc, cur["col"], cur["row"], st[R["pending_wrap"]], c_, r_, p_)
    return True, n


# ---- invariant preservation ---------------------------------------------------------------------------------------
class MockBufInterp(HandlerInterp):
    """Handlers evaluated with the screen buffer replaced by its CONTRACT: a buffer object that only carries its
    geometry; every method of the buffer type is recorded instead of executed; the re-layout sets the geometry and
    returns an in-bounds cursor (what C10 / C02 decide about the re-layout itself)."""

    def __init__(self, facts, S):
        super().__init__(facts)
        self.S = S

    def call_fn(self, path, args):
        S = self.S
        a0 = args[0] if args else None
        if isinstance(a0, tuple) and a0[:2] == ("obj", S.buffer_ty) and a0[2].get("__mock__") and S._impl_of(path) == S.buffer_ty:
            self.events.append((path, list(args[1:]), "buffer"))
            if path == S.buffer_resize_fn:
                nc, nr, pos = args[1], args[2], args[3]
                same_width = a0[2][S.buf_cols] == nc
                a0[2][S.buf_cols], a0[2][S.buf_rows] = nc, nr
                c, r = (pos[1] if isinstance(pos, tuple) and pos[0] == "t" else (0, 0))
                # contract of the re-layout: the column is re-mapped (into the line) only when the width changes; the row ends inside the view
                return ("t", (c if same_width or not isinstance(c, int) else min(c, nc - 1), min(r, nr - 1) if isinstance(r, int) else r))
            out = (self.facts.fns.get(path, {}).get("output") or {}).get("s", "()")
            return ("t", ()) if out == "()" else ("sym", "result of " + path)
        return super().call_fn(path, args)


def mock_terminal(w, S, R, cols, rows, col, row, **over):
    me = terminal_obj(w, S, R, cols, rows, col, row, **over)
    st = me[2]
    for b in S.buffer_fields:
        st[b] = ("obj", S.buffer_ty, {"__mock__": True, S.buf_cols: cols, S.buf_rows: rows})
    return me


def state_invariant(st, S, R, cols, rows, strict_pending=True):
    """-> None | description of the first violated invariant of a terminal state."""
    cur = st.get(R["cursor"])
    if not (isinstance(cur, tuple) and cur[0] == "obj"):
        return None
    c, r = cur[2].get("col"), cur[2].get("row")
    pw = st.get(R["pending_wrap"])
    if isinstance(c, int) and not 0 <= c <= cols:
        return "cursor column %d on a %d-column screen" % (c, cols)
    if isinstance(r, int) and not 0 <= r < rows:
        return "cursor row %d on a %d-row screen" % (r, rows)
    if isinstance(c, int) and isinstance(pw, bool):
        if c == cols and not pw:
            return "cursor past the last column (col == cols == %d) without wrap-pending" % cols
        if strict_pending and pw and c != cols:
            return "wrap-pending set with the cursor at column %d of %d (a state the dump cannot express: it infers a pending wrap from col >= cols)" % (c, cols)
    tm, bm = st.get(R["top_margin"]), st.get(R["bottom_margin"])
    if isinstance(tm, int) and isinstance(bm, int):
        if not (0 <= tm and bm <= rows - 1 and (tm < bm or rows == 1 and tm == bm == 0)):
            return "scroll region %d..%d on a %d-row screen (needs 0 <= top < bottom <= rows-1)" % (tm, bm, rows)
    for k in ("saved_ctx", "parked_saved_ctx"):
        sc = st.get(R[k]) if R[k] else None
        if isinstance(sc, tuple) and sc[0] == "obj":
            for fld, lim in (("cursor_col", cols), ("cursor_row", rows)):
                v = sc[2].get(fld)
                if isinstance(v, int) and not 0 <= v < lim:
                    return "saved %s %d outside the %dx%d screen" % (fld, v, cols, rows)
    ac = st.get(R["active_charset"])
    cs = st.get(R["charsets"])
    if isinstance(ac, int) and isinstance(cs, tuple) and cs[0] == "s" and not 0 <= ac < len(cs[1]):
        return "active character set index %d of %d" % (ac, len(cs[1]))
    return None


def _arg_domain(w, ty, cols, rows):
    s = ty["s"]
    if s in ("u16", "usize"):
        return sorted({0, 1, rows, cols + 1, 65535})
    if s == "char":
        return [120]
    a = ty.get("adt")
    if a in w.facts.adts and w.facts.adts[a]["kind"] == "enum":
        vs = w.facts.adts[a]["variants"]
        return [("v", "%s::%s" % (a, v["name"])) for v in vs if not v.get("fields")]
    if s.startswith("alloc::vec::Vec<") and ty.get("args") and ty["args"][0].get("adt") in w.facts.adts:
        a = ty["args"][0]["adt"]
        if w.facts.adts[a]["kind"] == "enum":
            return [prims.Vec([("v", "%s::%s" % (a, v["name"]))]) for v in w.facts.adts[a]["variants"] if not v.get("fields")]
    return None


def invariant_preservation(w, S, R, thorough=False):
    """Every command handler and the resize entry evaluated from states that satisfy the state invariant of C02 / C01
    (cursor inside the screen or exactly wrap-pending, 0 <= top < bottom <= rows-1, saved cursors inside the screen):
    the state after the handler satisfies it again.  The buffer is its contract (MockBufInterp).
    -> (violations [(key, text)], evaluated, skipped {variant: reason})"""
    import itertools
    bad, n, skipped = [], 0, {}
    geoms = [(5, 3), (3, 5)] + ([(2, 2), (4, 4)] if thorough else [])
    for variant in sorted(w.anchors["function_variants"]):
        try:
            hs = w.handler(variant)
        except Exception:
            continue
        for h in hs:
            ins = w.facts.fns[h].get("inputs", [])[1:]
            for cols, rows in geoms:
                doms = [_arg_domain(w, t, cols, rows) for t in ins]
                if any(d is None for d in doms):
                    skipped[variant] = "parameter type %s" % [t["s"] for t in ins]
                    break
                # a component the handler cannot read (may-read summary, transitive) needs no variation
                reads = {p_[1] for p_ in w.E.summaries[h].R if p_[0] == "arg1" and len(p_) >= 2}
                margins = [(0, rows - 1)] + ([m for m in ((1, rows - 1), (0, rows - 2), (1, rows - 2)) if m[0] < m[1]] if reads & {R["top_margin"], R["bottom_margin"]} else [])
                for (tm, bm) in margins:
                    for om in ((False, True) if R["origin_mode"] in reads else (False,)):
                        for row in sorted({0, tm, bm, rows - 1}):
                            for col in (0, cols - 1, cols):
                                for args in itertools.product(*doms):
                                    over = {R["top_margin"]: tm, R["bottom_margin"]: bm, R["origin_mode"]: om, R["pending_wrap"]: col == cols}
                                    me = mock_terminal(w, S, R, cols, rows, col, row, **over)
                                    st = me[2]
                                    for k in ("saved_ctx", "parked_saved_ctx"):
                                        sc = st.get(R[k]) if R[k] else None
                                        if isinstance(sc, tuple) and sc[0] == "obj" and "cursor_col" in sc[2]:
                                            st[R[k]] = ("obj", sc[1], dict(sc[2], cursor_col=cols - 1, cursor_row=rows - 1))
                                    it = MockBufInterp(w.facts, S)
                                    try:
                                        it.call_fn(h, [me] + [prims.Vec(list(a.items)) if isinstance(a, prims.Vec) else a for a in args])
                                    except (H.Unsupported, SE.Ret, KeyError, TypeError, AttributeError, IndexError) as ex:
                                        skipped.setdefault(variant, "outside the evaluated fragment: %s" % (str(ex)[:80],))
                                        continue
                                    n += 1
                                    nc, nr = st.get(R["cols"], cols), st.get(R["rows"], rows)
                                    msg = state_invariant(st, S, R, nc if isinstance(nc, int) else cols, nr if isinstance(nr, int) else rows)
                                    if msg and len(bad) < 8 and not any(b[0].startswith(variant + ":") for b in bad):
                                        shown = [("[%s]" % ", ".join(str(x[1]).rsplit("::", 1)[-1] for x in a.items)) if isinstance(a, prims.Vec) else (str(a[1]).rsplit("::", 1)[-1] if isinstance(a, tuple) else a) for a in args]
                                        bad.append(("%s:%s" % (variant, msg.split(" (")[0][:60]), "Function::%s%s on a %dx%d screen (margins %d..%d, origin mode %s) with the cursor at (%d,%d)%s leaves the terminal with %s" %
                                                    (variant, tuple(shown), cols, rows, tm, bm, "on" if om else "off", col, row, " wrap-pending" if col == cols else "", msg)))
    # the resize entry
    rz = S.resize_fn
    for cols, rows in ((4, 4), (5, 3)):
        for nc in (1, 2, cols, cols + 3):
            for nr in (1, 2, 3, rows, rows + 2):
                for (tm, bm) in [(0, rows - 1), (1, rows - 1), (0, rows - 2), (rows - 2, rows - 1)]:
                    if not tm < bm:
                        continue
                    for col, row in ((0, 0), (cols - 1, rows - 1), (cols, rows - 1), (cols, 0)):
                        me = mock_terminal(w, S, R, cols, rows, col, row, opaque_tabs=True, **{R["top_margin"]: tm, R["bottom_margin"]: bm, R["pending_wrap"]: col == cols})
                        st = me[2]
                        for k in ("saved_ctx", "parked_saved_ctx"):
                            sc = st.get(R[k]) if R[k] else None
                            if isinstance(sc, tuple) and sc[0] == "obj" and "cursor_col" in sc[2]:
                                st[R[k]] = ("obj", sc[1], dict(sc[2], cursor_col=cols - 1, cursor_row=rows - 1))
                        it = MockBufInterp(w.facts, S)
                        try:
                            it.call_fn(rz, [me, nc, nr])
                        except (H.Unsupported, SE.Ret, KeyError, TypeError, AttributeError, IndexError) as ex:
                            skipped.setdefault("resize", "outside the evaluated fragment: %s" % (str(ex)[:80],))
                            continue
                        n += 1
                        # after a width change the cursor is what the re-layout returned (in bounds by contract): wrap-pending must be clear then
                        msg = state_invariant(st, S, R, nc, nr, strict_pending=True)
                        if st.get(R["cols"]) != nc or st.get(R["rows"]) != nr:
                            msg = "size %sx%s after resize(%d, %d)" % (st.get(R["cols"]), st.get(R["rows"]), nc, nr)
                        # the parked context belongs to the other screen and is clamped lazily (on the switch back): only the showing one is demanded here
                        if msg and "saved" in msg:
                            sc = st.get(R["saved_ctx"])
                            ok_show = isinstance(sc, tuple) and sc[0] == "obj" and 0 <= sc[2].get("cursor_col", 0) < nc and 0 <= sc[2].get("cursor_row", 0) < nr
                            if ok_show:
                                msg = None
                        if msg and not any(b[0].startswith("resize:") for b in bad):
                            bad.append(("resize:%s" % msg.split(" (")[0][:60], "resize(%d, %d) of a %dx%d terminal (margins %d..%d, cursor (%d,%d)%s) leaves the terminal with %s" % (nc, nr, cols, rows, tm, bm, col, row, " wrap-pending" if col == cols else "", msg)))
    return bad, n, skipped


# ---- per-mode decision table of SM / RM / DECSET / DECRST ------------------------------------------------------------------
def _snapshot(st, S, R):
    out = {}
    for k, v in st.items():
        if k == R["cursor"] and isinstance(v, tuple) and v[0] == "obj":
            for f, x in v[2].items():
                out["cursor." + f] = repr(x)
        elif k in S.buffer_fields:
            out[k] = v[2].get("__tag__", "FRESH") if isinstance(v, tuple) and v[0] == "obj" else repr(v)
        elif k == S.dirty_field:
            continue
        else:
            out[k] = repr(v)
    return out


def mode_semantics(w, S, R):
    """SM / RM / DECSET / DECRST evaluated one mode at a time (buffer = its contract) for both screens, both prior values of
    the flag, cursor in the middle / wrap-pending, origin mode on / off with a partial scroll region: each mode changes
    exactly the components its specification names (frame), with the specified values.  -> [(key, text)], evaluated"""
    cols, rows = 5, 4
    bad, n = [], 0
    tfield = [f for f in w.facts.struct_fields(S.term_ty) if f["name"] == R["active_buffer_type"]][0]
    tadt = tfield["ty"].get("adt")
    PRIM, ALT = ("v", "%s::Primary" % tadt), ("v", "%s::Alternate" % tadt)
    ckf = R["cursor_keys_mode"]
    ck_adt = [f for f in w.facts.struct_fields(S.term_ty) if f["name"] == ckf][0]["ty"].get("adt")
    ck0 = default_state(w, S, R, cols, rows).get(ckf)
    ck_other = [("v", "%s::%s" % (ck_adt, v)) for v in w.facts.enum_variants(ck_adt) if ("v", "%s::%s" % (ck_adt, v)) != ck0]
    CUR = {"cursor.col", "cursor.row", R["pending_wrap"]}
    RESTORE = CUR | {R["pen"], R["origin_mode"], R["auto_wrap_mode"]}
    SWITCH = {R["active_buffer_type"], R["saved_ctx"], R["parked_saved_ctx"], S.active_buffer, S.parked_buffer}
    flag = {"Origin": R["origin_mode"], "AutoWrap": R["auto_wrap_mode"], "Insert": R["insert_mode"], "NewLine": R["new_line_mode"]}
    jobs = []
    for fam, mode_enum, hs_set, hs_rst in (("dec", "parser::DecMode", "Decset", "Decrst"), ("ansi", "parser::AnsiMode", "Sm", "Rm")):
        if mode_enum not in w.facts.adts:
            continue
        for var in w.facts.enum_variants(mode_enum):
            for setting, hv in ((True, hs_set), (False, hs_rst)):
                for h in w.handler(hv):
                    jobs.append((mode_enum, var, setting, hv, h))
    for mode_enum, var, setting, hv, h in jobs:
        for showing in (PRIM, ALT):
            for prior in (False, True):
                for (col, row) in ((2, 2), (cols, 0)):
                    for om in (False, True):
                        over = {R["top_margin"]: 1, R["bottom_margin"]: rows - 2, R["origin_mode"]: om, R["pending_wrap"]: col == cols}
                        me = mock_terminal(w, S, R, cols, rows, col, row, **over)
                        st = me[2]
                        st[S.active_buffer][2]["__tag__"] = "SHOWING"
                        st[S.parked_buffer][2]["__tag__"] = "PARKED"
                        st[R["active_buffer_type"]] = showing
                        if var in flag:
                            st[flag[var]] = prior if var != "Origin" else om
                        if var == "CursorKeys" and prior and ck_other:
                            st[ckf] = ck_other[0]
                        if var == "TextCursorEnable":
                            st[R["cursor"]][2]["visible"] = prior
                        # distinguishable saved contexts, inside the screen
                        for k, (cc, rr) in ((R["saved_ctx"], (1, 3)), (R["parked_saved_ctx"], (3, 1))):
                            sc = st.get(k)
                            if isinstance(sc, tuple) and sc[0] == "obj":
                                d = dict(sc[2])
                                ints = [f for f, x in d.items() if isinstance(x, int) and not isinstance(x, bool)]
                                for f, x in zip(sorted(ints), (cc, rr)):
                                    d[f] = x
                                st[k] = ("obj", sc[1], d)
                        before = _snapshot(st, S, R)
                        it = MockBufInterp(w.facts, S)
                        try:
                            it.call_fn(h, [me, prims.Vec([("v", "%s::%s" % (mode_enum, var))])])
                        except (H.Unsupported, SE.Ret, KeyError, TypeError, AttributeError, IndexError) as ex:
                            bad.append(("%s:%s:eval" % (hv, var), "cannot evaluate %s for mode %s: %s" % (h, var, ex)))
                            break
                        n += 1
                        after = _snapshot(st, S, R)
                        changed = {k for k in set(before) | set(after) if before.get(k) != after.get(k)}
                        is_prim = showing == PRIM
                        frame, req = set(), {}
                        if var in ("AutoWrap", "Insert", "NewLine"):
                            frame = {flag[var]}
                            req = {flag[var]: repr(setting)}
                        elif var == "Origin":
                            frame = {flag[var]} | CUR
                            req = {flag[var]: repr(setting), "cursor.col": "0", "cursor.row": repr(1 if setting else 0), R["pending_wrap"]: "False"}
                        elif var == "CursorKeys":
                            frame = {ckf}
                            req = {ckf: repr(ck_other[0] if setting else ck0)} if ck_other else {}
                        elif var == "TextCursorEnable":
                            frame = {"cursor.visible"}
                            req = {"cursor.visible": repr(setting)}
                        elif var == "AltScreenBuffer":
                            if setting == is_prim:
                                frame = set(SWITCH)
                                req = {R["active_buffer_type"]: repr(ALT if setting else PRIM), R["saved_ctx"]: before[R["parked_saved_ctx"]], R["parked_saved_ctx"]: before[R["saved_ctx"]]}
                                req.update({S.active_buffer: "FRESH", S.parked_buffer: "SHOWING"} if setting else {S.active_buffer: "PARKED", S.parked_buffer: "SHOWING"})
                        elif var == "SaveCursor":
                            frame = {R["saved_ctx"]} if setting else set(RESTORE)
                            if not setting:
                                req = {R["pending_wrap"]: "False"}
                        elif var == "SaveCursorAltScreenBuffer":
                            if setting:
                                frame = {R["saved_ctx"]} | (SWITCH if is_prim else set())
                                if is_prim:
                                    req = {R["active_buffer_type"]: repr(ALT), R["saved_ctx"]: before[R["parked_saved_ctx"]], S.active_buffer: "FRESH", S.parked_buffer: "SHOWING"}
                            else:
                                frame = set(RESTORE) | (SWITCH if not is_prim else set())
                                req = {R["pending_wrap"]: "False"}
                                if not is_prim:
                                    req.update({R["active_buffer_type"]: repr(PRIM), R["saved_ctx"]: before[R["parked_saved_ctx"]], R["parked_saved_ctx"]: before[R["saved_ctx"]],
                                                S.active_buffer: "PARKED", S.parked_buffer: "SHOWING"})
                        else:
                            frame = None          # a mode this table does not know: not judged
                        if frame is None:
                            continue
                        desc = "%s %s with the %s screen showing, flag previously %s, origin mode %s, cursor (%d,%d)%s" % (
                            hv.upper(), var, "primary" if is_prim else "alternate", "on" if prior else "off", "on" if om else "off", col, row, " wrap-pending" if col == cols else "")
                        key = None
                        extra = sorted(changed - frame)
                        if extra:
                            key, text = "%s:%s:frame:%s" % (hv, var, extra[0]), "%s changes %s, which this mode must leave alone (it may change only %s)" % (desc, extra, sorted(frame))
                        else:
                            for k, want in sorted(req.items()):
                                if after.get(k) != want:
                                    key, text = "%s:%s:value:%s" % (hv, var, k), "%s leaves %s = %s, the specification gives %s" % (desc, k, after.get(k), want)
                                    break
                        if not key and var in ("AltScreenBuffer", "SaveCursorAltScreenBuffer") and S.active_buffer in changed:
                            # nothing of the buffer being parked / discarded is reused: the only buffer calls allowed are on the buffer that ends up showing
                            pass
                        if key and not any(b[0] == key for b in bad):
                            bad.append((key, text))
                    else:
                        continue
                    break
                else:
                    continue
                break
            else:
                continue
            break
    return bad, n


# ---- decision table of the scrolling commands ----------------------------------------------------------------------------
def scroll_handlers_semantics(w, S, R, up, down):
    """SU / SD / IL / DL / LF / NEL / RI evaluated with the buffer opaque (every call on it recorded) on a 4x6 terminal for
    every margin pair, cursor row, count class (0, 1, 2, height-1, height, height+1, 65535): the command makes exactly the
    scroll-primitive call the C06 statement implies - primitive, range (region; cursor row .. bottom margin / last row),
    a count that the primitive's own cap turns into min(n, height) with n = max(parameter, 1), the current pen - or none
    at all, and moves the cursor only as specified.  -> [(key, text)], evaluated"""
    cols, rows = 4, 6
    bad, n = [], 0
    margins = sorted({(t, b) for t in range(rows) for b in range(t + 1, rows)})
    kinds = {"Su": "su", "Sd": "sd", "Il": "il", "Dl": "dl", "Lf": "lf", "Nel": "nel", "Ri": "ri"}
    for variant, kind in sorted(kinds.items()):
        try:
            hs = w.handler(variant)
        except Exception:
            continue
        for h in hs:
            arity = len(w.facts.fns[h].get("inputs", [])) - 1
            for (tm, bm) in margins:
                height = bm - tm + 1
                counts = sorted({0, 1, 2, height - 1, height, height + 1, 65535}) if arity == 1 else [None]
                for row in range(rows):
                    for col in (1, cols):
                        for nl in ((False, True) if kind == "lf" else (False,)):
                            for cnt in counts:
                                over = {R["top_margin"]: tm, R["bottom_margin"]: bm, R["pending_wrap"]: col == cols, R["new_line_mode"]: nl}
                                try:
                                    ev, me = run_handler(w, S, R, h, [cnt] if arity == 1 else [], cols, rows, col, row, **over)
                                except (H.Unsupported, SE.Ret, KeyError, TypeError, AttributeError) as ex:
                                    return [("%s:eval" % variant, "cannot evaluate %s: %s" % (h, ex))], n
                                n += 1
                                st = me[2]
                                cur = st[R["cursor"]][2]
                                calls = [(e[0], e[1]) for e in ev if e[2] == "buffer"]
                                nn = max(cnt, 1) if cnt is not None else 1
                                want_call, wc, wr, wp = None, col, row, col == cols
                                if kind in ("su", "sd"):
                                    want_call = (up if kind == "su" else down, (tm, bm + 1), nn)
                                elif kind in ("il", "dl"):
                                    want_call = (down if kind == "il" else up, (row, bm + 1 if row <= bm else rows), nn)
                                elif kind in ("lf", "nel"):
                                    if row == bm:
                                        want_call = (up, (tm, bm + 1), 1)
                                    elif row < rows - 1:
                                        wr = row + 1
                                    if kind == "nel" or nl:
                                        wc, wp = 0, False
                                    elif wr != row:
                                        # a vertical move leaves the wrap-pending column (C05)
                                        wc, wp = min(col, cols - 1), False
                                elif kind == "ri":
                                    if row == tm:
                                        want_call = (down, (tm, bm + 1), 1)
                                    elif row > 0:
                                        wr = row - 1
                                        wc, wp = min(col, cols - 1), False
                                desc = "%s%s on a %dx%d screen, margins %d..%d, cursor (%d,%d)%s%s" % (variant.upper(), "" if cnt is None else " %d" % cnt, cols, rows, tm, bm, col, row, " wrap-pending" if col == cols else "", ", new-line mode" if nl else "")
                                key = text = None
                                if want_call is None:
                                    if calls:
                                        key, text = "%s:scrolls" % variant, "%s calls %s although nothing may scroll here" % (desc, [c[0] for c in calls])
                                else:
                                    fn_, (lo, hi), cnt_w = want_call
                                    okc = len(calls) == 1 and calls[0][0] == fn_ and len(calls[0][1]) >= 3
                                    if okc:
                                        rg, got_n, pen = calls[0][1][0], calls[0][1][1], calls[0][1][2]
                                        okc = isinstance(rg, tuple) and rg[0] == "range" and (rg[1], rg[2] + (1 if rg[3] else 0)) == (lo, hi) and isinstance(got_n, int) \
                                            and min(got_n, hi - lo) == min(cnt_w, hi - lo) and pen == PEN
                                    if not okc:
                                        key, text = "%s:call" % variant, "%s makes the buffer calls %s; the statement implies one call of %s on rows %d..%d by min(%d, %d) in the current pen" % (
                                            desc, [(c[0].rsplit("::", 1)[-1], c[1][:2]) for c in calls], fn_.rsplit("::", 1)[-1], lo, hi, cnt_w, hi - lo)
                                if not key and kind in ("su", "sd", "il", "dl") and ((cur["col"], cur["row"]) != (col, row)):
                                    key, text = "%s:cursor" % variant, "%s moves the cursor to (%s,%s)" % (desc, cur["col"], cur["row"])
                                if not key and kind in ("lf", "nel", "ri") and ((cur["col"], cur["row"]) != (wc, wr) or (st[R["pending_wrap"]] != wp and (wr != row or wc != col))):
                                    key, text = "%s:cursor" % variant, "%s ends at (%s,%s) wrap-pending=%s, the statement gives (%d,%d)" % (desc, cur["col"], cur["row"], st[R["pending_wrap"]], wc, wr)
                                if key and not any(b_[0] == key for b_ in bad):
                                    bad.append((key, text))
    return bad, n
