"""C04 - printing, auto-wrap, insert mode and charsets put characters where they belong."""
import hir as H
import mir as M
import reference as REF
import world as WD
from rules import shared, c05


def _run(ctx, w):
    S = shared.screen(w)
    R = shared.roles(w)
    E = w.E
    cur = R["cursor"]
    ctx.explanation = ("The print path is decided by rules on the Print/Rep handlers: operand provenance of the written cell, control dependence of the wrap mark, "
                       "the wrap-pending flag and the insert/overwrite choice on the modes, the glyph table against the VT100 reference, and the frame.")
    ctx.decided = ["Y1 DEC special graphics table and its range guard (exhaustive over all code points by interval partition)", "Y2 the cell written is (translate(active charset, ch), current pen)",
                   "Y3 a row is marked soft-wrapped only when the cursor really leaves it because of auto-wrap", "Y4 wrap-pending is set only with auto-wrap on, at col == cols",
                   "Y5 insert vs overwrite, and the last-column rule", "Y6 REP acts only through the print path", "Y7 frame of Print/Rep"]
    ctx.not_decided = ["column arithmetic of where a character lands beyond the operands checked", "scroll contents on wrap (C06)"]
    charset_rules(ctx, w)
    print_rules(ctx, w, S, R)
    # Y0: every printable code point reaches the print handler at all (Ground row of the transition table)
    from rules import c03, tables
    tb = tables.parser_tables(w)
    c03.run_transition(ctx, w, tb, only_states=["Ground"], rule="Y0")
    ctx.floor("Y0", 20, "Ground-state cells")
    shared.stale_operands(ctx, w, S, R, "Y8", ["Print", "Rep"])
    from rules import prims
    prims.row_primitives(ctx, w, S, "Y9")
    ctx.floor("Y9", 100, "row primitive evaluations")
    from rules import c02
    c02.relayout_clears_wrap(ctx, w, S, R, "Y10")
    shared.mode_arm_siblings(ctx, w, S, R, "Y11")
    # "no other cell or soft-wrap mark changes": the buffer-level print / insert primitives against their specification
    from rules import prims as _prims
    _prims.buffer_edit_primitives(ctx, w, S, R, "Y9b", spec=True)
    # the wrap-pending position is left by every cursor command (else the next character wraps where it should overwrite)
    _c05w = __import__("rules.c05", fromlist=["x"])
    _c05w.wrap_pending_rule(ctx, w, S, R)
    _c05w.cursor_verdict(ctx, w, S, R, "Y12")
    # where a wrapping character scrolls depends on the bottom margin: its validity and its reset on height changes
    from rules import c05 as _c05
    _c05.margin_rules(ctx, w, S, R)


def charset_rules(ctx, w):
    ctx.rule("Y1", "Charset::translate maps 0x60..0x7E to the VT100 special graphics glyphs under the drawing set and is the identity otherwise")
    fn = "charset::Charset::translate"
    if fn not in w.facts.hir:
        ctx.missing_anchor("Y1", fn)
        return
    hb = w.hir(fn)
    names = [p["name"] for p in hb["params"]]
    lits = H.expr_literals(hb["body"])
    for n in H.walk(hb["body"]):
        if n.get("p"):
            H.pat_literals(n, lits)
    lits |= {0xD800, 0xE000, 0x60, 0x7F, 0x80, 0x100}
    atoms = [a for a in H.partition(lits, 0, 0x110000) if not (0xD800 <= a[0] < 0xE000)]
    table = None
    for c in w.facts.consts.values():
        v = c.get("value") or {}
        if c["ty"]["s"].startswith("[char;") and "array" in v:
            table = v["array"]
            table_path = c["path"]
    if table is None:
        ctx.missing_anchor("Y1", "glyph table constant ([char; N])")
        return
    ok = len(table) == len(REF.SPECIAL_GRAPHICS)
    for i, g in enumerate(table[:len(REF.SPECIAL_GRAPHICS)]):
        alts = REF.SPECIAL_GRAPHICS_ALT.get(i, (REF.SPECIAL_GRAPHICS[i],))
        good = g == REF.SPECIAL_GRAPHICS[i] or g in alts
        ctx.check(good, "Y1", "glyph[0x%02X]" % (0x60 + i), "special graphics glyph for 0x%02X is U+%04X, VT100 reference is U+%04X" % (0x60 + i, g, REF.SPECIAL_GRAPHICS[i]),
                  loc=w.fn_loc(fn), sample={"code": "0x%02X" % (0x60 + i), "glyph": "U+%04X" % g})
    ctx.check(ok, "Y1", "table-length", "the glyph table has %d entries, the drawing set has %d" % (len(table), len(REF.SPECIAL_GRAPHICS)))
    env0 = {("const", table_path): ("s", tuple(table))}
    for cs_name in ("Ascii", "Drawing"):
        for a in atoms:
            for x in sorted({a[0], a[1] - 1}):
                env = dict(env0)
                env[names[0]] = ("v", "charset::Charset::" + cs_name)
                env[names[1]] = x
                try:
                    got = eval_translate(hb["body"], env, table)
                except H.Unsupported as e:
                    got = "unsupported: %s" % e
                want = table[x - 0x60] if (cs_name == "Drawing" and 0x60 <= x <= 0x7E and x - 0x60 < len(table)) else x
                ctx.check(got == want, "Y1", "%s/U+%04X" % (cs_name, x), "translate(%s, U+%04X) = %r, expected U+%04X" % (cs_name, x, got, want), loc=w.fn_loc(fn),
                          sample={"charset": cs_name, "input": "U+%04X" % x, "output": got})
    ctx.floor("Y1", 40, "glyphs and translate classes")


def eval_translate(body, env, table):
    body = H.unwrap(body)
    if H.is_k(body, "block"):
        for s in body.get("stmts", []):
            if s["k"] == "let" and s["pat"]["p"] == "bind":
                env[s["pat"]["name"]] = eval_translate(s["init"], env, table)
            else:
                raise H.Unsupported("statement")
        return eval_translate(body["expr"], env, table)
    if H.is_k(body, "match"):
        v = eval_translate(body["scrut"], env, table)
        i, arm, e2 = H.first_arm(body, v, env)
        if arm is None:
            raise H.Unsupported("no arm")
        return eval_translate(arm["body"], e2, table)
    if H.is_k(body, "if"):
        c = eval_translate(body["cond"], env, table)
        return eval_translate(body["then"] if c else body["else"], env, table)
    if H.is_k(body, "index"):
        base = eval_translate(body["base"], env, table)
        idx = eval_translate(body["idx"], env, table)
        if isinstance(base, tuple) and base[0] == "s":
            if not (0 <= idx < len(base[1])):
                raise H.Unsupported("index %d out of the table" % idx)
            return base[1][idx]
        raise H.Unsupported("index")
    if H.is_k(body, "path") and body.get("res") == "def" and ("const", body.get("path")) in env:
        return env[("const", body["path"])]
    if H.is_k(body, "cast") or H.is_k(body, "binary") or H.is_k(body, "unary") or H.is_k(body, "mcall") or H.is_k(body, "ref"):
        # evaluate sub-terms that may contain an index first
        if H.is_k(body, "binary"):
            l = eval_translate(body["l"], env, table)
            r = eval_translate(body["r"], env, table)
            return H.eval_expr({"k": "binary", "op": body["op"], "ty": body.get("ty"), "l": lit(l), "r": lit(r)}, env)
        if H.is_k(body, "cast"):
            v = eval_translate(body["e"], env, table)
            return H.eval_expr({"k": "cast", "ty": body.get("ty"), "e": lit(v)}, env)
        return H.eval_expr(body, env)
    return H.eval_expr(body, env)


def lit(v):
    if isinstance(v, bool):
        return {"k": "lit", "t": "bool", "v": v}
    if isinstance(v, int):
        return {"k": "lit", "t": "int", "v": v}
    raise H.Unsupported("non-integer operand")


_Y3SEM = {}


def print_verdict(w, S, R):
    """(ok, info) of the print handler's semantic form (hinterp.print_semantics), cached per fact set."""
    c = getattr(w.facts, "_print_verdict", None)
    if c is None:
        try:
            from rules import hinterp
            hs = w.handler("Print")
            c = hinterp.print_semantics(w, S, R, hs[0]) if len(hs) == 1 else (False, "no single Print handler")
        except Exception as ex:
            c = (False, "cannot evaluate the print handler: %r" % (ex,))
        w.facts._print_verdict = c
    return c


def print_ok(w, S, R):
    return print_verdict(w, S, R)[0] is True


def print_rules(ctx, w, S, R):
    _Y3SEM.clear()
    # Y13: the whole print clause, semantically
    ctx.rule("Y13", "the print handler evaluated on small symbolic terminals (3x3, 2x1, 1x2, 1x1; every valid margin pair, cursor position, wrap-pending / auto-wrap / insert-mode combination) does exactly what the "
                    "statement says: deferred wrap first (column 0 of the next row, region scrolled on the bottom margin, the row left marked soft-wrapped; nothing of that on the last row below the region), then the "
                    "cell under the cursor (insert mode shifts, the last column is overwritten), then advance or park wrap-pending (auto-wrap on only)")
    okp, infop = print_verdict(w, S, R)
    ctx.check(okp is True, "Y13", "print", str(infop), loc=w.fn_loc(w.handler("Print")[0]) if w.handler("Print") else None, sample={"cases": infop})
    if okp is True:
        ctx.rule_counts["Y13"] = infop
    ctx = shared.Deferred(ctx, {"Y4", "Y5"}, okp is True)       # shape forms of clauses the evaluated print handler (Y13) decides
    E = w.E
    cur = R["cursor"]
    hs = w.handler("Print")
    if len(hs) != 1:
        ctx.missing_anchor("Y2", "single Print handler")
        return
    h = hs[0]
    b = w.body(h)
    T = w.terms(h)
    col_t, row_t = ("load", ("arg1", cur, "col")), ("load", ("arg1", cur, "row"))
    cols_t, rows_t = ("load", ("arg1", R["cols"])), ("load", ("arg1", R["rows"]))
    aw, pw, im = ("load", ("arg1", R["auto_wrap_mode"])), ("load", ("arg1", R["pending_wrap"])), ("load", ("arg1", R["insert_mode"]))

    ctx.rule("Y7", "printing writes only the active buffer, the cursor position, wrap-pending and the dirty set")
    allowed = [(S.active_buffer,), (S.dirty_field,), (cur, "col"), (cur, "row"), (R["pending_wrap"],)]
    for v in ("Print", "Rep"):
        shared.frame(ctx, w, "Y7", v, allowed, "no mode, pen, margin, tab stop or character set may change when a character is printed")

    # ---- Y2 the cell -----------------------------------------------------------------------------------
    ctx.rule("Y2", "the cell written is Cell::new(translate(charsets[active_charset], ch), current pen)")
    writes = [cs for cs in E.call_sites(h) if cs.local and S._impl_of(cs.callee) == S.buffer_ty and any(S.is_row_content(p) for p in cs.W)]
    want_cell = ("call", "cell::Cell::new", (
        ("call", "charset::Charset::translate", (("ref", False, ("load", ("arg1", R["charsets"], ("idx", ("load", ("arg1", R["active_charset"])))))), ("load", ("arg2",)))),
        ("load", ("arg1", R["pen"]))))
    for cs in writes:
        ins = w.facts.fns[cs.callee]["inputs"]
        ci = [i for i, t in enumerate(ins) if t["s"] == "cell::Cell"]
        if not ci:
            continue
        t = WD.strip_names(T.operand(cs.term["args"][ci[0]], cs.point))
        ctx.check(t == want_cell, "Y2", shared.site_key(w, h, cs.point), "the cell written by %s is %s, expected %s" % (cs.callee, w.tstr(h, t), w.tstr(h, want_cell)), loc=w.site_loc(cs),
                  sample={"site": shared.site_key(w, h, cs.point), "cell": w.tstr(h, t)})
    ctx.floor("Y2", 3, "cell writes in the print handler")
    # Y2t: every printable character ends up in a cell: every path writes one, and no branch looks at the character
    ctx.rule("Y2t", "every path through the print handler writes a cell, and no branch of it depends on the character being printed (width, class, value)")
    cw = {cs.point for cs in writes if [i for i, t in enumerate(w.facts.fns[cs.callee]["inputs"]) if t["s"] == "cell::Cell"]}
    ctx.check(bool(cw) and b.every_path_to_return_hits((0, 0), cw, include_start=True), "Y2t", h + ":always",
              "%s can return without writing the character into a cell: some printable characters are silently dropped from the screen (and from text())" % h, loc=w.fn_loc(h), sample={"cell_writes": len(cw)})
    for blk in sorted(b.normal_blocks()):
        t = b.term(blk)
        if t["k"] != "switch":
            continue
        c = WD.strip_names(T.operand(t["discr"], (blk, b.n_stmts(blk))))
        dep = ("load", ("arg2",)) in _subterms(c)
        ctx.check(not dep, "Y2t", h + ":branch:" + shared.site_key(w, h, (blk, b.n_stmts(blk))), "%s branches on %s, which depends on the character being printed: where a character goes must not depend on which character it is" %
                  (h, w.tstr(h, c)[:100]), loc=w.stmt_loc(h, (blk, b.n_stmts(blk))), sample={"condition": w.tstr(h, c)[:100]})
    ctx.floor("Y2t", 3, "print paths / branches")
    # Cell::new stores what it is given, the accessors return it
    cn = "cell::Cell::new"
    if cn in w.bodies:
        cb = w.body(cn)
        CT = w.terms(cn)
        rts = [WD.strip_names(CT.local(0, (rb, cb.n_stmts(rb)))) for rb in cb.return_blocks()]
        ctx.check(all(t[0] == "adt" and t[4] == (("load", ("arg1",)), ("load", ("arg2",))) for t in rts), "Y2", cn, "Cell::new does not store (char, pen) as given", loc=w.fn_loc(cn))

    # ---- Y3 wrap mark --------------------------------------------------------------------------------------
    ctx.rule("Y3", "a row is marked soft-wrapped only under auto-wrap && wrap-pending, for the cursor's row, and only when the cursor then leaves that row (scroll or move down) on every path")
    setters = [fn for fn in w.bodies if S._impl_of(fn) == S.buffer_ty and E.summaries[fn].W and all(p[-1] == S.wrap_field for p in E.summaries[fn].W) and S._bool_consts(fn) == {True}]
    if len(setters) != 1:
        ctx.missing_anchor("Y3", "the buffer method that sets the soft-wrap mark", "(found %s)" % setters)
    else:
        setter = setters[0]
        callers = [cs for cs in E.callers_of(setter) if cs.term is not None]
        up = None
        from rules import c06
        up, down = c06.scroll_prims(w, S)
        for cs in callers:
            f = cs.body
            key = "%s:%s" % (f, shared.site_key(w, f, cs.point))
            if f != h:
                ctx.violation("Y3", key, "%s sets a soft-wrap mark outside the print handler" % f, loc=w.site_loc(cs))
                continue
            gs = [(WD.strip_names(c), v) for c, v in w.guards_of(f, cs.point[0])]
            g = any(c == aw and v is True for c, v in gs) and any(c == pw and v is True for c, v in gs)
            rt = WD.strip_names(T.operand(cs.term["args"][1], cs.point))

            def sem_y3():
                """the semantic form of the whole clause, evaluated once"""
                if "v" not in _Y3SEM:
                    try:
                        from rules import hinterp
                        _Y3SEM["v"] = hinterp.wrap_mark_semantics(w, S, R, h)
                    except Exception as ex:
                        _Y3SEM["v"] = (False, "semantic evaluation not possible: %s" % (ex,))
                return _Y3SEM["v"]
            if not g and sem_y3()[0]:
                g = True
            ctx.check(g, "Y3", key + ":guard", "the soft-wrap mark is set without having established auto_wrap && wrap_pending (guards: %s)" % [(w.tstr(f, c), v) for c, v in gs], loc=w.site_loc(cs),
                      sample={"site": key, "guards": [(w.tstr(f, c), v) for c, v in gs]})
            okr = rt == row_t or sem_y3()[0]
            ctx.check(okr, "Y3", key + ":row", "the soft-wrap mark is set on row %s instead of the row the cursor is leaving [%s]" % (w.tstr(f, rt), sem_y3()[1] if not okr else ""), loc=w.site_loc(cs))
            # leaves the row afterwards on every path (a callee counts only if IT scrolls / moves down on every one of its paths)
            def always_leaves(g, depth=0):
                if depth > 4 or g not in w.bodies:
                    return False
                gb = w.body(g)
                GT = w.terms(g)
                lv = set()
                for c3 in E.call_sites(g):
                    if c3.callee == up:
                        lv.add(c3.point)
                    elif c3.local and c3.callee in S.terminal_scope and always_leaves(c3.callee, depth + 1):
                        lv.add(c3.point)
                    elif c3.local and len(c3.term["args"]) == 2 and WD.strip_names(GT.operand(c3.term["args"][1], c3.point)) == ("binop", "Add", row_t, ("const", 1)) \
                            and ("arg1", cur, "row") in E.summaries[c3.callee].W:
                        lv.add(c3.point)
                return bool(lv) and gb.every_path_to_return_hits((0, 0), lv, include_start=True)
            leave = set()
            for c2 in E.call_sites(f):
                if not c2.local:
                    continue
                if c2.callee in S.terminal_scope and always_leaves(c2.callee):
                    leave.add(c2.point)
                if len(c2.term["args"]) == 2 and WD.strip_names(T.operand(c2.term["args"][1], c2.point)) == ("binop", "Add", row_t, ("const", 1)) \
                        and ("arg1", cur, "row") in E.summaries[c2.callee].W:
                    leave.add(c2.point)
            okl = b.every_path_to_return_hits(cs.point, leave)
            why_sem = ""
            if not okl:
                # shape not recognised (e.g. the mark hoisted in front of a helper that decides scroll / move / stay):
                # decide the clause semantically on small symbolic terminals
                oks, info = sem_y3()
                if oks:
                    okl = True
                else:
                    why_sem = " [" + str(info) + "]"
            ctx.check(okl, "Y3", key + ":leaves", "after marking the row soft-wrapped some path neither scrolls the region nor moves the cursor down: a row the cursor never left is marked as continuing on the next row "
                      "(e.g. the last row when it lies below the scroll region)" + why_sem, loc=w.site_loc(cs), sample={"site": key, "leave_sites": len(leave)})
            # no write to the cursor row between the guard and the mark
        ctx.floor("Y3", 3, "wrap-mark obligations")

    # ---- Y4 wrap pending ------------------------------------------------------------------------------------------
    ctx.rule("Y4", "wrap-pending is set only when auto-wrap is on, right after the column was set to cols")
    pw_path = ("arg1", R["pending_wrap"])
    sets = [(fn, pt, t) for fn, pt, p, t in w.assign_sites(S.terminal_scope, lambda p: p == pw_path) if t == ("const", True)]
    for fn, pt, t in sets:
        gs = [(WD.strip_names(c), v) for c, v in w.guards_of(fn, pt[0])]
        TT = w.terms(fn)
        g = any(c == aw and v is True for c, v in gs)
        ctx.check(g and fn == h, "Y4", "%s:%s" % (fn, shared.site_key(w, fn, pt)), "wrap-pending is set in %s without auto-wrap being established on (guards: %s)" % (fn, [(w.tstr(fn, c), v) for c, v in gs]),
                  loc=w.stmt_loc(fn, pt), sample={"fn": fn, "guards": [(w.tstr(fn, c), v) for c, v in gs]})
        # dominated by a column write with value cols, with no other column write in between
        bb = w.body(fn)
        colw = [c2 for c2 in E.call_sites(fn) if c2.local and ("arg1", cur, "col") in E.summaries[c2.callee].W and len(c2.term["args"]) == 2
                and WD.strip_names(TT.operand(c2.term["args"][1], c2.point)) == cols_t and bb.point_dominates(c2.point, pt)]
        ok = False
        for c2 in colw:
            between = bb.points_between(c2.point, pt)
            if not any(("arg1", cur, "col") in E.writes_at(fn, q) for q in between):
                ok = True
        ctx.check(ok, "Y4", "%s:%s:col" % (fn, shared.site_key(w, fn, pt)), "wrap-pending is set without the column having just been set to cols (col == cols <=> wrap pending)", loc=w.stmt_loc(fn, pt))
    ctx.floor("Y4", 2, "wrap-pending sets")

    # ---- Y5 insert / overwrite / last column -----------------------------------------------------------------------
    ctx.rule("Y5", "in the last column the character overwrites column cols-1 whatever the insert mode; elsewhere insert mode shifts by exactly one cell, replace mode overwrites at the cursor")
    last_guard = lambda c: c[0] == "binop" and c[1] == "Ge" and norm(c[2]) == norm(("binop", "Add", col_t, ("const", 1))) and c[3] == cols_t
    for cs in writes:
        gs = [(WD.strip_names(c), v) for c, v in w.guards_of(h, cs.point[0])]
        pos = WD.strip_names(T.operand(cs.term["args"][1], cs.point))
        key = shared.site_key(w, h, cs.point)
        in_last = [v for c, v in gs if last_guard(c)]
        ins_g = [v for c, v in gs if c == im]
        is_insert = E.summaries[cs.callee].W and any(t["s"] == "usize" for t in w.facts.fns[cs.callee]["inputs"][1:])
        if pos == ("tuple", (("binop", "Sub", cols_t, ("const", 1)), row_t)):
            ok = in_last == [True] and not ins_g and not is_insert
            ctx.check(ok, "Y5", key + ":last-column", "the write at column cols-1 must happen exactly when col+1 >= cols and must not depend on insert mode (guards: %s)" % [(w.tstr(h, c), v) for c, v in gs],
                      loc=w.site_loc(cs), sample={"site": key, "position": w.tstr(h, pos), "guards": [(w.tstr(h, c), v) for c, v in gs]})
        elif pos == ("tuple", (col_t, row_t)):
            if is_insert:
                n = T.operand(cs.term["args"][2], cs.point)
                ok = in_last == [False] and ins_g == [True] and n == ("const", 1)
                ctx.check(ok, "Y5", key + ":insert", "inserting must happen only with insert mode on and only when the cursor is not in the last column, by exactly one cell (guards: %s, count %s)" %
                          ([(w.tstr(h, c), v) for c, v in gs], w.tstr(h, n)), loc=w.site_loc(cs), sample={"site": key, "guards": [(w.tstr(h, c), v) for c, v in gs]})
            else:
                ok = in_last == [False] and ins_g == [False]
                ctx.check(ok, "Y5", key + ":overwrite", "overwriting at the cursor must happen only with insert mode off and not in the last column (guards: %s)" % [(w.tstr(h, c), v) for c, v in gs],
                          loc=w.site_loc(cs), sample={"site": key, "guards": [(w.tstr(h, c), v) for c, v in gs]})
        else:
            ctx.violation("Y5", key + ":position", "the print handler writes at %s, neither the cursor position nor (cols-1, cursor row)" % w.tstr(h, pos), loc=w.site_loc(cs))
    ctx.floor("Y5", 3, "cell writes in the print handler")
    # the cursor advances by one / parks at cols
    adv = [WD.strip_names(T.operand(c2.term["args"][1], c2.point)) for c2 in E.call_sites(h)
           if c2.local and len(c2.term["args"]) == 2 and ("arg1", cur, "col") in E.summaries[c2.callee].W and ("arg1", cur, "row") not in E.summaries[c2.callee].W]
    ctx.check(any(norm(a) == norm(("binop", "Add", col_t, ("const", 1))) for a in adv) and cols_t in adv and ("const", 0) in adv, "Y5", "advance",
              "the print handler must set the column to col+1 (advance), cols (park) and 0 (wrap); found %s" % [w.tstr(h, a) for a in adv], loc=w.fn_loc(h), sample={"column_targets": [w.tstr(h, a) for a in adv]})

    # ---- Y6 REP -------------------------------------------------------------------------------------------------------
    ctx.rule("Y6", "REP reaches cell mutation only through the print handler, repeats the character left of the cursor, count defaulting to 1")
    for rh in w.handler("Rep"):
        direct = S.direct_mutation_points(rh)
        ctx.check(not direct, "Y6", rh + ":direct", "REP writes cells directly instead of going through the print path", loc=w.fn_loc(rh))
        RT = w.terms(rh)
        helper = c05.default_helper(w)
        for cs in E.call_sites(rh):
            if not cs.local:
                continue
            mutates = any(S.is_row_content(p) for p in cs.W)
            if mutates:
                ctx.check(cs.callee == h, "Y6", "%s->%s" % (rh, cs.callee), "REP mutates cells through %s, not through the print handler %s: repeated characters must be printed 'as if typed' (translation, pen, wrap, insert mode)" % (cs.callee, h),
                          loc=w.site_loc(cs), sample={"callee": cs.callee})
                if cs.callee == h:
                    ch = WD.strip_names(RT.operand(cs.term["args"][1], cs.point))
                    want_pos = ("tuple", (("binop", "Sub", col_t, ("const", 1)), row_t))
                    okc = ch[0] == "call" and ch[1] == "cell::Cell::char" and want_pos in flatten(ch)
                    ctx.check(okc, "Y6", rh + ":char", "REP repeats %s, expected the character of the cell at (col-1, row)" % w.tstr(rh, ch), loc=w.site_loc(cs), sample={"char": w.tstr(rh, ch)})
                    gs = [(WD.strip_names(c), v) for c, v in w.guards_of(rh, cs.point[0])]
                    ctx.check(any(c == ("binop", "Gt", col_t, ("const", 0)) and v is True for c, v in gs), "Y6", rh + ":guard", "REP reads the cell left of the cursor without checking col > 0", loc=w.site_loc(cs))
    ctx.floor("Y6", 3, "REP obligations")
    shared.count_passthrough(ctx, w, S, R, "Y6c", ["Rep"])


def flatten(t, acc=None):
    acc = [] if acc is None else acc
    if isinstance(t, tuple):
        acc.append(t)
        for x in t:
            flatten(x, acc)
    return acc


def norm(t):
    return shared.norm_term(t)


def run(ctx, w):
    _run(ctx, w)
    shared.mode_rule(ctx, w, shared.screen(w), shared.roles(w), "Y14")       # DECAWM / IRM touch only their flag (a pending wrap survives them)
    # the commands of this property must first of all be DECODED as specified (selector values, parameter slots, finals)
    from rules import c03
    shared.embed(ctx, w, c03.dispatch_rules)


def _subterms(t, acc=None):
    acc = acc if acc is not None else set()
    if isinstance(t, tuple):
        acc.add(t)
        for x in t:
            _subterms(x, acc)
    return acc
