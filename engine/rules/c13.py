"""C13 - scrollback retention is bounded by the configured limit."""
import hir as H
import mir as M
import world as WD
from rules import shared, c14


def _run(ctx, w):
    S = shared.screen(w)
    R = shared.roles(w)
    E = w.E
    ctx.explanation = ("The bound is decided as a trimming discipline: every entry point runs the gc, everything that lengthens the line vector raises the trim flag, the gc "
                       "consumes the flag and drains down to the soft limit once the hard limit is exceeded, the limits are computed from the configured value alone, and "
                       "alternate-role buffers are built with limit 0.")
    ctx.decided = ["L1 Vt::feed_str / Vt::resize run the gc on every path", "L2 Terminal::gc trims the active buffer on every path (also on the alternate screen)",
                   "L3 every buffer method that can lengthen the line vector raises the trim flag on all paths (or all its callers do)", "L4 the gc consumes the flag; the trim drains `..(size - soft)` iff `size > hard`, size = len - rows",
                   "L5 soft = the configured limit, hard = soft + soft/10", "L6 alternate-role buffers have limit Some(0), primary-role ones the configured limit"]
    ctx.not_decided = ["the numeric inequality lines().len() <= rows + L + L/10 as an arithmetic fact"]
    T = c14.gc_rules(ctx, w, S, R, "L2")
    if not T.ok:
        return
    ctx.rule("L1", "Vt::feed_str and Vt::resize call Terminal::gc on every path to return")
    for api in (WD.VT_FEED_STR, WD.VT_RESIZE):
        vb = w.body(api)
        ep = shared.Epilogue(w, S, api)
        ok = ep.on_every_path(T.term_gc)
        ctx.check(ok, "L1", api, "%s can return without running the gc: the scrollback is not trimmed after that call" % api, loc=w.fn_loc(api), sample={"api": api, "epilogue_in": ep.host})
        gs = ep.site_in_api(T.term_gc)
        if gs is not None:
            # and the gc runs after everything that can grow the buffer in this call
            for cs in E.call_sites(api):
                if cs.local and cs is not gs and cs.callee not in (T.term_gc, ep.host) and any(p[-1] == S.lines_field for p in cs.W):
                    ctx.check(not vb.path_exists(gs.point, cs.point), "L1", api + ":order:" + cs.callee, "%s runs %s (which can grow the scrollback) after the gc" % (api, cs.callee), loc=w.site_loc(cs))
            for (pt, cdef, upvals) in E.closure_creations[api]:
                ctx.check(not vb.path_exists(gs.point, pt), "L1", api + ":order:" + cdef, "%s feeds input after the gc ran" % api, loc=w.stmt_loc(api, pt))
    ctx.floor("L1", 2, "entry points")

    growth_flag_rule(ctx, w, S, R, T, "L3")
    flag = ("arg1", T.flag)

    # ---- L4 -------------------------------------------------------------------------------------------
    ctx0 = ctx
    sem = shared.gc_verdict(ctx0, w, S, T, "L4s")
    ctx = shared.Deferred(ctx0, {"L4", "L5"}, sem)
    ctx.rule("L4", "the gc consumes the flag and trims; the trim drains ..(size - soft) exactly when size > hard, with size = len - rows, only when a limit is configured")
    g = T.buf_gc
    gb = w.body(g)
    GT = w.terms(g)
    trims = [cs for cs in E.call_sites(g, T.trim_fn)] if g != T.trim_fn else []
    if g != T.trim_fn:
        okg = len(trims) == 1
        if okg:
            gs = [(WD.strip_names(c), v) for c, v in w.guards_of(g, trims[0].point[0])]
            okg = gs == [(("load", ("arg1", T.flag)), True)]
            clears = {pt for f2, pt, p, t in w.assign_sites({g}, lambda p: p == flag) if t == ("const", False)}
            okg = okg and bool(clears) and all(gb.edge_controls_pt(pt, (("load", ("arg1", T.flag)), True)) if hasattr(gb, "edge_controls_pt") else True for pt in clears)
        ctx.check(okg, "L4", "gc:flag", "%s must run the trim exactly when the trim flag is set (and clear it)" % g, loc=w.fn_loc(g), sample={"gc": g})
    f = T.trim_fn
    FT = w.terms(f)
    cs = T.drain_site
    rng = shared.norm_term(FT.operand(cs.term["args"][1], cs.point))
    lenc = None
    size_t = None
    ok = rng[0] == "adt" and rng[2] == "RangeTo"
    detail = w.tstr(f, rng)
    if ok:
        end = rng[4][0]
        # end == (len - rows) - soft
        okshape = end[0] == "binop" and end[1] == "Sub" and end[2][0] == "binop" and end[2][1] == "Sub" and "::len" in repr(end[2][2]) and end[2][3] == ("load", ("arg1", S.buf_rows))
        soft_t = end[3] if okshape else None
        size_t = end[2] if okshape else None
        ok = okshape and soft_t[0] == "load" and soft_t[1][:2] == ("arg1", T.limit_field)
    ctx.check(ok, "L4", "drain:extent", "the trim drains %s; it must drain ..((len - rows) - soft)" % detail, loc=w.site_loc(cs), sample={"range": detail})
    if ok:
        gs = [(shared.norm_term(c), v) for c, v in w.guards_of(f, cs.point[0])]
        hard_ok = False
        for c, v in gs:
            if c[0] == "binop" and c[1] == "Gt" and c[2] == size_t and c[3][0] == "load" and c[3][1][:2] == ("arg1", T.limit_field) and v is True:
                hard_t = c[3]
                hard_ok = hard_t != soft_t
        some_ok = any(c[0] == "discr" and T.limit_field in repr(c) and v == 1 for c, v in gs)
        ctx.check(hard_ok, "L4", "drain:guard", "the drain is not guarded by `size > hard` (guards: %s)" % [(w.tstr(f, c), v) for c, v in gs], loc=w.site_loc(cs), sample={"guards": [(w.tstr(f, c), v) for c, v in gs]})
        ctx.check(some_ok, "L4", "drain:limit", "the drain is not conditional on a configured limit (with no limit nothing may be removed)", loc=w.site_loc(cs))
    ctx.floor("L4", 3, "trim shape obligations")

    # ---- L5 limits -------------------------------------------------------------------------------------------------
    ctx.rule("L5", "soft is the configured limit and hard = soft + soft/10 (both computed from the configured value alone)")
    lim_fields = w.facts.struct_fields(T.limit_ty) or []
    done = False
    for fn, body in w.bodies.items():
        for bl in body.normal_blocks():
            for i, s in enumerate(body.blocks[bl]["stmts"]):
                if s["k"] == "assign" and s["rv"]["k"] == "aggregate" and s["rv"].get("adt") == T.limit_ty:
                    TT = w.terms(fn)
                    vals = {nm: shared.norm_term(TT.operand(op, (bl, i))) for nm, op in zip(s["rv"]["field_names"], s["rv"]["ops"])}
                    done = True
                    # which is soft: the one the drain subtracts
                    soft_name = None
                    if ok:
                        soft_name = soft_t[1][-1]
                    l = ("load", ("arg2",))
                    sv = vals.get(soft_name)
                    hv = [v for k, v in vals.items() if k != soft_name]
                    ctx.check(sv == l, "L5", "soft", "the soft limit is %s, not the configured limit" % (w.tstr(fn, sv) if sv else None), loc=w.stmt_loc(fn, (bl, i)), sample={"soft": w.tstr(fn, sv) if sv else None})
                    want1 = shared.norm_term(("binop", "Add", l, ("binop", "Div", l, ("const", 10))))
                    want2 = shared.norm_term(("binop", "Div", ("binop", "Mul", l, ("const", 11)), ("const", 10)))
                    ctx.check(len(hv) == 1 and hv[0] in (want1, want2), "L5", "hard", "the hard limit is %s; the documented retention bound is L + L/10" % ([w.tstr(fn, x) for x in hv]), loc=w.stmt_loc(fn, (bl, i)),
                              sample={"hard": [w.tstr(fn, x) for x in hv]})
                    # the closure is applied to the limit parameter of the constructor
    if not done:
        ctx.missing_anchor("L5", "construction of %s" % T.limit_ty)
    else:
        # Buffer::new maps its limit parameter through that closure
        bn = S.buffer_ctor
        BT = w.terms(bn)
        okm = False
        for f2, pt, p, t in []:
            pass
        for bl in w.body(bn).normal_blocks():
            for i, s in enumerate(w.body(bn).blocks[bl]["stmts"]):
                if s["k"] == "assign" and s["rv"]["k"] == "aggregate" and s["rv"].get("adt") == S.buffer_ty:
                    names = s["rv"]["field_names"]
                    t = WD.strip_names(BT.operand(s["rv"]["ops"][names.index(T.limit_field)], (bl, i)))
                    okm = t[0] == "call" and t[1].endswith("::map") and t[2][0] == ("load", ("arg3",)) and t[2][1][0] == "closure"
        ctx.check(okm, "L5", "from-config", "the buffer's limit is not derived from its scrollback_limit parameter alone", loc=w.fn_loc(bn))
    ctx.floor("L5", 3, "limit obligations")
    ctx = ctx0

    # ---- L9: the limit is fixed at construction ---------------------------------------------------------------------------
    ctx.rule("L9", "a buffer's scrollback limit is set when the buffer is constructed and never written afterwards (no function's write summary reaches the limit field of an existing buffer)")
    n9 = 0
    for fn in sorted(w.bodies):
        fo = w.facts.fns.get(fn, {})
        if fo.get("impl_trait"):
            continue
        adt = (fo.get("impl_self") or {}).get("adt")
        allp = [p for ps in E.stmt_writes.get(fn, {}).values() for p in ps]
        own = [p for p in allp if (adt == S.buffer_ty and p[:2] == ("arg1", T.limit_field)) or (adt == S.term_ty and len(p) >= 3 and p[0] == "arg1" and p[1] in S.buffer_fields and p[2] == T.limit_field)]
        n9 += 1
        for p in own[:1]:
            ctx.violation("L9", "%s:%s" % (fn, M.path_str(p)), "%s assigns %s: the retention bound rows + L + L/10 is stated for the limit the terminal was configured with" % (fn, M.path_str(p)), loc=w.fn_loc(fn))
    ctx.ok("L9", "all", {"functions_scanned": n9})
    ctx.rule_counts["L9"] = n9

    # ---- L6 ----------------------------------------------------------------------------------------------------------------
    from rules import c06
    c06.role_limits(ctx, w, S, R, "W7")
    config_plumbing(ctx, w, S, R, "L7")
    c14.trim_rules(ctx, w, S, R, T)


def config_plumbing(ctx, w, S, R, rule):
    """The configuration given to the builder reaches the terminal unchanged: each builder option writes only its
    own field (setting one option never resets another), build() hands every field to the terminal's constructor,
    and the constructor stores the limit it was given."""
    E = w.E
    ctx.rule(rule, "each builder option writes only its own field, from its own parameters; build() passes every builder field to Terminal::new; the terminal keeps the limit it was given")
    vt_ty = "vt::Vt"
    builders = [fn for fn, fo in w.facts.fns.items() if fn in w.bodies and (fo.get("output") or {}).get("s") == vt_ty and fo.get("inputs") and fo["inputs"][0]["s"].startswith("&")
                and (fo.get("impl_self") or {}).get("adt") not in (None, vt_ty)]
    if len(builders) != 1:
        ctx.missing_anchor(rule, "the builder's build() routine", "(%s)" % builders)
        return
    build = builders[0]
    bty = w.facts.fns[build]["impl_self"]["adt"]
    bfields = [f["name"] for f in w.facts.struct_fields(bty)]
    owners = {}
    for fn, fo in sorted(w.facts.fns.items()):
        if fn not in w.bodies or (fo.get("impl_self") or {}).get("adt") != bty or fo.get("impl_trait") or not fo.get("inputs") or not fo["inputs"][0]["s"].startswith("&mut "):
            continue
        W = {p for p in E.summaries[fn].W if p[0] == "arg1"}
        flds = sorted({p[1] for p in W if len(p) >= 2})
        whole = any(len(p) == 1 for p in W)
        ok = not whole and len(flds) == 1
        ctx.check(ok, rule, "option:" + fn, "%s writes %s of the builder: setting this option also changes other options (the configured scrollback limit / size is silently lost depending on the call order)" %
                  (fn, "the whole value" if whole else flds), loc=w.fn_loc(fn), sample={"fn": fn, "writes": sorted(M.path_str(p) for p in W)})
        if ok:
            owners.setdefault(flds[0], []).append(fn)
            for f2, pt, p, t in w.assign_sites({fn}, lambda p: p[0] == "arg1"):
                t = WD.strip_names(t)
                loads = set()

                def walk(x):
                    if isinstance(x, tuple):
                        if x and x[0] == "load":
                            loads.add(x[1][0])
                        for y in x:
                            walk(y)
                walk(t)
                okv = bool(loads) and all(l.startswith("arg") and l != "arg1" for l in loads)
                ctx.check(okv, rule, "value:" + fn, "%s stores %s; the option must store the value it was called with" % (fn, w.tstr(fn, t)[:80]), loc=w.stmt_loc(fn, pt), sample={"fn": fn, "value": w.tstr(fn, t)[:80]})
    for f in bfields:
        ctx.check(len(owners.get(f, [])) >= 1, rule, "field:" + f, "no builder option sets `%s`" % f, sample={"field": f, "options": owners.get(f, [])})
    T = w.terms(build)
    ctor = S.term_ty + "::new"
    sites = [cs for cs in E.call_sites(build) if cs.callee == ctor]
    if len(sites) != 1:
        ctx.violation(rule, "build:ctor", "%s does not construct the terminal exactly once" % build, loc=w.fn_loc(build))
    else:
        args = [WD.strip_names(T.operand(a, sites[0].point)) for a in sites[0].term["args"]]
        got = [a[1][1] if a[0] == "load" and a[1][0] == "arg1" and len(a[1]) == 2 else None for a in args]
        ctx.check(sorted(x for x in got if x) == sorted(bfields) and None not in got, rule, "build:args", "%s passes %s to %s; every builder field (%s) must be handed over as configured" %
                  (build, [w.tstr(build, a)[:40] for a in args], ctor, bfields), loc=w.site_loc(sites[0]), sample={"args": [w.tstr(build, a)[:40] for a in args]})
        # the terminal stores the limit parameter
        lim_idx = [i for i, a in enumerate(w.facts.fns[ctor]["inputs"]) if a["s"].startswith("core::option::Option<usize>")]
        tf = [f["name"] for f in w.facts.struct_fields(S.term_ty) if f["ty"]["s"] == "core::option::Option<usize>"]
        if len(lim_idx) == 1 and len(tf) == 1:
            cb = w.body(ctor)
            CT = w.terms(ctor)
            okl = False
            for bl in cb.normal_blocks():
                for i, st in enumerate(cb.blocks[bl]["stmts"]):
                    if st["k"] == "assign" and st["rv"]["k"] == "aggregate" and st["rv"].get("adt") == S.term_ty:
                        names = st["rv"]["field_names"]
                        t = WD.strip_names(CT.operand(st["rv"]["ops"][names.index(tf[0])], (bl, i)))
                        okl = t == ("load", ("arg%d" % (lim_idx[0] + 1),))
            ctx.check(okl, rule, "ctor:limit", "%s does not keep the scrollback limit it was given in `%s`" % (ctor, tf[0]), loc=w.fn_loc(ctor))
        else:
            ctx.missing_anchor(rule, "limit parameter / field of the terminal")
    ctx.floor(rule, 6, "configuration plumbing obligations")


def growth_flag_rule(ctx, w, S, R, T, rule):
    E = w.E
    # ---- L3 growth => flag -------------------------------------------------------------------
    ctx.rule(rule, "every buffer method that can lengthen the line vector sets the trim flag on all paths; otherwise each of its callers must")
    flag = ("arg1", T.flag)
    growers = {}
    for fn in sorted(w.bodies):
        if S._impl_of(fn) != S.buffer_ty or fn in (T.trim_fn, T.buf_gc, S.buffer_ctor):
            continue
        grow = [cs for cs in E.call_sites(fn) if not cs.local and (cs.term["callee"].get("decl_name") in ("extend", "insert", "push", "append", "resize", "extend_from_slice", "splice"))
                and any(p == ("arg1", S.lines_field) for p in cs.W)]
        assigns = [pt for pt, ps in E.stmt_writes[fn].items() if ("arg1", S.lines_field) in ps]
        if grow or assigns:
            growers[fn] = (grow, assigns)
    sets_flag = {}
    for fn in growers:
        sets = [(pt, t) for f2, pt, p, t in w.assign_sites({fn}, lambda p: p == flag)]
        sets_flag[fn] = flag in w.mustwrite.must(fn) and all(t == ("const", True) for _, t in sets) and bool(sets)
    pending = {fn for fn in growers if not sets_flag[fn]}
    for fn in sorted(growers):
        if sets_flag[fn]:
            ctx.ok(rule, fn, {"fn": fn, "sets_flag_on_all_paths": True})
            continue
        callers = [cs for cs in E.callers_of(fn) if cs.term is not None]
        bad = []
        for cs in callers:
            if S._impl_of(cs.body) != S.buffer_ty:
                bad.append(cs.body)
                continue
            cb = w.body(cs.body)
            sets = {pt for f2, pt, p, t in w.assign_sites({cs.body}, lambda p: p == flag) if t == ("const", True)}
            if not cb.every_path_to_return_hits(cs.point, sets):
                bad.append(cs.body)
        ctx.check(bool(callers) and not bad, rule, fn, "%s can lengthen the line vector but neither it nor its caller(s) %s raise the trim flag afterwards on every path: the gc would skip the trim and the scrollback grows beyond the limit" % (fn, bad),
                  loc=w.fn_loc(fn), sample={"fn": fn, "transferred_to": sorted({c.body for c in callers})})
    ctx.floor(rule, 3, "growth sites")



def run(ctx, w):
    _run(ctx, w)
    shared.mode_rule(ctx, w, shared.screen(w), shared.roles(w), "L8")        # which modes switch screens, and from where
    # which mode numbers switch screens (47 / 1047 / 1049) and which finals scroll is part of the statement: the control
    # functions must be decoded as specified
    from rules import c03
    shared.embed(ctx, w, c03.dispatch_rules)
