"""C02 - screen geometry invariants hold after every public call (maintenance discipline)."""
import hir as H
import mir as M
import world as WD
from rules import shared

LEN_CHANGERS = {"extend", "truncate", "split_off", "push", "insert", "remove", "drain", "resize", "pop", "append", "clear", "retain", "dedup", "swap_remove", "extend_from_slice", "resize_with"}


def run(ctx, w):
    S = shared.screen(w)
    R = shared.roles(w)
    E = w.E
    cur = R["cursor"]
    ctx.explanation = ("The geometry invariants are decided as a maintenance discipline: who may change the size, that every size change and every screen switch is followed by "
                       "the re-layout routine with the right operands, the wrap-pending/column pairing, the sizing of the dirty set, the length discipline of rows, and that no "
                       "public API hands out mutable access to screen storage.")
    ctx.decided = ["R1 size fields are written only by the constructor and Terminal::resize, which then re-lays out on every path", "R2 the re-layout resizes the active buffer to (cols, rows) with the cursor, stores the translated cursor and resizes the dirty set to rows",
                   "R3 every screen switch is followed by the re-layout", "R4 wrap-pending <=> col == cols discipline (set only after col := cols; every column writer clears it; cursor commands always clear it)",
                   "R5 the dirty set is sized from rows only and its resize is unconditional", "R6 no public signature or public field gives mutable access to lines, cells or buffers",
                   "R7 the length of a row's cell vector changes only under Buffer::resize; blank rows are created with the buffer's width", "R8 a row is marked soft-wrapped only when the cursor leaves it (the last row is never wrapped)",
                   "R9 the saved cursor is clamped by the re-layout on every path"]
    ctx.not_decided = ["lines.len() >= rows, row < rows, col <= cols as arithmetic facts of Buffer::resize / reflow", "strict monotonicity of Changes.lines (follows from the enumerate-based export; shape checked in C15.M4)"]

    if relayout_rules(ctx, w, S, R) is None:
        return
    rl = next(iter(S.relayout_fns))
    b = w.body(rl)
    T = w.terms(rl)
    cols_t, rows_t = ("load", ("arg1", R["cols"])), ("load", ("arg1", R["rows"]))
    col_t, row_t = ("load", ("arg1", cur, "col")), ("load", ("arg1", cur, "row"))
    rs = [cs for cs in E.call_sites(rl, S.buffer_resize_fn)]

    from rules import c16, c17, c04, c05
    c16.relayout_after_switch(ctx, w, S, R, rule="R3")

    # ---- R4 -------------------------------------------------------------------------------------------
    ctx.rule("R4", "every function that assigns the cursor column also settles the wrap-pending flag on all paths; the re-layout clears it when the width changes")
    pw = ("arg1", R["pending_wrap"])
    n = 0
    for fn in sorted(w.bodies):
        if S._impl_of(fn) != S.term_ty or "impl_trait" in w.facts.fns.get(fn, {}):
            continue
        direct = [pt for f2, pt, p, t in w.assign_sites({fn}, lambda p: p in (("arg1", cur, "col"), ("arg1", cur)))]
        if not direct:
            continue
        is_ctor = any(s["k"] == "assign" and s["rv"]["k"] == "aggregate" and s["rv"].get("adt") == S.term_ty for bl in w.body(fn).blocks for s in bl["stmts"])
        if is_ctor:
            continue
        n += 1
        if fn == rl:
            relayout_clears_wrap(ctx, w, S, R, "R4")
            continue
        ok = pw in w.mustwrite.must(fn)
        ctx.check(ok, "R4", fn, "%s assigns the cursor column but does not settle wrap-pending on every path (col == cols <=> wrap pending would break)" % fn, loc=w.stmt_loc(fn, direct[0]),
                  sample={"fn": fn, "must_write": sorted(M.path_str(p) for p in w.mustwrite.must(fn))[:6]})
    ctx.floor("R4", 4, "cursor-column writers")
    c05.wrap_pending_rule(ctx, w, S, R)
    row_units(ctx, w, S, R, "R10")
    c05.margin_rules(ctx, w, S, R)
    from rules import c01 as _c01
    _c01.loop_index(ctx, w, S, _c01.api_reach(w))

    # ---- R5 -----------------------------------------------------------------------------------------------
    ctx.rule("R5", "the dirty set is created and resized with self.rows only, and its resize sets the length unconditionally")
    for fn in sorted(w.bodies):
        if S._impl_of(fn) != S.term_ty or "impl_trait" in w.facts.fns.get(fn, {}):
            continue
        TT = w.terms(fn)
        for cs in E.call_sites(fn):
            if cs.callee in S.dl_ctor or (cs.callee in S.dl_unmark and len(cs.term["args"]) == 2):
                a = WD.strip_names(TT.operand(cs.term["args"][-1], cs.point))
                has_self = bool(w.facts.fns[fn]["inputs"]) and w.facts.fns[fn]["inputs"][0].get("ref") is not None
                ok = a == rows_t or (not has_self and a[0] == "load" and a[1][0].startswith("arg"))   # constructor: its rows parameter
                ctx.check(ok, "R5", "%s:%s" % (fn, shared.site_key(w, fn, cs.point)), "%s sizes the dirty set with %s instead of the number of rows" % (fn, w.tstr(fn, a)), loc=w.site_loc(cs),
                          sample={"fn": fn, "size": w.tstr(fn, a)})
    for m in sorted(S.dl_unmark):
        fo = w.facts.fns[m]
        if len(fo["inputs"]) != 2:
            continue
        mb = w.body(m)
        MT = w.terms(m)
        rz = [cs for cs in E.call_sites(m) if cs.callee.endswith("Vec::<T, A>::resize")]
        ok = len(rz) == 1 and mb.every_path_to_return_hits((0, 0), {rz[0].point}, include_start=True) and WD.strip_names(MT.operand(rz[0].term["args"][1], rz[0].point)) == ("load", ("arg2",))
        if not ok:
            # written differently (extend / truncate, ...): decide it by evaluation - for every old and new length the flag
            # vector ends with exactly the requested length and keeps the flags that stay
            try:
                from rules import prims
                import hir as _H
                fl = [f["name"] for f in w.facts.struct_fields(S.dl_ty) if f["ty"]["s"].startswith("alloc::vec::Vec<bool>")]
                oks = len(fl) == 1
                for old in range(0, 5):
                    for new in range(0, 6):
                        if not oks:
                            break
                        flags = [bool(i % 2) for i in range(old)]
                        obj = ("obj", S.dl_ty, {f["name"]: (prims.Vec(list(flags)) if f["name"] == fl[0] else _H.NONE_V) for f in w.facts.struct_fields(S.dl_ty)})
                        prims.VecInterp(w.facts).call_fn(m, [obj, new])
                        got = obj[2][fl[0]].items
                        oks = len(got) == new and got[:min(old, new)] == flags[:min(old, new)]
                ok = oks
            except Exception:
                pass
        ctx.check(ok, "R5", m, "%s does not set the dirty set's length to its argument on every path (a stale longer set yields changed-line indices >= rows)" % m, loc=w.fn_loc(m), sample={"fn": m})
    ctx.floor("R5", 3, "dirty-set sizing sites")

    api_rules(ctx, w, S, R)
    length_rules(ctx, w, S, R)
    # R8 / R9 shared
    c04.print_rules(ctx, w, S, R)
    c17.clamp_rule(ctx, w, S, R)
    # "row < rows and col <= cols": every value handed to the cursor setters is bounded (C05.V9/V10)
    c05.addressing_rules(ctx, w, S, R)
    shared.invariant_rule(ctx, w, S, R, "R11")
    # the buffer's own geometry invariants across a resize (lines >= rows, every line `cols` wide, last line unmarked, cursor inside)
    from rules import c10 as _c10
    _c10.resize_rule(ctx, w, S, "R12")
    # "changed-line indices ... all smaller than rows": the report is taken AFTER the size change (C15.M4)
    from rules import c15
    c15.report_rules(ctx, w, S)
    if ctx.tier == "thorough":
        witnesses(ctx, w)


def api_rules(ctx, w, S, R):
    ctx.rule("R6", "no externally reachable function returns or accepts a mutable reference to screen storage, and no storage field is public")
    guarded = (S.line_ty, "cell::Cell", S.buffer_ty, S.term_ty, "pen::Pen")
    n = 0
    for fn, fo in sorted(w.facts.fns.items()):
        if not fo.get("exported") or fo.get("kind") not in ("Fn", "AssocFn"):
            continue
        n += 1
        out = (fo.get("output") or {}).get("s", "")
        bad = "&mut " in out and any(g in out for g in guarded)
        bad = bad or ("alloc::vec::Vec<%s>" % S.line_ty) in out and "&mut" in out
        ctx.check(not bad, "R6", fn, "public function %s returns %s: callers could break the geometry invariants from outside" % (fn, out), loc=w.fn_loc(fn), sample={"fn": fn, "returns": out})
    for adt in (S.line_ty, "cell::Cell", "vt::Vt"):
        a = w.facts.adts.get(adt)
        if not a:
            ctx.missing_anchor("R6", adt)
            continue
        for v in a["variants"]:
            for f in v["fields"]:
                ctx.check(not f.get("exported"), "R6", "%s.%s" % (adt, f["name"]), "field %s.%s is public: screen storage can be mutated from outside the crate" % (adt, f["name"]), sample={"field": "%s.%s" % (adt, f["name"]), "vis": f["vis"]})
    # constructors of Line / Cell are not exported
    for fn, fo in sorted(w.facts.fns.items()):
        if fo.get("exported") and (fo.get("impl_self") or {}).get("adt") == S.line_ty and (fo.get("output") or {}).get("adt") == S.line_ty and not (fo["inputs"] and fo["inputs"][0].get("ref")):
            ctx.violation("R6", "ctor:" + fn, "public constructor %s lets callers build rows of arbitrary length" % fn, loc=w.fn_loc(fn))
    ctx.floor("R6", 30, "exported functions / storage fields")


def length_rules(ctx, w, S, R):
    E = w.E
    ctx.rule("R7", "the length of a row's cell vector changes only in code reachable solely through the buffer's resize; blank rows are built with the buffer's (new) width")
    changers = {}
    for fn in sorted(w.bodies):
        for cs in E.call_sites(fn):
            if cs.local:
                continue
            nm = cs.term["callee"].get("decl_name")
            if nm in LEN_CHANGERS and any(p[-1] == S.cells_field and p[0] == "arg1" for p in cs.W) and (S._impl_of(fn) == S.line_ty):
                changers.setdefault(fn, []).append(cs)
        # whole-field assignment `self.cells = ...`
        if S._impl_of(fn) == S.line_ty:
            for pt, ps in E.stmt_writes[fn].items():
                if ("arg1", S.cells_field) in ps:
                    changers.setdefault(fn, []).append(None)
    # reachability from the handlers / API with the buffer resize removed
    roots = [w.anchors["execute"], S.resize_fn]
    seen = set()
    st = list(roots)
    while st:
        f = st.pop()
        if f in seen or f == S.buffer_resize_fn or f not in E.sites:
            continue
        seen.add(f)
        for cs in E.sites[f]:
            if cs.local:
                st.append(cs.callee)
    from rules import prims as _pr
    prim_sigs = (("usize", "usize", "cell::Cell"), ("usize", "usize", "&pen::Pen"), ("core::ops::range::Range<usize>", "&pen::Pen"), ("usize", "cell::Cell"))
    for fn in sorted(changers):
        sig = tuple(i["s"] for i in w.facts.fns[fn].get("inputs", [])[1:])
        if fn in seen and sig in prim_sigs and _pr.rows_ok(w, S):
            # a row primitive written with length-changing calls whose NET effect keeps the length: decided by evaluation
            # (insert / delete / clear / print on every width <= 5 return a row of the same length)
            ctx.ok("R7", fn, {"fn": fn, "length_preserved": "by evaluation of the row primitive"})
            continue
        ctx.check(fn not in seen, "R7", fn, "%s changes the length of a row's cell vector and is reachable from a command handler without going through the buffer's resize: rows of the wrong width would appear" % fn,
                  loc=w.fn_loc(fn), sample={"fn": fn, "reachable_only_via_resize": fn not in seen})
    blank = None
    for fn, fo in w.facts.fns.items():
        if (fo.get("impl_self") or {}).get("adt") == S.line_ty and (fo.get("output") or {}).get("adt") == S.line_ty and [i["s"] for i in fo.get("inputs", [])] == ["usize", "pen::Pen"]:
            blank = fn
    if not blank:
        ctx.missing_anchor("R7", "Line::blank(cols, pen)")
    else:
        for cs in E.callers_of(blank):
            if cs.term is None:
                continue
            T = w.terms(cs.body)
            a = WD.strip_names(T.operand(cs.term["args"][0], cs.point))
            has_self = bool(w.facts.fns[cs.body]["inputs"]) and w.facts.fns[cs.body]["inputs"][0].get("ref") is not None
            ok = a == ("load", ("arg1", S.buf_cols)) or (a[0] == "load" and len(a[1]) == 1 and (a[1][0] != "arg1" or not has_self))
            ctx.check(ok, "R7", "%s:%s" % (cs.body, shared.site_key(w, cs.body, cs.point)), "%s builds a blank row of width %s, not the buffer's width" % (cs.body, w.tstr(cs.body, a)), loc=w.site_loc(cs),
                      sample={"fn": cs.body, "width": w.tstr(cs.body, a)})
    ctx.floor("R7", 6, "row-length obligations")


def witnesses(ctx, w):
    """E3 (thorough tier): compile_fail witnesses and their compiling twins,
    built against the repository under analysis as an external user would."""
    import os, shutil, subprocess, tempfile, re
    ctx.rule("R6w", "type-level witnesses: code outside the crate that would mutate or construct screen storage does not compile (each paired with a compiling twin)")
    here = os.path.dirname(os.path.dirname(os.path.dirname(os.path.abspath(__file__))))
    tmp = tempfile.mkdtemp(prefix="avt-witness-")
    try:
        shutil.copytree(os.path.join(here, "witness"), os.path.join(tmp, "w"), ignore=shutil.ignore_patterns("target", "Cargo.lock"))
        ct = open(os.path.join(tmp, "w", "Cargo.toml")).read().replace('path = "/repo"', 'path = "%s"' % w.facts.repo)
        open(os.path.join(tmp, "w", "Cargo.toml"), "w").write(ct)
        lock = os.path.join(w.facts.repo, "Cargo.lock")
        if os.path.exists(lock):
            shutil.copy(lock, os.path.join(tmp, "w", "Cargo.lock"))
        env = dict(os.environ, CARGO_TARGET_DIR=os.path.join(tmp, "t"), CARGO_NET_OFFLINE="true")
        r = subprocess.run(["cargo", "+nightly", "test", "--doc", "--offline"], cwd=os.path.join(tmp, "w"), env=env, stdout=subprocess.PIPE, stderr=subprocess.STDOUT, text=True)
        tests = re.findall(r"^test src/lib.rs - (\S+) \(line \d+\)( - compile fail)?( - compile)? \.\.\. (\w+)", r.stdout, re.M)
        for name, cf, comp, res in tests:
            kind = "witness" if cf else "twin"
            ctx.check(res == "ok", "R6w", "%s:%s" % (name, kind),
                      ("the %s `%s` no longer behaves as required: " % (kind, name)) + ("code that mutates/constructs screen storage from outside now compiles" if cf else "the compiling twin fails, so its witness proves nothing"),
                      sample={"witness": name, "kind": kind, "result": res})
        if len(tests) < 12:
            ctx.violation("R6w", "floor", "only %d witness doctests ran (12 expected); cargo said: %s" % (len(tests), r.stdout[-600:]))
    finally:
        shutil.rmtree(tmp, ignore_errors=True)


def relayout_clears_wrap(ctx, w, S, R, rule):
    """The re-layout (which also runs when a parked screen with a stale width comes back) clears wrap-pending
    exactly on the path where the terminal's width differs from the buffer's, before the buffer adopts it."""
    E = w.E
    ctx.rule(rule, "the re-layout clears wrap-pending when the terminal width differs from the active buffer's width, tested before the buffer is resized (this also covers the lazily resized screen coming back)")
    if len(S.relayout_fns) != 1:
        ctx.missing_anchor(rule, "re-layout routine")
        return
    fn = next(iter(S.relayout_fns))
    b = w.body(fn)
    pw = ("arg1", R["pending_wrap"])
    cols_t = ("load", ("arg1", R["cols"]))
    rs = [cs for cs in E.call_sites(fn, S.buffer_resize_fn)]
    sets = [(pt, t) for f2, pt, p, t in w.assign_sites({fn}, lambda p: p == pw)]
    good = False
    for pt, t in sets:
        gs = [(WD.strip_names(c), v) for c, v in w.guards_of(fn, pt[0])]
        bc = ("load", ("arg1", S.active_buffer, S.buf_cols))
        if t == ("const", False) and any(v is True and c[0] == "binop" and c[1] == "Ne" and {c[2], c[3]} == {cols_t, bc} for c, v in gs):
            # the test precedes the buffer resize (afterwards the widths are equal)
            good = all(not b.path_exists(r.point, pt) for r in rs)
    ctx.check(good, rule, fn, "the re-layout %s does not clear wrap-pending when the width changes (before the buffer adopts the new width): the cursor could stay parked at the old right edge" % fn,
              loc=w.fn_loc(fn), sample={"fn": fn, "clears_on_width_change": good})


def row_units(ctx, w, S, R, rule):
    """Unit discipline: a ROW INDEX (cursor row, saved cursor row, margin, .1 of a visual position) is compared with
    a ROW COUNT (rows of the terminal / of a buffer, the requested height, sums built on them) only as index < count
    or index >= count.  `index <= count` treats the count as a valid index - the off-by-one that lets a row leave the screen."""
    from rules import c01
    E = w.E
    ctx.rule(rule, "a row index is compared with a row count only as `index < count` / `index >= count` (never <=, >, ==): the count is not a valid index")
    cur = R["cursor"]
    # saved-context fields that hold a row: assigned from cursor.row somewhere
    saved_rows = set()
    for fn in w.bodies:
        if S._impl_of(fn) != S.term_ty:
            continue
        for f2, pt, p, t in w.assign_sites({fn}, lambda p: len(p) == 3 and p[0] == "arg1" and p[1] in (R["saved_ctx"], R["parked_saved_ctx"])):
            if WD.strip_names(t) == ("load", ("arg1", cur, "row")):
                saved_rows.add(p[2])
    # parameters that receive a row count: positions at which some caller passes one
    cnt_params = {}
    pos_params = {}

    def is_cnt(fn, t, depth=0):
        impl = S._impl_of(fn)
        if t[0] == "load":
            p = t[1]
            if impl == S.term_ty and p in (("arg1", R["rows"]), ("arg1", S.active_buffer, S.buf_rows), ("arg1", S.parked_buffer, S.buf_rows)):
                return True
            if (impl == S.buffer_ty or fn.startswith("<" + S.buffer_ty)) and p == ("arg1", S.buf_rows):
                return True
            if len(p) == 1 and p[0] in cnt_params.get(fn, ()):
                return True
            return False
        if depth > 6:
            return False
        if t[0] == "phi":
            return any(is_cnt(fn, x, depth + 1) for x in t[1] if isinstance(x, tuple))
        if t[0] == "binop" and t[1] == "Add":
            return is_cnt(fn, t[2], depth + 1) or is_cnt(fn, t[3], depth + 1)
        return False

    def is_pos(fn, t, depth=0):
        impl = S._impl_of(fn)
        if t[0] == "load":
            p = t[1]
            if impl == S.term_ty and (p == ("arg1", cur, "row") or p in (("arg1", R["top_margin"]), ("arg1", R["bottom_margin"]))
                                      or (len(p) == 3 and p[1] in (R["saved_ctx"], R["parked_saved_ctx"]) and p[2] in saved_rows)):
                return True
            if len(p) == 2 and p[1] == "1" and p[0] in pos_params.get(fn, ()):
                return True
            return False
        if depth > 6:
            return False
        if t[0] == "binop" and t[1] == "Sub" and t[3] == ("const", 1) and is_cnt(fn, t[2], depth + 1):
            return True                  # last index
        return False
    for fn, fo in w.facts.fns.items():
        if fn in w.bodies:
            pos_params[fn] = {"arg%d" % (i + 1) for i, a in enumerate(fo.get("inputs", [])) if a["s"] == "(usize, usize)"}
    changed = True
    rounds = 0
    while changed and rounds < 4:
        changed = False
        rounds += 1
        for fn in sorted(w.bodies):
            T = w.terms(fn)
            for cs in E.call_sites(fn):
                if not cs.local or cs.callee not in w.bodies:
                    continue
                for i, a in enumerate(cs.term["args"]):
                    t = WD.strip_names(T.operand(a, cs.point))
                    if is_cnt(fn, t) and ("arg%d" % (i + 1)) not in cnt_params.setdefault(cs.callee, set()):
                        ty = w.facts.fns[cs.callee]["inputs"][i]["s"] if i < len(w.facts.fns[cs.callee]["inputs"]) else ""
                        if ty == "usize":
                            cnt_params[cs.callee].add("arg%d" % (i + 1))
                            changed = True
    # the public resize entry receives the requested height
    n = 0
    reach = c01.api_reach(w)
    for fn in sorted(reach):
        b = w.body(fn)
        T = w.terms(fn)
        for bl in sorted(b.normal_blocks()):
            for i, st in enumerate(b.blocks[bl]["stmts"]):
                if st["k"] != "assign" or st["rv"]["k"] != "binop" or st["rv"]["op"] not in ("Lt", "Le", "Gt", "Ge", "Eq", "Ne"):
                    continue
                l = WD.strip_names(T.operand(st["rv"]["l"], (bl, i)))
                r = WD.strip_names(T.operand(st["rv"]["r"], (bl, i)))
                op = st["rv"]["op"]
                if is_pos(fn, l) and is_cnt(fn, r):
                    ok = op in ("Lt", "Ge")
                elif is_cnt(fn, l) and is_pos(fn, r):
                    ok = op in ("Gt", "Le")
                    l, r = r, l
                else:
                    continue
                n += 1
                ctx.check(ok, rule, "%s:%s" % (fn, shared.site_key(w, fn, (bl, i))),
                          "%s compares the row index %s with the row count %s using %s: a row equal to the count is already outside (rows are 0..count-1), so the boundary case is treated as inside" %
                          (fn, w.tstr(fn, l)[:50], w.tstr(fn, r)[:50], op), loc=w.stmt_loc(fn, (bl, i)), sample={"fn": fn, "index": w.tstr(fn, l)[:50], "count": w.tstr(fn, r)[:50], "op": op})
    ctx.floor(rule, 1, "row index / row count comparisons")


def resize_entry_frame(ctx, w, S, R, rule):
    """The resize entry moves the cursor ONLY through the re-layout (which translates it together with the text); it
    never places the cursor itself (homing, clamping to a margin, ...) and never touches pen / modes."""
    E = w.E
    fn = S.resize_fn
    cur = R["cursor"]
    T = w.terms(fn)
    keep = [(cur, "col"), (cur, "row"), (R["pending_wrap"],), (R["pen"],), (R["origin_mode"],), (R["auto_wrap_mode"],), (R["insert_mode"],), (R["new_line_mode"],), (R["active_charset"],)]

    def hits(paths):
        out = set()
        for p in paths:
            if p[0] != "arg1":
                continue
            for k in keep:
                if tuple(p[1:1 + len(k)]) == k or (len(p) == 2 and p[1] == k[0]):
                    out.add(".".join(k))
        return out
    for pt, ps in sorted(E.stmt_writes[fn].items()):
        cs = [c for c in E.call_sites(fn) if c.point == pt]
        if cs and cs[0].callee in S.relayout_fns:
            continue
        h = hits(ps)
        ctx.check(not h, rule, "%s:frame:%s" % (fn, shared.site_key(w, fn, pt)),
                  "%s changes %s outside the re-layout: on a resize the cursor must only be translated together with the text (and pen / modes stay)" % (fn, sorted(h)), loc=w.stmt_loc(fn, pt),
                  sample={"fn": fn, "writes": sorted(h)})
    for cs in E.call_sites(fn):
        if cs.callee in S.relayout_fns:
            continue
        h = hits(cs.W)
        ctx.check(not h, rule, "%s:frame:%s" % (fn, shared.site_key(w, fn, cs.point)),
                  "%s calls %s, which changes %s, outside the re-layout: on a resize the cursor must only be translated together with the text (and pen / modes stay)" % (fn, cs.callee, sorted(h)),
                  loc=w.site_loc(cs), sample={"fn": fn, "callee": cs.callee, "writes": sorted(h)})
    # and the re-layout stores exactly what the buffer's resize returned (checked by R2)


def relayout_rules(ctx, w, S, R):
    """R1 + R2: who writes the size, the re-layout follows on every path, its operands, and where its result goes."""
    E = w.E
    cur = R["cursor"]
    ctor = S.term_ty + "::new"
    ctx.rule("R1", "cols/rows of the terminal are written only by its constructor and its resize entry; after the write every path re-lays out")
    cols_p, rows_p = ("arg1", R["cols"]), ("arg1", R["rows"])
    for fn in sorted(w.bodies):
        if S._impl_of(fn) != S.term_ty:
            continue
        wr = [pt for pt, ps in E.stmt_writes[fn].items() if cols_p in ps or rows_p in ps]
        if not wr:
            continue
        ctx.check(fn == S.resize_fn, "R1", "writer:" + fn, "%s writes the terminal size; only the resize entry may" % fn, loc=w.stmt_loc(fn, wr[0]), sample={"writer": fn})
        if fn == S.resize_fn:
            b = w.body(fn)
            rl = {cs.point for cs in E.call_sites(fn) if cs.callee in S.relayout_fns}
            for pt in wr:
                ctx.check(b.every_path_to_return_hits(pt, rl), "R1", "relayout-after:" + shared.site_key(w, fn, pt), "%s changes the size but some path returns without re-laying out the buffer" % fn, loc=w.stmt_loc(fn, pt))
            T = w.terms(fn)
            for f2, pt, p, t in w.assign_sites({fn}, lambda p: p in (cols_p, rows_p)):
                want = ("load", ("arg2",)) if p == cols_p else ("load", ("arg3",))
                ctx.check(WD.strip_names(t) == want, "R1", "value:" + p[1], "%s sets %s to %s; size() must report the geometry last requested" % (fn, p[1], w.tstr(fn, t)), loc=w.stmt_loc(fn, pt), sample={"field": p[1], "value": w.tstr(fn, t)})
    resize_entry_frame(ctx, w, S, R, "R1")
    ctx.floor("R1", 5, "size writers")

    # ---- R2 ---------------------------------------------------------------------------------------
    ctx.rule("R2", "the re-layout calls Buffer::resize(self.cols, self.rows, (cursor.col, cursor.row)) on every path, stores the result in the cursor and resizes the dirty set to self.rows")
    if len(S.relayout_fns) != 1:
        ctx.missing_anchor("R2", "re-layout routine")
        return None
    rl = next(iter(S.relayout_fns))
    b = w.body(rl)
    T = w.terms(rl)
    cols_t, rows_t = ("load", ("arg1", R["cols"])), ("load", ("arg1", R["rows"]))
    col_t, row_t = ("load", ("arg1", cur, "col")), ("load", ("arg1", cur, "row"))
    rs = [cs for cs in E.call_sites(rl, S.buffer_resize_fn)]
    ok = len(rs) == 1 and b.every_path_to_return_hits((0, 0), {rs[0].point}, include_start=True)
    ctx.check(ok, "R2", "resize:always", "%s does not resize the active buffer on every path" % rl, loc=w.fn_loc(rl), sample={"relayout": rl, "buffer_resize": S.buffer_resize_fn})
    if rs:
        a = [WD.strip_names(T.operand(x, rs[0].point)) for x in rs[0].term["args"]]
        want = [("ref", True, ("load", ("arg1", S.active_buffer))), cols_t, rows_t, ("tuple", (col_t, row_t))]
        ctx.check(a == want, "R2", "resize:args", "the buffer is resized with %s, expected (&mut active buffer, cols, rows, (cursor.col, cursor.row))" % [w.tstr(rl, x) for x in a], loc=w.site_loc(rs[0]),
                  sample={"args": [w.tstr(rl, x) for x in a]})
        got = {p: WD.strip_names(t) for f2, pt, p, t in w.assign_sites({rl}, lambda p: p in (("arg1", cur, "col"), ("arg1", cur, "row")))}
        okc = S.buffer_resize_fn in repr(got.get(("arg1", cur, "col"))) and S.buffer_resize_fn in repr(got.get(("arg1", cur, "row"))) \
            and got[("arg1", cur, "col")][0] == "field" and got[("arg1", cur, "col")][2] == "0" and got[("arg1", cur, "row")][2] == "1"
        ctx.check(okc, "R2", "cursor", "the cursor is not set to the (col, row) returned by the buffer's resize: %s" % {M.path_str(k): w.tstr(rl, v) for k, v in got.items()}, loc=w.fn_loc(rl))
    dr = [cs for cs in E.call_sites(rl) if cs.callee in S.dl_unmark and len(cs.term["args"]) == 2]
    okd = len(dr) == 1 and b.every_path_to_return_hits((0, 0), {dr[0].point}, include_start=True) and WD.strip_names(T.operand(dr[0].term["args"][1], dr[0].point)) == rows_t
    ctx.check(okd, "R2", "dirty:resize", "%s does not resize the dirty set to self.rows on every path" % rl, loc=w.fn_loc(rl), sample={"calls": [c.callee for c in dr]})
    ctx.floor("R2", 4, "re-layout obligations")

    return True
