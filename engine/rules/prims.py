"""Row / line primitives decided against their specification by abstract
interpretation of their HIR over small concrete geometries with SYMBOLIC cells
and rows (cell content is never inspected by these functions - C07.X7 - so one
symbol per cell is a complete representative).

The primitives are straight-line compositions of std slice operations
(index ranges, rotate_left/right, fill, extend, insert, repeat/take); the
interpreter gives those operations their documented semantics, including their
panics (a panic is reported as a violation).  Sizes are bounded (evidence says
so); the operations are size-generic.  Nothing of avt is executed.
"""
import hir as H
import symeval as SE


class Vec:
    """A mutable vector shared by reference (Rust's Vec behind &mut)."""

    def __init__(self, items):
        self.items = list(items)

    def __eq__(self, o):
        return isinstance(o, Vec) and self.items == o.items

    def __repr__(self):
        return "Vec(%r)" % (self.items,)


class CellRef:
    """A mutable reference to one scalar element of a vector (what `iter_mut()` / `&mut v[i]` hands out)."""

    def __init__(self, vec, idx):
        self.vec, self.idx = vec, idx

    def get(self):
        return self.vec.items[self.idx]

    def set(self, v):
        self.vec.items[self.idx] = v


class View:
    def __init__(self, vec, lo, hi):
        self.vec, self.lo, self.hi = vec, lo, hi

    def get(self):
        return self.vec.items[self.lo:self.hi]

    def put(self, items):
        assert len(items) == self.hi - self.lo
        self.vec.items[self.lo:self.hi] = items


_DP = {}


def is_default_pen(facts, v):
    """v is the default pen: the unresolved `Default::default()` term or the value the pen's own (derived) Default impl evaluates to."""
    if isinstance(v, tuple) and v and v[0] == "ext" and v[1].endswith("default::Default::default"):
        return True
    k = id(facts)
    if k not in _DP:
        try:
            _DP[k] = SE.Interp(facts).call_fn("<pen::Pen as core::default::Default>::default", [])
        except Exception:
            _DP[k] = None
    return _DP[k] is not None and v == _DP[k]


def deep(v):
    if isinstance(v, tuple) and v and v[0] == "obj":
        return ("obj", v[1], {k: deep(x) for k, x in v[2].items()})
    if isinstance(v, Vec):
        return Vec([deep(x) for x in v.items])
    return v


class VecInterp(SE.Interp):
    def __init__(self, facts):
        super().__init__(facts, max_steps=200000)
        cached = getattr(facts, "_index_impls", None)
        if cached is None:
            cached = {}
            for fn, fo in facts.fns.items():
                tr = str(fo.get("impl_trait") or "")
                if tr.startswith("core::ops::index::Index") and fn in facts.hir and len(fo["inputs"]) == 2:
                    adt = (fo.get("impl_self") or {}).get("adt")
                    cached[(adt, tr.endswith("IndexMut"), fo["inputs"][1]["s"])] = fn
            facts._index_impls = cached
        self.index_impls = cached

    def overloaded_index(self, e0, env, base):
        """User Index/IndexMut impls are evaluated, not assumed."""
        if not (isinstance(base, tuple) and base and base[0] == "obj"):
            return None
        mut = e0.get("callee", "").endswith("index_mut")
        ity = H.unwrap(e0["idx"]).get("ty")
        fn = self.index_impls.get((base[1], mut, ity)) or self.index_impls.get((base[1], not mut, ity))
        if fn is None:
            raise H.Unsupported("no Index impl for %s[%s]" % (base[1], ity))
        return fn

    def ev(self, e, env):
        e0 = H.unwrap(e)
        k = e0.get("k")
        if k == "index":
            base = self.ev(e0["base"], env)
            idx = self.ev(e0["idx"], env)
            fn = self.overloaded_index(e0, env, base)
            if fn:
                return self.call_fn(fn, [base, idx])
            return self.index(base, idx)
        if k == "struct" and e0["path"].get("path") == "core::ops::range::RangeFull":
            return ("rangefull",)
        if k == "struct" and e0["path"].get("path") == "core::ops::range::RangeTo":
            flds = {x["name"]: self.ev(x["e"], env) for x in e0["fields"]}
            return ("range", 0, flds["end"], False)
        if k == "struct" and e0["path"].get("path") == "core::ops::range::RangeToInclusive":
            flds = {x["name"]: self.ev(x["e"], env) for x in e0["fields"]}
            return ("range", 0, flds["end"], True)
        if k == "path" and e0.get("path") == "core::ops::range::RangeFull":
            return ("rangefull",)
        if k == "assignop":
            cur = self.ev(e0["l"], env)
            rhs = self.ev(e0["r"], env)
            op = e0["op"].rstrip("=")
            if isinstance(cur, int) and isinstance(rhs, int) and op in ("+", "-"):
                v = cur + rhs if op == "+" else cur - rhs
                if v < 0 and str(H.unwrap(e0["l"]).get("ty", "")) not in ("isize", "i8", "i16", "i32", "i64", "i128"):
                    raise H.Unsupported("subtraction underflow (would panic)")
                self.assign(e0["l"], v, env)
                return ("t", ())
            raise H.Unsupported("compound assignment %s" % op)
        if k == "binary" and e0["op"] in ("+", "-", "*"):
            a = self.ev(e0["l"], env)
            b = self.ev(e0["r"], env)
            if isinstance(a, int) and isinstance(b, int) and not isinstance(a, bool):
                v = {"+": a + b, "-": a - b, "*": a * b}[e0["op"]]
                if v < 0 and str(e0.get("ty", "")) not in ("isize", "i8", "i16", "i32", "i64", "i128"):
                    raise H.Unsupported("subtraction underflow (would panic)")
                return v
            raise H.Unsupported("arithmetic on %r, %r" % (a, b))
        if k == "ref" and e0.get("mut"):
            inner = H.unwrap(e0["e"])
            if H.is_k(inner, "index"):
                base = self.ev(inner["base"], env)
                idx = self.ev(inner["idx"], env)
                if isinstance(base, (Vec, View)) and isinstance(idx, int) and not isinstance(idx, bool):
                    n = len(base.items) if isinstance(base, Vec) else base.hi - base.lo
                    if not 0 <= idx < n:
                        raise H.Unsupported("index %d out of bounds (len %d; would panic)" % (idx, n))
                    vec, off = (base, 0) if isinstance(base, Vec) else (base.vec, base.lo)
                    el = vec.items[off + idx]
                    if not (isinstance(el, tuple) and el[:1] == ("obj",)):
                        return CellRef(vec, off + idx)          # `&mut v[i]` of a scalar element: assignments through it reach the vector
        if k == "unary" and e0["op"] == "*":
            v = self.ev(e0["e"], env)
            return v.get() if isinstance(v, CellRef) else v
        if k == "unary" and e0["op"] == "-":
            v = self.ev(e0["e"], env)
            if isinstance(v, int) and not isinstance(v, bool):
                return -v
            raise H.Unsupported("negation of %r" % (v,))
        if k == "cast":
            v = self.ev(e0["e"], env)
            ty = str(e0.get("ty", ""))
            if isinstance(v, int) and not isinstance(v, bool):
                if ty in ("isize", "i64", "i128", "i32"):
                    return v
                if ty in ("usize", "u64", "u128"):
                    if v < 0:
                        return v + (1 << 64)
                    return v
                if ty in ("u32", "u16", "u8"):
                    return v & ((1 << {"u32": 32, "u16": 16, "u8": 8}[ty]) - 1)
        if k == "match" and e0.get("src") == "ForLoopDesugar":
            return self.for_loop(e0, env)
        if k == "call" and (H.path_of(H.unwrap(e0["f"])) or "").startswith("core::panicking::"):
            raise H.Unsupported("reaches a panic (%s)" % ((e0.get("macro") or {}).get("snippet") or H.path_of(H.unwrap(e0["f"]))))
        if k == "mcall" and e0.get("name") in ("next", "next_back", "take") and not e0.get("args") and H.is_k(H.unwrap(e0["recv"]), "field"):
            # an iterator / Option held in a FIELD and consumed in place (`self.iter.next()`, `self.rest.take()`)
            r0 = H.unwrap(e0["recv"])
            base = self.ev(r0["base"], env)
            if isinstance(base, tuple) and base and base[0] == "obj" and r0["name"] in base[2]:
                cur = base[2][r0["name"]]
                if e0["name"] == "take" and "option::Option" in str(e0.get("callee", "")):
                    base[2][r0["name"]] = H.NONE_V
                    return cur
                if isinstance(cur, (Vec, View)):
                    cur = ("iter", list(cur.items if isinstance(cur, Vec) else cur.get()))
                if e0["name"] != "take" and isinstance(cur, tuple) and cur and cur[0] == "iter":
                    xs = list(cur[1])
                    if not xs:
                        return H.NONE_V
                    x = xs.pop(0) if e0["name"] == "next" else xs.pop()
                    base[2][r0["name"]] = ("iter", xs)
                    return H.some(x)
        if k == "mcall" and e0.get("name") in ("next", "next_back") and not e0.get("args"):
            # an iterator held in a local and advanced by hand (`while let Some(x) = it.next()`): the local is consumed
            r0 = H.unwrap(e0["recv"])
            while H.is_k(r0, "ref") or (H.is_k(r0, "unary") and r0.get("op") == "*"):
                r0 = H.unwrap(r0["e"])
            nm = H.local_name(r0)
            cur = env.get(nm) if nm is not None else None
            if isinstance(cur, (Vec, View)):
                cur = ("iter", list(cur.items if isinstance(cur, Vec) else cur.get()))
            if isinstance(cur, tuple) and cur and cur[0] == "range" and all(isinstance(x, int) for x in cur[1:3]):
                cur = ("iter", list(range(cur[1], cur[2] + (1 if cur[3] else 0))))
            if nm is not None and isinstance(cur, tuple) and cur and cur[0] == "iter":
                xs = list(cur[1])
                if not xs:
                    return H.NONE_V
                x = xs.pop(0) if e0["name"] == "next" else xs.pop()
                env[nm] = ("iter", xs)
                return H.some(x)
        if k == "mcall" and e0.get("name") == "into" and not e0.get("callee_local"):
            cands = [fn for fn in self.facts.hir if fn.startswith("<%s as core::convert::From<" % e0.get("ty"))]
            if len(cands) == 1:
                return self.call_fn(cands[0], [self.ev(e0["recv"], env)])
        if k == "match" and str(e0.get("src", "")).startswith("TryDesugar"):
            # `x?` on an Option: None returns None from the function, Some(v) yields v
            sc = H.unwrap(e0["scrut"])
            inner = self.ev(sc["args"][0] if H.is_k(sc, "call") and sc.get("args") else sc, env)
            if inner == H.NONE_V:
                raise SE.Ret(H.NONE_V)
            if isinstance(inner, tuple) and inner[0] == "v" and inner[1] == H.SOME:
                return inner[2][0]
            raise H.Unsupported("`?` on %r" % (inner,))
        if k == "call":
            fp0 = H.path_of(H.unwrap(e0["f"])) or ""
            if fp0 in ("core::mem::take", "core::mem::replace") and e0["args"]:
                a0 = H.unwrap(e0["args"][0])
                if H.is_k(a0, "ref"):
                    place = a0["e"]
                    old = self.ev(place, env)
                    if fp0.endswith("take"):
                        if isinstance(old, bool):
                            new = False
                        elif isinstance(old, int):
                            new = 0
                        elif isinstance(old, Vec):
                            new = Vec([])
                        elif isinstance(old, tuple) and old and old[0] == "v" and old[1] in (H.SOME, H.NONE):
                            new = H.NONE_V
                        else:
                            raise H.Unsupported("mem::take of %r" % (old,))
                    else:
                        new = self.ev(e0["args"][1], env)
                    self.assign(place, new, env)
                    return old
        if k == "call":
            fp = H.path_of(H.unwrap(e0["f"])) or ""
            if fp.endswith("vec::from_elem"):
                el, n = [self.ev(a, env) for a in e0["args"]]
                return Vec([deep(el) for _ in range(n)])
        return super().ev(e, env)

    def for_loop(self, e0, env):
        sc = H.unwrap(e0["scrut"])
        if not (H.is_k(sc, "call") and sc["args"]):
            raise H.Unsupported("for loop shape")
        rng = self.ev(sc["args"][0], env)
        seq = None
        if isinstance(rng, tuple) and rng and rng[0] == "iter":
            seq = list(rng[1])
        elif isinstance(rng, (Vec, View)):
            mut_ = str(H.unwrap(sc["args"][0]).get("ty", "")).startswith("&mut") or str(H.unwrap(sc["args"][0]).get("adj_ty", "")).startswith("&mut")
            if mut_:
                seq = self.ext_method("iter_mut", "", rng, [])[1]
            else:
                seq = list(rng.items if isinstance(rng, Vec) else rng.get())
        elif isinstance(rng, tuple) and rng and rng[0] == "range":
            seq = list(range(rng[1], rng[2] + (1 if rng[3] else 0)))
        if seq is None:
            raise H.Unsupported("for loop over %r" % (rng,))
        inner = H.find(e0["arms"][0]["body"], lambda n: H.is_k(n, "match") and n is not e0)
        some_arm = None
        for m in inner:
            for a in m["arms"]:
                p = a["pat"]
                if p["p"] in ("tuplestruct", "struct") and str((p.get("path") or {}).get("path", "")).endswith("Option::Some"):
                    some_arm = a
                    break
            if some_arm:
                break
        if some_arm is None:
            raise H.Unsupported("for loop desugaring")
        p = some_arm["pat"]
        item_pat = p["pats"][0] if p["p"] == "tuplestruct" else p["fields"][0]["pat"]
        for i in seq:
            e2 = dict(env)
            self.match_pat(item_pat, i, e2)
            try:
                self.ev(some_arm["body"], e2)
            except SE.Break:
                break
            for kk in env:
                if kk in e2:
                    env[kk] = e2[kk]
        return ("t", ())

    def assign(self, lhs, v, env):
        lhs0 = H.unwrap(lhs)
        if H.is_k(lhs0, "unary") and lhs0["op"] == "*":
            tgt = self.ev(lhs0["e"], env)
            if isinstance(tgt, CellRef):
                tgt.set(v)
                return
        if H.is_k(lhs0, "index"):
            base = self.ev(lhs0["base"], env)
            idx = self.ev(lhs0["idx"], env)
            if isinstance(base, (Vec, View)) and isinstance(idx, int):
                n = len(base.items) if isinstance(base, Vec) else base.hi - base.lo
                if not 0 <= idx < n:
                    raise H.Unsupported("index %d out of bounds (len %d; would panic)" % (idx, n))
                if isinstance(base, Vec):
                    base.items[idx] = v
                else:
                    base.vec.items[base.lo + idx] = v
                return
            raise H.Unsupported("indexed assignment target")
        if H.is_k(lhs0, "field"):
            base = self.ev(lhs0["base"], env)
            if isinstance(base, tuple) and base[0] == "obj":
                base[2][lhs0["name"]] = v
                return
            nm = H.local_name(H.unwrap(lhs0["base"]))
            if isinstance(base, tuple) and base and base[0] == "t" and nm is not None and str(lhs0["name"]).isdigit() and int(lhs0["name"]) < len(base[1]):
                items = list(base[1])          # `pair.0 = v` on a local tuple
                items[int(lhs0["name"])] = v
                env[nm] = ("t", tuple(items))
                return
        return super().assign(lhs, v, env)

    def field(self, base, name):
        if isinstance(base, tuple) and base and base[0] == "range" and not base[3] and name in ("start", "end"):
            return base[1] if name == "start" else base[2]
        return super().field(base, name)

    def index(self, base, idx):
        if isinstance(base, (Vec, View)):
            n = len(base.items) if isinstance(base, Vec) else base.hi - base.lo
            off = 0 if isinstance(base, Vec) else base.lo
            vec = base if isinstance(base, Vec) else base.vec
            if isinstance(idx, int):
                if not 0 <= idx < n:
                    raise H.Unsupported("index %d out of bounds (len %d; would panic)" % (idx, n))
                return vec.items[off + idx]
            if isinstance(idx, tuple) and idx[0] == "rangefrom":
                if not 0 <= idx[1] <= n:
                    raise H.Unsupported("slice start %d out of bounds (len %d; would panic)" % (idx[1], n))
                return View(vec, off + idx[1], off + n)
            if isinstance(idx, tuple) and idx[0] == "range":
                lo, hi = idx[1], idx[2] + (1 if idx[3] else 0)
                if not 0 <= lo <= hi <= n:
                    raise H.Unsupported("slice %d..%d out of bounds (len %d; would panic)" % (lo, hi, n))
                return View(vec, off + lo, off + hi)
            if isinstance(idx, tuple) and idx[0] == "rangefull":
                return View(vec, off, off + n)
        return super().index(base, idx)

    def ext_call(self, fp, args):
        if fp.endswith("iter::sources::repeat::repeat"):
            return ("repeat", args[0])
        if fp.endswith("Vec::<T>::new") or fp.endswith("Vec::<T>::with_capacity") or fp.endswith("vec::Vec::new"):
            return Vec([])
        last = fp.rsplit("::", 1)[-1]
        if last in ("min", "max") and len(args) == 2 and all(isinstance(a, int) and not isinstance(a, bool) for a in args):
            return min(args) if last == "min" else max(args)
        if last in ("saturating_sub", "saturating_add") and len(args) == 2 and all(isinstance(a, int) for a in args):
            return max(0, args[0] - args[1]) if last == "saturating_sub" else args[0] + args[1]
        return super().ext_call(fp, args)

    def ext_method(self, name, callee, recv, args):
        if isinstance(recv, tuple) and recv and recv[0] == "obj" and name in ("collect", "next", "count", "last"):
            nxt = [fn for fn in self.facts.hir if fn.startswith("<%s" % recv[1]) and fn.endswith(" as core::iter::traits::iterator::Iterator>::next")]
            if len(nxt) == 1:
                if name == "next":
                    return self.call_fn(nxt[0], [recv])
                out = []
                for _ in range(2000):
                    r = self.call_fn(nxt[0], [recv])
                    if r == H.NONE_V:
                        break
                    if not (isinstance(r, tuple) and r[0] == "v" and r[1] == H.SOME):
                        raise H.Unsupported("iterator step gives %r" % (r,))
                    out.append(r[2][0])
                else:
                    raise H.Unsupported("iterator does not terminate within 2000 steps")
                return Vec(out) if name == "collect" else len(out) if name == "count" else (H.some(out[-1]) if out else H.NONE_V)
        if name == "or_else" and len(args) == 1 and isinstance(recv, tuple) and recv and recv[0] == "v" and recv[1] in (H.SOME, H.NONE_V[1]):
            return recv if recv != H.NONE_V else self.call_closure(args[0], [])
        if isinstance(recv, bool) and name == "then_some" and len(args) == 1:
            return H.some(args[0]) if recv else H.NONE_V
        if isinstance(recv, bool) and name == "then" and len(args) == 1:
            return H.some(self.call_closure(args[0], [])) if recv else H.NONE_V
        if isinstance(recv, (Vec, View)) and name in ("split_inclusive", "split") and len(args) == 1:
            vec, lo, hi = (recv, 0, len(recv.items)) if isinstance(recv, Vec) else (recv.vec, recv.lo, recv.hi)
            groups, start = [], lo
            for i in range(lo, hi):
                r = self.call_closure(args[0], [vec.items[i]])
                if not isinstance(r, bool):
                    raise H.Unsupported("%s predicate gives %r" % (name, r))
                if r:
                    groups.append(View(vec, start, i + 1 if name == "split_inclusive" else i))
                    start = i + 1
            if start < hi or name == "split":
                groups.append(View(vec, start, hi))
            return ("iter", groups)
        # ---- finite iterator algebra: an iterator over a vector / slice / range is the list of its items ----------
        if isinstance(recv, (Vec, View)) and name in ("iter", "into_iter"):
            return ("iter", list(recv.items if isinstance(recv, Vec) else recv.get()))
        if isinstance(recv, (Vec, View)) and name == "iter_mut":
            vec = recv if isinstance(recv, Vec) else recv.vec
            off = 0 if isinstance(recv, Vec) else recv.lo
            n_ = len(recv.items) if isinstance(recv, Vec) else recv.hi - recv.lo
            return ("iter", [vec.items[off + i] if isinstance(vec.items[off + i], tuple) and vec.items[off + i][:1] == ("obj",) else CellRef(vec, off + i) for i in range(n_)])
        if isinstance(recv, tuple) and recv and recv[0] == "range" and name in ("into_iter", "iter", "rev", "step_by", "map", "filter", "filter_map", "enumerate", "collect", "count", "for_each", "take", "skip"):
            recv = ("iter", list(range(recv[1], recv[2] + (1 if recv[3] else 0))))
            if name in ("into_iter", "iter"):
                return recv
        if isinstance(recv, tuple) and recv and recv[0] == "iter":
            xs = recv[1]
            if name in ("into_iter", "iter", "by_ref", "copied", "cloned", "peekable", "fuse"):
                return recv
            if name == "enumerate":
                return ("iter", [("t", (i, x)) for i, x in enumerate(xs)])
            if name == "rev":
                return ("iter", list(reversed(xs)))
            if name == "map":
                return ("iter", [self.call_closure(args[0], [x]) for x in xs])
            if name == "flat_map":
                out = []
                for x in xs:
                    r = self.call_closure(args[0], [x])
                    if isinstance(r, tuple) and r and r[0] == "iter":
                        out.extend(r[1])
                    elif isinstance(r, (Vec, View)):
                        out.extend(r.items if isinstance(r, Vec) else r.get())
                    else:
                        raise H.Unsupported("flat_map closure gives %r" % (r,))
                return ("iter", out)
            if name == "filter":
                return ("iter", [x for x in xs if self.call_closure(args[0], [x]) is True])
            if name == "filter_map":
                out = []
                for x in xs:
                    r = self.call_closure(args[0], [x])
                    if r == H.NONE_V:
                        continue
                    if isinstance(r, tuple) and r[0] == "v" and r[1] == H.SOME:
                        out.append(r[2][0])
                    else:
                        raise H.Unsupported("filter_map closure result %r" % (r,))
                return ("iter", out)
            if name == "take" and isinstance(args[0], int):
                return ("iter", xs[:args[0]])
            if name == "skip" and isinstance(args[0], int):
                return ("iter", xs[args[0]:])
            if name == "step_by" and isinstance(args[0], int) and args[0] > 0:
                return ("iter", xs[::args[0]])
            if name == "take_while":
                out = []
                for x in xs:
                    if self.call_closure(args[0], [x]) is not True:
                        break
                    out.append(x)
                return ("iter", out)
            if name == "skip_while":
                i = 0
                while i < len(xs) and self.call_closure(args[0], [xs[i]]) is True:
                    i += 1
                return ("iter", xs[i:])
            if name == "zip" and isinstance(args[0], tuple) and args[0] and args[0][0] == "iter":
                return ("iter", [("t", (a, b)) for a, b in zip(xs, args[0][1])])
            if name == "chain" and isinstance(args[0], tuple) and args[0] and args[0][0] == "iter":
                return ("iter", xs + args[0][1])
            if name == "collect":
                return Vec(xs)
            if name == "count":
                return len(xs)
            if name in ("all", "any"):
                rs = [self.call_closure(args[0], [x]) for x in xs]
                return all(r is True for r in rs) if name == "all" else any(r is True for r in rs)
            if name in ("nth", "nth_back") and isinstance(args[0], int):
                ys = xs if name == "nth" else list(reversed(xs))
                return H.some(ys[args[0]]) if args[0] < len(ys) else H.NONE_V
            if name in ("next", "next_back", "last"):
                if not xs:
                    return H.NONE_V
                return H.some(xs[0] if name == "next" else xs[-1])
            if name == "position":
                for i, x in enumerate(xs):
                    if self.call_closure(args[0], [x]) is True:
                        return H.some(i)
                return H.NONE_V
            if name == "rposition":
                for i in range(len(xs) - 1, -1, -1):
                    if self.call_closure(args[0], [xs[i]]) is True:
                        return H.some(i)
                return H.NONE_V
            if name in ("find", "rfind"):
                for x in (xs if name == "find" else list(reversed(xs))):
                    if self.call_closure(args[0], [x]) is True:
                        return H.some(x)
                return H.NONE_V
            if name == "for_each":
                for x in xs:
                    self.call_closure(args[0], [x])
                return ("t", ())
            if name in ("min", "max") and xs and all(isinstance(x, int) for x in xs):
                return H.some(min(xs) if name == "min" else max(xs))
            if name == "sum" and all(isinstance(x, int) for x in xs):
                return sum(xs)
            raise H.Unsupported("iterator adaptor %s" % name)
        if isinstance(recv, int) and not isinstance(recv, bool) and args and isinstance(args[0], int):
            a0 = args[0]
            if name == "checked_sub":
                return H.some(recv - a0) if recv - a0 >= 0 else H.NONE_V
            if name == "checked_add":
                return H.some(recv + a0)
            if name == "wrapping_sub":
                return (recv - a0) % (1 << 64)
            if name == "abs_diff":
                return abs(recv - a0)
            if name == "pow":
                return recv ** a0
            if name in ("cmp", "partial_cmp"):
                o = ("v", "core::cmp::Ordering::" + ("Less" if recv < a0 else "Equal" if recv == a0 else "Greater"))
                return o if name == "cmp" else H.some(o)
        if isinstance(recv, (Vec, View)):
            items = recv.items if isinstance(recv, Vec) else recv.get()
            if name == "copy_within" and isinstance(args[0], tuple) and args[0] and args[0][0] in ("range", "rangefrom") and isinstance(args[1], int):
                lo = args[0][1]
                hi = len(items) if args[0][0] == "rangefrom" else args[0][2] + (1 if args[0][3] else 0)
                if not (0 <= lo <= hi <= len(items)) or args[1] + (hi - lo) > len(items):
                    raise H.Unsupported("copy_within out of bounds (would panic)")
                seg = items[lo:hi]
                new = list(items)
                new[args[1]:args[1] + len(seg)] = seg
                if isinstance(recv, Vec):
                    recv.items[:] = new
                else:
                    recv.put(new)
                return ("t", ())
            if name == "swap" and len(args) == 2 and all(isinstance(a, int) for a in args):
                if not all(0 <= a < len(items) for a in args):
                    raise H.Unsupported("swap index out of bounds (would panic)")
                new = list(items)
                new[args[0]], new[args[1]] = new[args[1]], new[args[0]]
                if isinstance(recv, Vec):
                    recv.items[:] = new
                else:
                    recv.put(new)
                return ("t", ())
            if name in ("first", "last", "first_mut", "last_mut"):
                return H.some(items[0] if name in ("first", "first_mut") else items[-1]) if items else H.NONE_V
            if name in ("get", "get_mut") and isinstance(args[0], int):
                return H.some(items[args[0]]) if 0 <= args[0] < len(items) else H.NONE_V
            if name == "partition_point":
                i = 0
                while i < len(items) and self.call_closure(args[0], [items[i]]) is True:
                    i += 1
                return i
            if name == "binary_search" and all(isinstance(x, int) for x in items) and isinstance(args[0], int):
                if args[0] in items:
                    return ("v", "core::result::Result::Ok", (items.index(args[0]),))
                return ("v", "core::result::Result::Err", (len([x for x in items if x < args[0]]),))
            if name == "contains":
                return args[0] in items
            if name == "to_vec":
                return Vec([deep(x) for x in items])

            def store(new):
                if isinstance(recv, Vec):
                    recv.items[:] = new
                else:
                    recv.put(new)
            if name == "len":
                return len(items)
            if name == "is_empty":
                return not items
            if name in ("rotate_left", "rotate_right"):
                n = args[0]
                if not (isinstance(n, int) and 0 <= n <= len(items)):
                    raise H.Unsupported("%s by %r on a slice of %d (would panic)" % (name, n, len(items)))
                store(items[n:] + items[:n] if name == "rotate_left" else items[len(items) - n:] + items[:len(items) - n])
                return ("t", ())
            if name == "fill":
                store([deep(args[0]) for _ in items])
                return ("t", ())
            if isinstance(recv, Vec):
                if name == "insert":
                    if not (isinstance(args[0], int) and 0 <= args[0] <= len(recv.items)):
                        raise H.Unsupported("insert index out of bounds (would panic)")
                    recv.items.insert(args[0], deep(args[1]))
                    return ("t", ())
                if name == "extend":
                    it = args[0]
                    if isinstance(it, tuple) and it[0] == "take":
                        recv.items.extend([deep(it[1]) for _ in range(it[2])])
                        return ("t", ())
                    if isinstance(it, tuple) and it[0] == "iter":
                        recv.items.extend([deep(x) for x in it[1]])
                        return ("t", ())
                    if isinstance(it, (Vec, View)):
                        recv.items.extend([deep(x) for x in (it.items if isinstance(it, Vec) else it.get())])
                        return ("t", ())
                    raise H.Unsupported("extend with %r" % (it,))
                if name == "truncate":
                    del recv.items[args[0]:]
                    return ("t", ())
                if name == "retain" and len(args) == 1:
                    keep = []
                    for x in list(recv.items):
                        r = self.call_closure(args[0], [x])
                        if not isinstance(r, bool):
                            raise H.Unsupported("retain predicate gives %r" % (r,))
                        if r:
                            keep.append(x)
                    recv.items[:] = keep
                    return ("t", ())
                if name == "dedup" and not args:
                    out = []
                    for x in recv.items:
                        if not out or out[-1] != x:
                            out.append(x)
                    recv.items[:] = out
                    return ("t", ())
                if name == "sort" and not args and all(isinstance(x, int) for x in recv.items):
                    recv.items.sort()
                    return ("t", ())
                if name == "splice" and isinstance(args[0], tuple) and args[0][0] == "range" and isinstance(args[1], tuple) and args[1][0] == "take":
                    lo, hi = args[0][1], args[0][2] + (1 if args[0][3] else 0)
                    if not 0 <= lo <= hi <= len(recv.items):
                        raise H.Unsupported("splice range out of bounds (would panic)")
                    recv.items[lo:hi] = [deep(args[1][1]) for _ in range(args[1][2])]
                    return ("t", ())
                if name == "drain" and isinstance(args[0], tuple) and args[0][0] in ("rangefull", "rangefrom"):
                    lo = 0 if args[0][0] == "rangefull" else args[0][1]
                    if not 0 <= lo <= len(recv.items):
                        raise H.Unsupported("drain range out of bounds (would panic)")
                    out = recv.items[lo:]
                    del recv.items[lo:]
                    return Vec(out)
                if name == "drain" and isinstance(args[0], tuple) and args[0][0] == "range":
                    lo, hi = args[0][1], args[0][2] + (1 if args[0][3] else 0)
                    if not 0 <= lo <= hi <= len(recv.items):
                        raise H.Unsupported("drain range out of bounds (would panic)")
                    out = recv.items[lo:hi]
                    del recv.items[lo:hi]
                    return Vec(out)
                if name == "push":
                    recv.items.append(args[0])
                    return ("t", ())
                if name in ("reserve", "reserve_exact", "shrink_to_fit"):
                    return ("t", ())
                if name == "clear":
                    recv.items[:] = []
                    return ("t", ())
                if name == "resize" and isinstance(args[0], int):
                    if args[0] <= len(recv.items):
                        del recv.items[args[0]:]
                    else:
                        recv.items.extend([deep(args[1]) for _ in range(args[0] - len(recv.items))])
                    return ("t", ())
                if name == "remove" and isinstance(args[0], int):
                    if not 0 <= args[0] < len(recv.items):
                        raise H.Unsupported("remove index out of bounds (would panic)")
                    return recv.items.pop(args[0])
                if name == "pop":
                    return H.some(recv.items.pop()) if recv.items else H.NONE_V
                if name == "split_off" and isinstance(args[0], int):
                    if not 0 <= args[0] <= len(recv.items):
                        raise H.Unsupported("split_off out of bounds (would panic)")
                    tail = recv.items[args[0]:]
                    del recv.items[args[0]:]
                    return Vec(tail)
        if name == "take" and isinstance(recv, tuple) and recv and recv[0] == "repeat" and isinstance(args[0], int):
            return ("take", recv[1], args[0])
        if name in ("min", "max") and isinstance(recv, int) and isinstance(args[0], int):
            return min(recv, args[0]) if name == "min" else max(recv, args[0])
        if name in ("saturating_sub", "saturating_add") and isinstance(recv, int) and isinstance(args[0], int):
            return max(0, recv - args[0]) if name == "saturating_sub" else recv + args[0]
        if name == "clamp" and isinstance(recv, int) and len(args) == 2 and all(isinstance(a, int) for a in args):
            return max(args[0], min(recv, args[1]))
        if name == "clone":
            return deep(recv)
        if name == "clone_from" and isinstance(recv, tuple) and recv and recv[0] == "obj" and isinstance(args[0], tuple) and args[0] and args[0][0] == "obj":
            src_ = deep(args[0])
            recv[2].clear()
            recv[2].update(src_[2])
            return ("t", ())
        if callee.startswith("core::option::Option") and name in ("as_ref", "as_mut", "copied", "cloned"):
            return recv
        if callee.startswith("core::option::Option") and name == "or":
            return args[0] if recv == H.NONE_V else recv
        if callee.startswith("core::option::Option") and name == "or_else":
            return self.call_closure(args[0], []) if recv == H.NONE_V else recv
        if callee.startswith("core::option::Option") and name == "and_then":
            return H.NONE_V if recv == H.NONE_V else self.call_closure(args[0], [recv[2][0]])
        if callee.startswith("core::option::Option") and name == "map_or":
            return args[0] if recv == H.NONE_V else self.call_closure(args[1], [recv[2][0]])
        if callee.startswith("core::option::Option") and name == "unwrap_or_else":
            return self.call_closure(args[0], []) if recv == H.NONE_V else recv[2][0]
        if callee.startswith("core::option::Option") and name == "filter":
            if recv == H.NONE_V:
                return recv
            keep = self.call_closure(args[0], [recv[2][0]])
            return recv if keep is True else H.NONE_V
        if callee.startswith("core::option::Option") and name in ("unwrap_or", "unwrap_or_default"):
            if recv == H.NONE_V:
                return args[0] if args else ("sym", "default")
            return recv[2][0]
        if callee.startswith("core::option::Option") and name == "take":
            raise H.Unsupported("Option::take on a value (place semantics needed)")
        return super().ext_method(name, callee, recv, args)


def errs():
    return (H.Unsupported, AssertionError, IndexError, KeyError, TypeError, ValueError, RecursionError)


def row_primitives(ctx, w, S, rule, spec=True):
    """Line insert / delete / clear / print against their specification."""
    ctx.rule(rule, "row primitives interpreted on symbolic cells for every row width <= 5, column and count: insert shifts right and drops the overflow, delete shifts left and "
                   "blanks the tail with the pen, clear blanks exactly its range, print replaces exactly one cell; a slice panic counts as a violation")
    roles = {}
    for fn, fo in w.facts.fns.items():
        if (fo.get("impl_self") or {}).get("adt") != S.line_ty or fo.get("impl_trait") or fn not in w.facts.hir:
            continue
        ins = [i["s"] for i in fo["inputs"]]
        if not ins or not ins[0].startswith("&mut "):
            continue
        key = {("usize", "usize", "cell::Cell"): "insert", ("usize", "usize", "&pen::Pen"): "delete",
               ("core::ops::range::Range<usize>", "&pen::Pen"): "clear", ("usize", "cell::Cell"): "print"}.get(tuple(ins[1:]))
        if key:
            if key in roles:
                ctx.missing_anchor(rule, "unique Line %s primitive" % key)
                return
            roles[key] = fn
    for need in ("insert", "delete", "clear", "print"):
        if need not in roles:
            ctx.missing_anchor(rule, "Line %s primitive" % need)
            return
    pen = ("sym", "PEN")
    NEW = ("sym", "NEW")
    n_cases = 0
    bad = 0

    def line_of(cells):
        return ("obj", S.line_ty, {S.cells_field: Vec(cells), S.wrap_field: True})

    def run(which, k, args, want_of, key, desc):
        nonlocal n_cases, bad
        base = [("sym", "c%d" % i) for i in range(k)]
        ln = line_of(base)
        it = VecInterp(w.facts)
        try:
            it.call_fn(roles[which], [ln] + args)
            bl = it.call_fn("cell::Cell::blank", [pen])
            got = ln[2][S.cells_field].items
            want = want_of(base, bl)
            if ln[2][S.wrap_field] is not True:
                got = "soft-wrap mark changed by the row primitive"
        except errs() as ex:
            got, want = "error: %s" % (ex,), None
        n_cases += 1
        if got != want and (spec or want is None):
            bad += 1
            if bad <= 6:
                ctx.violation(rule, key, "Line %s on a %d-cell row gives %s, specification %s" % (desc, k, show(got), show(want)), loc=w.fn_loc(roles[which]))
    for k in range(1, 9 if getattr(ctx, "tier", "") == "thorough" else 6):
        for col in range(0, k + 1):
            for n in range(0, k - col + 1):
                run("insert", k, [col, n, NEW], lambda b, bl, col=col, n=n, k=k: b[:col] + [NEW] * n + b[col:k - n], "insert/k=%d,col=%d,n=%d" % (k, col, n), "insert(col=%d, n=%d)" % (col, n))
                run("delete", k, [col, n, pen], lambda b, bl, col=col, n=n: b[:col] + b[col + n:] + [bl] * n, "delete/k=%d,col=%d,n=%d" % (k, col, n), "delete(col=%d, n=%d)" % (col, n))
            if col < k:
                run("print", k, [col, NEW], lambda b, bl, col=col: b[:col] + [NEW] + b[col + 1:], "print/k=%d,col=%d" % (k, col), "print(col=%d)" % col)
            for hi in range(col, k + 1):
                run("clear", k, [("range", col, hi, False), pen], lambda b, bl, col=col, hi=hi: b[:col] + [bl] * (hi - col) + b[hi:], "clear/k=%d,%d..%d" % (k, col, hi), "clear(%d..%d)" % (col, hi))
    if not bad:
        ctx.ok(rule, "all", {"cases": n_cases, "bound": "row widths 1..%d, every column and count" % (8 if getattr(ctx, "tier", "") == "thorough" else 5), "primitives": roles})
    ctx.rule_counts[rule] = n_cases
    return roles


def show(x):
    if x is None:
        return "no panic"
    if isinstance(x, str):
        return x
    out = []
    for c in x:
        if isinstance(c, tuple) and c and c[0] == "sym":
            out.append(c[1])
        elif isinstance(c, tuple) and c and c[0] == "v":
            out.append("blank")
        else:
            out.append(str(c)[:12])
    return "[" + " ".join(out) + "]"


def deep_cfg(cfg):
    return {k: (v if v == H.NONE_V else H.some(deep(v[2][0]))) for k, v in cfg.items()}


def cfg_str(v):
    if v == H.NONE_V:
        return "None"
    return "Some(%s)" % ",".join(str(x) for x in v[2][0][2].values())


def scroll_primitives(ctx, w, S, rule, spec=True):
    """Buffer scroll_up / scroll_down on symbolic rows for every small geometry."""
    from rules import c06
    up, down = c06.scroll_prims(w, S)
    ctx.rule(rule, "scroll primitives interpreted on symbolic rows (1..4 rows, 0..2 scrollback lines, 2 columns, every range, every count 0..rows+1): the rows of the range shift by exactly "
                   "min(n, height), vacated rows are blank rows in the pen, rows outside the range keep their place, rows scrolled off a range starting at row 0 are appended to the "
                   "scrollback in order; a soft-wrap mark survives exactly where the following row is still the same row (n >= 1) and is never set; a panic counts as a violation")
    if not up or not down:
        ctx.missing_anchor(rule, "scroll primitives")
        return
    pen = ("sym", "PEN")
    n_cases = 0
    bad = 0
    bf = w.facts.struct_fields(S.buffer_ty)
    cols = 2

    def default_of(f):
        s = f["ty"]["s"]
        if s == "bool":
            return False
        if s == "usize":
            return 0
        if s.startswith("core::option::Option<"):
            return H.NONE_V
        return ("sym", "F_" + f["name"])

    # configuration fields of the buffer (the scrollback limit): the primitives must not depend on them
    configs = [{}]
    for f in bf:
        s_ = f["ty"]["s"]
        if s_.startswith("core::option::Option<") and f["name"] not in (S.lines_field,):
            inner = s_[len("core::option::Option<"):-1]
            ifs = w.facts.struct_fields(inner)
            if ifs and all(x["ty"]["s"] == "usize" for x in ifs):
                configs = [{f["name"]: H.NONE_V}] + [{f["name"]: H.some(("obj", inner, {x["name"]: v for x in ifs}))} for v in (0, 1)]
    for rows in range(1, 6 if getattr(ctx, "tier", "") == "thorough" else 5):
        for sb in range(0, 4 if getattr(ctx, "tier", "") == "thorough" else 3):
            for start in range(0, rows):
                for end in range(start + 1, rows + 1):
                    for n in range(0, rows + 2):
                      for cfg in configs:
                        for which, lastmark in (("up", False), ("up", True), ("down", False)):
                            # lastmark: the last screen row carries a soft-wrap mark (a character has just wrapped off it and the scroll follows)
                            names = ["s%d" % i for i in range(sb)] + ["r%d" % i for i in range(rows)]
                            wr0 = {nm: True for nm in names}
                            wr0[names[-1]] = lastmark
                            lines = [("obj", S.line_ty, {S.cells_field: Vec([("sym", nm + "a"), ("sym", nm + "b")]), S.wrap_field: wr0[nm]}) for nm in names]
                            flds = {f["name"]: default_of(f) for f in bf}
                            flds.update({S.lines_field: Vec(lines), S.buf_cols: cols, S.buf_rows: rows})
                            flds.update(deep_cfg(cfg))
                            buf = ("obj", S.buffer_ty, flds)
                            it = VecInterp(w.facts)
                            key = "%s/rows=%d,sb=%d,%d..%d,n=%d%s%s" % (which, rows, sb, start, end, n, ",last-row-marked" if lastmark else "", "".join(",%s=%s" % (k_, cfg_str(v_)) for k_, v_ in cfg.items()))
                            got, gotw = [], []
                            try:
                                it.call_fn(up if which == "up" else down, [buf, ("range", start, end, False), n, pen])
                                bl = it.call_fn("cell::Cell::blank", [pen])
                                for l in flds[S.lines_field].items:
                                    cs = l[2][S.cells_field].items
                                    if cs == [bl] * cols:
                                        got.append("blank")
                                    elif len(cs) == cols and all(isinstance(c, tuple) and c[0] == "sym" for c in cs) and cs[0][1][:-1] == cs[1][1][:-1] and cs[0][1][-1] == "a" and cs[1][1][-1] == "b":
                                        got.append(cs[0][1][:-1])
                                    else:
                                        got.append("?" + show(cs))
                                    gotw.append(bool(l[2][S.wrap_field]))
                                err = None
                            except errs() as ex:
                                err = "error: %s" % (ex,)
                            m = min(n, end - start)
                            view = names[sb:]
                            if which == "down":
                                want = names[:sb] + view[:start] + ["blank"] * m + view[start:end - m] + view[end:]
                            elif start == 0:
                                want = names[:sb] + view[:m] + view[m:end] + ["blank"] * m + view[end:]
                            else:
                                want = names[:sb] + view[:start] + view[start + m:end] + ["blank"] * m + view[end:]
                            n_cases += 1
                            msg = None
                            if err:
                                msg = err
                            elif not spec:
                                msg = None
                            elif got != want:
                                msg = "rows %s, specification %s" % (got, want)
                            else:
                                # soft-wrap marks
                                succ0 = {names[i]: (names[i + 1] if i + 1 < len(names) else None) for i in range(len(names))}
                                for i, nm in enumerate(got):
                                    if nm == "blank":
                                        if gotw[i]:
                                            msg = "a vacated row carries a soft-wrap mark"
                                            break
                                        continue
                                    nxt = got[i + 1] if i + 1 < len(got) else None
                                    if lastmark and nm == names[-1] and which == "up" and end == rows:
                                        # the row a character wrapped off: its continuation is printed on the row the scroll vacates
                                        if not gotw[i]:
                                            msg = "the last screen row, soft-wrapped before the scroll, lost its mark on the way up (the text that continues below it is cut off from it)"
                                    elif nm.startswith("s") and i < sb:
                                        # a line already in the scrollback is never altered (its mark included); that the tree leaves the mark of the
                                        # last scrollback line set when row 0 is scrolled down is noted in DESIGN.md and outside the statements
                                        if gotw[i] != wr0[nm]:
                                            msg = "scrollback line %s had its soft-wrap mark changed (%s -> %s); lines above the screen are never altered" % (nm, wr0[nm], gotw[i])
                                    elif gotw[i] and not wr0[nm]:
                                        msg = "row %s gained a soft-wrap mark" % nm
                                    elif gotw[i] and nxt != succ0[nm] and not nm.startswith("s"):
                                        # (a scrollback line keeps its mark when the first screen row is scrolled down: outside the property's statement, noted in DESIGN.md)
                                        msg = "row %s keeps its soft-wrap mark although the row after it is now %s" % (nm, nxt)
                                    elif n >= 1 and wr0[nm] and nxt == succ0[nm] and not gotw[i]:
                                        msg = "row %s lost its soft-wrap mark although the row after it is unchanged" % nm
                                    if msg:
                                        break
                            if msg:
                                bad += 1
                                if bad <= 6:
                                    ctx.violation(rule, key, "scroll %s of rows %d..%d by %d on a %d-row screen with %d scrollback line(s)%s: %s" % (which, start, end, n, rows, sb, "".join(", %s = %s" % (k_, cfg_str(v_)) for k_, v_ in cfg.items()), msg),
                                                  loc=w.fn_loc(up if which == "up" else down))
    if not bad:
        ctx.ok(rule, "all", {"cases": n_cases, "bound": "rows 1..%d, scrollback 0..%d lines, every range, every count 0..rows+1" % ((5, 3) if getattr(ctx, "tier", "") == "thorough" else (4, 2)), "scroll_up": up, "scroll_down": down})
    ctx.rule_counts[rule] = n_cases


def buffer_edit_primitives(ctx, w, S, R, rule, spec=True):
    """Buffer insert / delete / erase / print interpreted on symbolic screens (cols 1..4, rows 1..3, every cursor
    position incl. the wrap-pending column, every count 0..cols+1, every erase selector as passed by the handlers).
    spec=False: only absence of panics (index / slice / subtraction) is required (C01)."""
    from rules import c07
    import world as WD
    E = w.E
    ctx.rule(rule, ("buffer edit primitives interpreted on symbolic screens: " + ("each selector clears exactly its documented cells (blank + pen), ICH/DCH shift the rest of the row and drop the overflow, "
                    "other rows and cells stay, the soft-wrap mark is cleared exactly when the tail is erased or characters are deleted; " if spec else "") + "no index, slice or subtraction panics for any cursor position (col <= cols), count or selector"))
    sig = {}
    for fn, fo in w.facts.fns.items():
        if (fo.get("impl_self") or {}).get("adt") != S.buffer_ty or fo.get("impl_trait") or fn not in w.facts.hir:
            continue
        ins = [i["s"] for i in fo["inputs"]]
        if len(ins) < 2 or not ins[0].startswith("&mut ") or ins[1] != "(usize, usize)":
            continue
        rest = tuple(ins[2:])
        if rest == ("usize", "cell::Cell"):
            sig["insert"] = fn
        elif rest == ("usize", "&pen::Pen"):
            sig["delete"] = fn
        elif rest == ("cell::Cell",):
            sig["print"] = fn
        elif len(rest) == 2 and rest[1] == "&pen::Pen" and fo["inputs"][2].get("adt") in w.facts.adts and w.facts.adts[fo["inputs"][2]["adt"]]["kind"] == "enum":
            sig["erase"] = fn
            sig["mode_ty"] = fo["inputs"][2]["adt"]
    for need in ("insert", "delete", "print", "erase"):
        if need not in sig:
            ctx.missing_anchor(rule, "Buffer %s primitive" % need)
            return
    # erase selectors -> mode value passed by the handlers (decision table of the handlers, extracted with the
    # buffer replaced by an opaque symbol: hinterp)
    selectors = erase_selectors(ctx, w, S, R, rule, sig["erase"])
    if len(selectors) < 7:
        ctx.missing_anchor(rule, "erase selectors of ED/EL/ECH (found %d)" % len(selectors))
        return
    pen = ("sym", "PEN")
    NEW = ("sym", "NEW")
    bf = w.facts.struct_fields(S.buffer_ty)
    n_cases = 0
    bad = 0

    def default_of(f):
        s = f["ty"]["s"]
        if s == "bool":
            return False
        if s == "usize":
            return 0
        if s.startswith("core::option::Option<"):
            return H.NONE_V
        return ("sym", "F_" + f["name"])

    def run(op, key, cols, rows, pos, args, want_fn, what):
        nonlocal n_cases, bad
        names = [["r%dc%d" % (r, c) for c in range(cols)] for r in range(rows)]
        lines = [("obj", S.line_ty, {S.cells_field: Vec([("sym", x) for x in names[r]]), S.wrap_field: True}) for r in range(rows)]
        sb = ("obj", S.line_ty, {S.cells_field: Vec([("sym", "sb%d" % c) for c in range(cols)]), S.wrap_field: True})
        flds = {f["name"]: default_of(f) for f in bf}
        flds.update({S.lines_field: Vec([sb] + lines), S.buf_cols: cols, S.buf_rows: rows})
        buf = ("obj", S.buffer_ty, flds)
        it = VecInterp(w.facts)
        n_cases += 1
        try:
            it.call_fn(sig[op], [buf, ("t", pos)] + args)
            bl = it.call_fn("cell::Cell::blank", [pen])
            got = []
            for l in flds[S.lines_field].items:
                got.append(([("blank" if c == bl else c[1] if isinstance(c, tuple) and c[0] == "sym" else "?") for c in l[2][S.cells_field].items], bool(l[2][S.wrap_field])))
        except errs() as ex:
            bad += 1
            if bad <= 6:
                ctx.violation(rule, key, "%s: %s" % (what, ex), loc=w.fn_loc(sig[op]))
            return
        if not spec:
            return
        want = [(["sb%d" % c for c in range(cols)], True)] + want_fn(names)
        if got != want:
            bad += 1
            if bad <= 6:
                diff = [(i - 1, g, x) for i, (g, x) in enumerate(zip(got, want)) if g != x]
                ctx.violation(rule, key, "%s: row %d becomes %s (soft-wrapped: %s), specification %s (soft-wrapped: %s)" % (what, diff[0][0], diff[0][1][0], diff[0][1][1], diff[0][2][0], diff[0][2][1])
                              if diff else "%s: number of rows changed" % what, loc=w.fn_loc(sig[op]))
    for cols in range(1, 7 if getattr(ctx, "tier", "") == "thorough" else 5):
        for rows in range(1, 5 if getattr(ctx, "tier", "") == "thorough" else 4):
            for row in range(rows):
                for col in range(cols + 1):
                    geo = "%dx%d@(%d,%d)" % (cols, rows, col, row)
                    if col < cols:
                        def wp(names, col=col, row=row):
                            out = [(list(r), True) for r in names]
                            out[row][0][col] = "NEW"
                            return out
                        run("print", "print/" + geo, cols, rows, (col, row), [NEW], wp, "print at %s" % geo)
                    for n in list(range(0, cols + 2)) + [65535]:
                        m = min(n, cols - col)

                        def wi(names, col=col, row=row, m=m, cols=cols):
                            out = [(list(r), True) for r in names]
                            r0 = names[row]
                            out[row] = (r0[:col] + ["NEW"] * m + r0[col:cols - m], True)
                            return out

                        def wd(names, col=col, row=row, m=m):
                            out = [(list(r), True) for r in names]
                            r0 = names[row]
                            out[row] = (r0[:col] + r0[col + m:] + ["blank"] * m, False)
                            return out
                        run("insert", "insert/%s,n=%d" % (geo, n), cols, rows, (col, row), [n, NEW], wi, "insert %d at %s" % (n, geo))
                        run("delete", "delete/%s,n=%d" % (geo, n), cols, rows, (col, row), [n, pen], wd, "delete %d at %s" % (n, geo))
                    for label, mv, ref in selectors:
                        ns = range(0, cols + 2) if mv[0] == "vn" else [None]
                        for n in ns:
                            mode = ("v", mv[1], (n,)) if mv[0] == "vn" else mv

                            def we(names, col=col, row=row, cols=cols, rows=rows, ref=ref, n=n):
                                out = [(list(r), True) for r in names]
                                c = ref["cols"]
                                if c == "col..cols":
                                    lo, hi = col, cols
                                elif c == "0..cols":
                                    lo, hi = 0, cols
                                elif c == "0..min(col+1,cols)":
                                    lo, hi = 0, min(col + 1, cols)
                                elif c == "col..col+min(n,cols-col)":
                                    lo, hi = col, col + min(n, cols - col)
                                else:
                                    lo, hi = 0, 0
                                cells = out[row][0]
                                for x in range(lo, hi):
                                    cells[x] = "blank"
                                uw = ref["unwrap"]
                                wrapped = True
                                if uw == "always" or (uw == "iff-end" and hi == cols):
                                    wrapped = False
                                out[row] = (cells, wrapped)
                                rr = ref["rows"]
                                blank_row = (["blank"] * cols, False)
                                if rr == "row+below":
                                    for r in range(row + 1, rows):
                                        out[r] = blank_row
                                elif rr == "above+row":
                                    for r in range(0, row):
                                        out[r] = blank_row
                                elif rr == "all":
                                    out = [blank_row for _ in range(rows)]
                                return out
                            run("erase", "erase/%s/%s%s" % (label, geo, "" if n is None else ",n=%d" % n), cols, rows, (col, row), [mode, pen], we,
                                "%s%s at %s" % (label, "" if n is None else " %d" % n, geo))
    if not bad:
        ctx.ok(rule, "all", {"cases": n_cases, "bound": "cols 1..%d, rows 1..%d, every cursor position incl. col == cols, counts 0..cols+1" % ((6, 4) if getattr(ctx, "tier", "") == "thorough" else (4, 3)), "selectors": [s[0] for s in selectors]})
    ctx.rule_counts[rule] = n_cases


def shared_arm(w, h, scope):
    from rules import shared
    return shared.arm_for(w, h, scope)


def erase_selectors(ctx, w, S, R, rule, erase_fn):
    """[(label, mode value | ('vn', path), reference extent)] for ED 0/1/2, EL 0/1/2 and ECH, read off the handlers by
    evaluating them with an opaque buffer; also checks that they act at the cursor position with the current pen."""
    from rules import c07, hinterp
    out = []
    cols, rows, col, row = 4, 3, 1, 1
    for (variant, scope), ref in sorted(c07.REF_SCOPES.items()):
        for h in w.handler(variant):
            label = "%s:%s" % (variant, scope.rsplit("::", 1)[-1])
            try:
                ev, me = hinterp.run_handler(w, S, R, h, [("v", scope)], cols, rows, col, row)
            except errs() as ex:
                ctx.violation(rule, "selector:" + label, "cannot evaluate %s for %s: %s" % (h, scope, ex), loc=w.fn_loc(h))
                continue
            er = [e for e in ev if e[0] == erase_fn]
            if len(er) != 1 or any(e[2] == "buffer" and e[0] != erase_fn for e in ev):
                ctx.violation(rule, "selector:" + label, "%s (%s) performs %s on the buffer; expected exactly one erase" % (variant, scope, [e[0] for e in ev if e[2] == "buffer"]), loc=w.fn_loc(h))
                continue
            pos, mode, pen = er[0][1][0], er[0][1][1], er[0][1][2]
            ctx.check(pos == ("t", (col, row)), rule, "selector:%s:position" % label, "%s erases relative to %r instead of the cursor position" % (h, pos), loc=w.fn_loc(h), sample={"selector": label})
            ctx.check(pen == hinterp.PEN, rule, "selector:%s:pen" % label, "%s erases with %r instead of the current pen" % (h, pen), loc=w.fn_loc(h))
            if isinstance(mode, tuple) and mode[0] == "v" and len(mode) == 2:
                out.append((label, mode, ref))
    for h in w.handler("Ech"):
        try:
            ev, me = hinterp.run_handler(w, S, R, h, [2], cols, rows, col, row)
        except errs() as ex:
            ctx.violation(rule, "selector:Ech", "cannot evaluate %s: %s" % (h, ex), loc=w.fn_loc(h))
            continue
        er = [e for e in ev if e[0] == erase_fn]
        if len(er) == 1 and isinstance(er[0][1][1], tuple) and er[0][1][1][0] == "v" and len(er[0][1][1]) == 3 and er[0][1][1][2] == (2,):
            ctx.check(er[0][1][0] == ("t", (col, row)) and er[0][1][2] == hinterp.PEN, rule, "selector:Ech:operands", "%s erases at %r with %r; expected the cursor position and the current pen" % (h, er[0][1][0], er[0][1][2]), loc=w.fn_loc(h))
            out.append(("Ech", ("vn", er[0][1][1][1]), {"cols": "col..col+min(n,cols-col)", "unwrap": "iff-end", "rows": "row"}))
        else:
            ctx.violation(rule, "selector:Ech", "ECH does not hand its count to one erase of the buffer (%s)" % [(e[0], e[1]) for e in ev if e[2] == "buffer"], loc=w.fn_loc(h))
    return out


def limit_semantics(w, S, T):
    """Buffer::new(.., Some(L), ..) stores soft = L, hard = L + L/10 (None -> None).  -> (soft field, hard field)."""
    res = {}
    for L in (0, 1, 5, 9, 10, 11, 25, 100):
        it = VecInterp(w.facts)
        b = it.call_fn(S.buffer_ctor, [2, 2, H.some(L), H.NONE_V])
        lim = b[2][T.limit_field]
        if not (isinstance(lim, tuple) and lim[0] == "v" and lim[1] == H.SOME and lim[2][0][0] == "obj"):
            raise H.Unsupported("limit value %r" % (lim,))
        res[L] = lim[2][0][2]
    names = list(res[10])
    soft = [n for n in names if res[10][n] == 10 and res[25][n] == 25]
    hard = [n for n in names if n not in soft]
    if len(soft) != 1 or len(hard) != 1:
        return None, "cannot tell the soft from the hard limit: %r" % (res[10],)
    for L, v in res.items():
        if v[soft[0]] != L or v[hard[0]] != L + L // 10:
            return None, "limit %d is stored as soft %r / hard %r; documented: soft = L, hard = L + L/10" % (L, v[soft[0]], v[hard[0]])
    it = VecInterp(w.facts)
    b = it.call_fn(S.buffer_ctor, [2, 2, H.NONE_V, H.NONE_V])
    if b[2][T.limit_field] != H.NONE_V:
        return None, "no configured limit is stored as %r" % (b[2][T.limit_field],)
    return (soft[0], hard[0]), None


def gc_semantics(w, S, T):
    """Buffer gc interpreted on symbolic rows: for every small (rows, scrollback size, limit, flag):
    flag clear -> nothing; flag set -> flag cleared, and iff a limit is configured and size > hard the oldest
    size - soft lines are removed AND returned in order; otherwise nothing.  -> (True, cases) | (False, what)"""
    names, err = limit_semantics(w, S, T)
    if names is None:
        return False, err
    soft_n, hard_n = names
    bf = w.facts.struct_fields(S.buffer_ty)
    n = 0
    # integer literals / constants the gc and trim routines mention induce further size classes (a batch cap, a threshold)
    lits = set()
    for f in {T.buf_gc, T.trim_fn}:
        if f in w.facts.hir:
            for nd in H.walk(w.facts.hir[f]["body"]):
                if H.is_k(nd, "lit") and nd.get("t") == "int" and isinstance(nd.get("v"), int) and 3 < nd["v"] < 100000:
                    lits.add(nd["v"])
                if H.is_k(nd, "path") and nd.get("res") == "def" and str(nd.get("dk", "")).startswith("Const"):
                    c = w.facts.const_int(nd.get("path"))
                    if isinstance(c, int) and 3 < c < 100000:
                        lits.add(c)
    cases = [(rows, size, lim, flag) for rows in (1, 2) for size in range(0, 6) for lim in [None] + [(s_, h_) for s_ in range(0, 4) for h_ in (s_, s_ + 1)] for flag in (False, True)]
    for c in sorted(lits):
        for size in (c - 1, c, c + 1, c + 3, 2 * c + 1):
            cases += [(1, size, (0, 0), True), (1, size, (1, 1), True)]
    if True:
        if True:
            if True:
                for (rows, size, lim, flag) in cases:
                    # every line but the last is soft-wrapped: neither the lines kept nor the lines handed out may lose (or gain) the mark
                    lines = [("obj", S.line_ty, {S.cells_field: Vec([("sym", "l%d" % i)]), S.wrap_field: i < size + rows - 1}) for i in range(size + rows)]
                    flds = {}
                    for f in bf:
                        s = f["ty"]["s"]
                        flds[f["name"]] = False if s == "bool" else 0 if s == "usize" else H.NONE_V if s.startswith("core::option::Option<") else ("sym", "F")
                    flds.update({S.lines_field: Vec(lines), S.buf_cols: 1, S.buf_rows: rows, T.flag: flag,
                                 T.limit_field: H.NONE_V if lim is None else H.some(("obj", T.limit_ty, {soft_n: lim[0], hard_n: lim[1]}))})
                    buf = ("obj", S.buffer_ty, flds)
                    it = VecInterp(w.facts)
                    ret = it.call_fn(T.buf_gc, [buf])
                    got = [l[2][S.cells_field].items[0][1] for l in flds[S.lines_field].items]
                    all_ = ["l%d" % i for i in range(size + rows)]
                    if flag and lim is not None and size > lim[1]:
                        k = size - lim[0]
                        want, want_ret = all_[k:], all_[:k]
                    else:
                        want, want_ret = all_, None
                    if ret == H.NONE_V:
                        got_ret = None
                    elif isinstance(ret, tuple) and ret[0] == "v" and ret[1] == H.SOME and isinstance(ret[2][0], Vec):
                        got_ret = [l[2][S.cells_field].items[0][1] for l in ret[2][0].items]
                    else:
                        raise H.Unsupported("gc result %r" % (ret,))
                    n += 1
                    desc = "rows=%d scrollback=%d limit=%s flag=%s" % (rows, size, "None" if lim is None else "soft %d/hard %d" % lim, flag)
                    if flds[T.flag] is not False:
                        return False, "%s: the trim flag is still set after the gc" % desc
                    if got != want:
                        return False, "%s: lines after the gc %s, specification %s" % (desc, got, want)
                    if (got_ret or None) != (want_ret or None):
                        return False, "%s: the gc hands out %s, specification %s (the drained lines, oldest first)" % (desc, got_ret, want_ret)
                    for l in list(flds[S.lines_field].items) + (list(ret[2][0].items) if got_ret else []):
                        nm = l[2][S.cells_field].items[0][1]
                        if bool(l[2][S.wrap_field]) != (nm != "l%d" % (size + rows - 1)):
                            return False, "%s: line %s has its soft-wrap mark changed by the gc (lines are kept / handed out exactly as they were)" % (desc, nm)
                    lim_after = flds[T.limit_field]
                    lim_want = H.NONE_V if lim is None else H.some(("obj", T.limit_ty, {soft_n: lim[0], hard_n: lim[1]}))
                    if lim_after != lim_want or flds[S.buf_cols] != 1 or flds[S.buf_rows] != rows:
                        return False, "%s: the gc changes the configured limit / the geometry (%s)" % (desc, lim_after)
    return True, n


def ctor_semantics(ctx, w, S, rule):
    """Buffer::new(cols, rows, limit, pen) interpreted: `rows` rows of `cols` blank cells carrying exactly the given
    pen (all of it - colours AND attributes), or the default pen when none is given; unwrapped; size fields as given."""
    ctx.rule(rule, "Buffer::new builds rows x cols blank cells that carry exactly the pen it was given (the default pen when none), no soft-wrap marks, and records the size it was given")
    pen = ("sym", "PEN")
    n = 0
    for cols in (1, 2, 3):
        for rows in (1, 2, 3):
            for p in (H.some(pen), H.NONE_V):
                it = VecInterp(w.facts)
                try:
                    b = it.call_fn(S.buffer_ctor, [cols, rows, H.NONE_V, p])
                    lines = b[2][S.lines_field].items
                    if p == H.NONE_V:
                        dp = [c for c in it.local_calls if False]
                        first = lines[0][2][S.cells_field].items[0] if lines and lines[0][2][S.cells_field].items else None
                        ok_pen = first is not None and isinstance(first, tuple) and first[0] == "v" and first[2][0] == 32 and is_default_pen(w.facts, first[2][1])
                        want_cell = first
                    else:
                        want_cell = it.call_fn("cell::Cell::blank", [pen])
                        ok_pen = True
                    ok = ok_pen and len(lines) == rows and all(l[2][S.cells_field].items == [want_cell] * cols and l[2][S.wrap_field] is False for l in lines) \
                        and b[2][S.buf_cols] == cols and b[2][S.buf_rows] == rows
                    msg = "Buffer::new(%d, %d, .., %s) builds %s" % (cols, rows, "Some(pen)" if p != H.NONE_V else "None", [show(l[2][S.cells_field].items) for l in lines][:3])
                except errs() as ex:
                    ok, msg = False, "Buffer::new(%d, %d, ..) cannot be evaluated: %s" % (cols, rows, ex)
                n += 1
                if not ok:
                    ctx.violation(rule, "%dx%d:%s" % (cols, rows, "pen" if p != H.NONE_V else "none"), msg + "; expected every cell to be a blank in exactly the given pen", loc=w.fn_loc(S.buffer_ctor))
                    ctx.rule_counts[rule] = n
                    return
    ctx.ok(rule, "all", {"cases": n})
    ctx.rule_counts[rule] = n



class _Sink:
    """A context that only remembers whether anything was reported (for silent semantic verdicts)."""

    def __init__(self, tier="quick"):
        self.bad = 0
        self.tier = tier
        self.rule_counts = {}
        self.violations = []

    def rule(self, *a, **k):
        pass

    def ok(self, *a, **k):
        pass

    def note(self, *a, **k):
        pass

    def violation(self, rule, subject, message, loc=None, detail=None):
        self.bad += 1
        self.violations.append({"rule": rule, "subject": subject, "message": message})

    def missing_anchor(self, rule, anchor, why=""):
        self.bad += 1
        self.violations.append({"rule": rule, "subject": anchor, "message": why})

    def check(self, cond, rule, subject, message, loc=None, sample=None, detail=None):
        if not cond:
            self.violation(rule, subject, message)
        return cond

    def floor(self, *a, **k):
        pass


def scroll_ok(w, S):
    """Silent verdict of the scroll-primitive specification (cached per fact set): True iff scroll_primitives reports nothing."""
    c = getattr(w.facts, "_scroll_ok", None)
    if c is None:
        sink = _Sink()
        try:
            scroll_primitives(sink, w, S, "_", spec=True)
            c = sink.bad == 0
        except Exception:
            c = False
        w.facts._scroll_ok = c
    return c


def edits_ok(w, S, R):
    """Silent verdict of the buffer-level insert / delete / erase / print specification (cached per fact set)."""
    c = getattr(w.facts, "_edits_ok", None)
    if c is None:
        sink = _Sink()
        try:
            buffer_edit_primitives(sink, w, S, R, "_", spec=True)
            c = sink.bad == 0 and sink.rule_counts.get("_", 0) >= 1000
        except Exception:
            c = False
        w.facts._edits_ok = c
    return c


def rows_ok(w, S):
    c = getattr(w.facts, "_rows_ok", None)
    if c is None:
        sink = _Sink()
        try:
            row_primitives(sink, w, S, "_", spec=True)
            c = sink.bad == 0
        except Exception:
            c = False
        w.facts._rows_ok = c
    return c
