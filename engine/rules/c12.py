"""C12 - the result is independent of how the input stream is chunked."""
import hir as H
import mir as M
import world as WD
from rules import shared, c14, c20, tables


def run(ctx, w):
    S = shared.screen(w)
    R = shared.roles(w)
    E = w.E
    A = w.anchors
    ctx.explanation = ("Chunking independence is decided as: (K1) Vt::feed and the per-character step of Vt::feed_str are the same step and look at nothing else; (K3) the "
                       "per-call epilogue writes only the dirty set, the trim flag and the scrollback prefix, and no command handler can observe any of them; (K4) "
                       "without a limit nothing is removed; (K5) handlers address the line vector only relative to the view, so how much scrollback is retained cannot matter.")
    ctx.decided = ["K1 sibling agreement of feed / feed_str; neither inspects parser or terminal state itself", "K2 characters are taken in order through lazy adaptors only",
                   "K3 epilogue non-interference (who reads the dirty flags, the trim flag)", "K4 the drain is conditional on a configured limit", "K5 view-relative access to the line vector"]
    ctx.not_decided = ["equality of the final screens as such (follows from K1-K5 together with determinism of the step)"]
    tb = tables.parser_tables(w)
    c20.step_rules(ctx, w, tb)

    ctx.rule("K1", "Vt::feed / Vt::feed_str (and their closures) read no parser or terminal state themselves and call nothing but the step, the report and the gc")
    T = c14.Trim(w, S, R)
    allowed = {A["parser_feed"], A["execute"], S.changes_fn, S.gc_fn, WD.VT_FEED}
    allowed |= {shared.Epilogue(w, S, a).host for a in (WD.VT_FEED_STR, WD.VT_RESIZE)} - {None}
    for api in (WD.VT_FEED, WD.VT_FEED_STR):
        fns = [api] + [c for (pt, c, u) in E.closure_creations[api]]
        for f in fns:
            rd = sorted({M.path_str(p) for ps in E.stmt_reads[f].values() for p in ps if p[0] == "arg1" and len(p) >= 3})
            ctx.check(not rd, "K1", f + ":reads", "%s inspects %s directly: a per-call shortcut makes the outcome depend on where the input is cut" % (f, rd[:4]), loc=w.fn_loc(f), sample={"fn": f, "direct_reads": rd})
            for cs in E.call_sites(f):
                if cs.local and cs.callee not in allowed:
                    ctx.violation("K1", "%s->%s" % (f, cs.callee), "%s calls %s; the per-character step must consist of the parser step and the executor only" % (f, cs.callee), loc=w.site_loc(cs))
                elif cs.local:
                    ctx.ok("K1", "%s->%s" % (f, cs.callee), {"fn": f, "callee": cs.callee})
    ctx.floor("K1", 6, "step call sites")

    ctx.rule("K3", "the epilogue of feed_str/resize writes only the dirty set, the trim flag and the line vector; no handler or parser step reads the dirty set or the trim flag")
    for f in (S.changes_fn, S.gc_fn):
        W = E.summaries[f].W
        bad = sorted({M.path_str(p) for p in W if p[0] == "arg1" and not (p[1] == S.dirty_field or (p[1] == S.active_buffer and len(p) >= 3 and p[2] in (T.flag, S.lines_field)))})
        ctx.check(not bad, "K3", f + ":writes", "the per-call routine %s writes %s: work done once per feed_str call must not touch state a later character can observe" % (f, bad), loc=w.fn_loc(f),
                  sample={"fn": f, "W": sorted({M.path_str(p) for p in W})})
    reach = E.reachable_fns([A["execute"], A["parser_feed"]])
    for fn in sorted(reach):
        rd_dirty = [pt for pt, ps in E.stmt_reads[fn].items() if any(p[:2] == ("arg1", S.dirty_field) and S._impl_of(fn) == S.term_ty for p in ps)]
        rd_flag = [pt for pt, ps in E.stmt_reads[fn].items() if any(p == ("arg1", T.flag) and S._impl_of(fn) == S.buffer_ty for p in ps)]
        if rd_dirty:
            ctx.violation("K3", fn + ":reads-dirty", "%s reads the dirty set: what a command does would depend on when the changes were last collected" % fn, loc=w.stmt_loc(fn, rd_dirty[0]))
        if rd_flag:
            ctx.violation("K3", fn + ":reads-trim-flag", "%s reads the trim flag: what a command does would depend on when the gc last ran" % fn, loc=w.stmt_loc(fn, rd_flag[0]))
    # DirtyLines readers: only the export
    for fn in sorted(w.bodies):
        if S._impl_of(fn) == S.dl_ty and E.summaries[fn].R and not E.summaries[fn].W and fn not in S.dl_export and "fmt" not in fn:
            callers = [c.body for c in E.callers_of(fn) if c.term is not None and c.body in reach]
            ctx.check(not callers, "K3", fn + ":reader", "%s (a reader of the dirty set) is used by command handlers %s" % (fn, callers), loc=w.fn_loc(fn))
    ctx.ok("K3", "readers", {"handler_functions_scanned": len(reach)})
    ctx.floor("K3", 3, "epilogue obligations")

    ctx0 = ctx
    ctx = shared.Deferred(ctx0, {"K4"}, shared.gc_verdict(ctx0, w, S, T, "K4s") if T.ok else None)
    ctx.rule("K4", "with no limit configured nothing is ever removed: the drain is conditional on the limit being Some")
    if T.ok:
        f = T.trim_fn
        gs = [(WD.strip_names(c), v) for c, v in w.guards_of(f, T.drain_site.point[0])]
        ctx.check(any(c[0] == "discr" and T.limit_field in repr(c) and v == 1 for c, v in gs), "K4", f, "the drain in %s is not conditional on a configured limit" % f, loc=w.site_loc(T.drain_site),
                  sample={"guards": [(w.tstr(f, c), v) for c, v in gs]})
        c14.view_rules(ctx, w, S, R, T)
        c14.trim_rules(ctx, w, S, R, T)
    else:
        ctx.missing_anchor("K4", "trim machinery")
    ctx = ctx0
    # rows scrolled off the top are kept, never overwritten (otherwise the view depends on whether the gc ran in between)
    from rules import c06
    up, down = c06.scroll_prims(w, S)
    c06_w9(ctx, w, S, up)
    # the primary screen must carry the CONFIGURED limit everywhere it is (re)built: a primary rebuilt with Some(0)
    # is trimmed to the bare view at the end of every feed_str call but never by feed()
    from rules import c06
    c06.role_limits(ctx, w, S, R, "K7")
    from rules import c13
    if T.ok:
        c13.growth_flag_rule(ctx, w, S, R, T, "K8")
    inband_resize_disabled(ctx, w, S, R, "K9")


def c06_w9(ctx, w, S, up):
    """In the scroll-up primitive existing rows are rotated/overwritten only for
    ranges that do not start at row 0 (shared with C06.W9)."""
    E = w.E
    from rules import prims as _pr
    ctx = shared.Deferred(ctx, {"K6"}, _pr.scroll_ok(w, S))      # decided semantically by the scroll-primitive specification (rows leaving a row-0 range are appended in order)
    ctx.rule("K6", "a scroll of a range starting at row 0 only appends/inserts rows; it never rotates or overwrites rows of the line vector")
    b = w.body(up)
    T = w.terms(up)
    fo = w.facts.fns[up]
    ri = [i for i, t in enumerate(fo["inputs"]) if t["s"] == "core::ops::range::Range<usize>"][0] + 1
    start_t = ("load", ("arg%d" % ri, "start"))
    sw = None
    for blk in sorted(b.normal_blocks()):
        t = b.term(blk)
        if t["k"] == "switch":
            c = WD.strip_names(T.operand(t["discr"], (blk, b.n_stmts(blk))))
            if c == ("binop", "Eq", start_t, ("const", 0)):
                sw = (blk, t)
    if not sw:
        ctx.missing_anchor("K6", "test `range.start == 0` in %s" % up)
        return
    blk, t = sw
    nz = [tgt for v, tgt in t["targets"] if v == 0][0]
    n = 0
    for pt in sorted(b.points()):
        ws = [p for p in E.writes_at(up, pt) if p[0] == "arg1" and len(p) >= 3 and p[1] == S.lines_field and p[2] == "[]" and p[-1] != S.wrap_field]
        if not ws:
            continue
        n += 1
        ctx.check(b.edge_controls((blk, nz), pt[0]), "K6", shared.site_key(w, up, pt), "%s rotates/overwrites rows of the line vector for a range starting at row 0: what stays visible then depends on whether the gc ran since the last scroll" % up,
                  loc=w.stmt_loc(up, pt), sample={"site": shared.site_key(w, up, pt)})
    ctx.floor("K6", 2, "row overwrite sites")


def inband_resize_disabled(ctx, w, S, R, rule):
    """A resize in the middle of a feed_str call would see a scrollback that is only trimmed at the end of calls, i.e. a
    state that depends on the chunking.  The executor may therefore reach the resize entry only under a flag that the
    constructor sets to false and nothing ever writes."""
    E = w.E
    A = w.anchors
    from rules import c19
    ctx.rule(rule, "control functions cannot resize the terminal: every call of the resize entry reachable from the executor is guarded by a flag that is false in the constructor and has no other writer")
    ctors = c19.constructor_of(w, S.term_ty)
    if len(ctors) != 1:
        ctx.missing_anchor(rule, "constructor")
        return
    cf, cpt, crv = ctors[0]
    CT = w.terms(cf)
    ctor_val = {nm: WD.strip_names(CT.operand(op, cpt)) for nm, op in zip(crv["field_names"], crv["ops"])}
    reach = E.reachable_fns([A["execute"]])
    rw = shared.real_writers(w, S, cf)
    n = 0
    for fn in sorted(reach):
        for cs in E.call_sites(fn, S.resize_fn):
            n += 1
            gs = [(WD.strip_names(c), v) for c, v in w.guards_of(fn, cs.point[0])]
            ok = False
            flag = None
            for c, v in gs:
                if c[0] == "load" and len(c[1]) == 2 and c[1][0] == "arg1" and v is True:
                    flag = c[1][1]
                    writers = sorted(rw.get(flag, ()))
                    whole = [f2 for f2 in w.bodies if f2 != cf and S._impl_of(f2) == S.term_ty and any(("arg1",) in ps for ps in E.stmt_writes[f2].values())]
                    if ctor_val.get(flag) == ("const", False) and not writers:
                        ok = True
            ctx.check(ok, rule, "%s:%s" % (fn, shared.site_key(w, fn, cs.point)),
                      "%s can resize the terminal in the middle of a call (guards: %s; constructor value of the flag: %s): the scrollback seen by that resize depends on where the input was cut" %
                      (fn, [(w.tstr(fn, c), v) for c, v in gs], w.tstr(cf, ctor_val.get(flag)) if flag else None), loc=w.site_loc(cs), sample={"fn": fn, "flag": flag})
    if n == 0:
        ctx.ok(rule, "unreachable", {"resize_entry_reachable_from_executor": False})
