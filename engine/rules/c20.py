"""C20 - control strings and unimplemented sequences are inert.
Decided from the extracted tables (A1) plus the step structure of Vt::feed /
Vt::feed_str (A4) and the parser's write frame (A2)."""
import hir as H
import mir as M
import reference as REF
import world as WD
from rules import tables, c03

STRING_STATES = ["OscString", "DcsPassthrough", "DcsIgnore", "SosPmApcString"]
SWALLOW_STATES = STRING_STATES + ["DcsEntry", "DcsParam", "DcsIntermediate", "CsiIgnore"]


def _run(ctx, w):
    tb = tables.parser_tables(w)
    ctx.explanation = (
        "Inertness of control strings and unimplemented sequences is decided on the extracted parser tables: the "
        "string states are absorbing and never print or return a function for payload characters, every terminator "
        "leads to Ground, the dispatch tables are closed (exactly the implemented set returns a function), and the "
        "terminal is only ever invoked with a function returned by the parser."
    )
    ctx.decided = ["S1 absorbing string states", "S2 terminators (ST 8-bit and ESC \\, BEL for OSC)", "S3 closed dispatch tables / unassigned controls",
                   "S4 a `None` from the parser reaches nothing (step structure; parser write frame)", "S5 executor-level no-op (ED 3)"]
    ctx.not_decided = ["nothing structural"]
    ctx.exhaustive = True

    # S1: reference comparison restricted to the swallowing states + the reference-free absorbing rule
    # the whole transition table: besides the swallowing states this covers the
    # bookkeeping that decides whether a later dispatch sees the private marker /
    # intermediate that makes a sequence "unimplemented" (collect on 0x20-0x2F, 0x3C-0x3F)
    c03.run_transition(ctx, w, tb, only_states=None, rule="S1")
    ctx.floor("S1", 14 * 20, "transition cells")
    if ctx.tier == "thorough":
        c03.pointwise(ctx, w, tb, c03.roles(tb), rule="S1x")
    ctx.rule("S1a", "payload characters of a string are consumed: no function, no print, state unchanged")
    for st in STRING_STATES:
        for a in tb.atoms:
            x = a[0]
            terminator = x in (0x18, 0x1A, 0x1B) or 0x80 <= x <= 0x9F or (st == "OscString" and x == 0x07)
            if terminator:
                continue
            c = tb.cell(st, x)
            ctx.check(c.result is None and c.next_state == st and not c.tails, "S1a", "%s/%s" % (st, c03.fmt_atom(a)),
                      "payload %s inside %s is not swallowed: next=%s result=%r" % (c03.fmt_atom(a), st, c.next_state, c.result), loc=c.loc,
                      sample={"state": st, "payload": c03.fmt_atom(a), "next": c.next_state, "result": None})
    ctx.floor("S1a", 4 * 15, "payload cells")

    ctx.rule("S2", "ST (U+009C and ESC \\) ends every string in Ground, BEL ends an OSC string, without producing a function")
    for st in SWALLOW_STATES:
        if st == "CsiIgnore":
            continue
        c = tb.cell(st, 0x9C)
        ctx.check(c.next_state == "Ground" and c.result is None, "S2", "%s/ST" % st,
                  "ST in %s: next=%s result=%r" % (st, c.next_state, c.result), loc=c.loc, sample={"state": st, "input": "U+009C", "next": c.next_state})
        e = tb.cell(st, 0x1B)
        ctx.check(e.next_state == "Escape" and e.result is None, "S2", "%s/ESC" % st, "ESC in %s does not enter Escape" % st, loc=e.loc)
    out = tb.step("Escape", 0x5C)
    ctx.check((out.next_state or "Escape") == "Ground" and out.result is None, "S2", "ESC \\",
              "ESC \\ yields %r and ends in %s" % (out.result, out.next_state), sample={"seq": "ESC \\", "next": out.next_state})
    c = tb.cell("OscString", 0x07)
    ctx.check(c.next_state == "Ground" and c.result is None, "S2", "OscString/BEL", "BEL in OscString: next=%s result=%r" % (c.next_state, c.result), loc=c.loc)
    ctx.floor("S2", 16, "terminator cells")

    ctx.rule("S3", "everything outside the implemented set dispatches to nothing and ends in Ground")
    n_unimpl = 0
    for inter in [None] + list(range(0x20, 0x30)) + list(range(0x3C, 0x40)):
        for fin in range(0x40, 0x7F):
            if REF.csi(inter, fin) is not None:
                continue
            out = tb.step("CsiEntry", fin, tables.NONE if inter is None else inter)
            n_unimpl += 1
            ctx.check(out.result is None and (out.next_state or "CsiEntry") == "Ground", "S3", "CSI %s%s" % (chr(inter) if inter else "", chr(fin)),
                      "unimplemented CSI %s%s yields %r, ends in %s" % (chr(inter) if inter else "", chr(fin), tables.describe(out.result), out.next_state),
                      loc=tb.cell("CsiEntry", fin).loc, sample={"seq": "CSI %s%s" % (chr(inter) if inter else "", chr(fin)), "function": None})
    for inter in [None] + list(range(0x20, 0x30)):
        st = "Escape" if inter is None else "EscapeIntermediate"
        for fin in range(0x30, 0x7F):
            if REF.transition(st, fin)[1] != "esc_dispatch" or REF.esc(inter, fin) is not None:
                continue
            out = tb.step(st, fin, tables.NONE if inter is None else inter)
            ctx.check(out.result is None and (out.next_state or st) == "Ground", "S3", "ESC %s%s" % (chr(inter) if inter else "", chr(fin)),
                      "unimplemented ESC %s%s yields %r" % (chr(inter) if inter else "", chr(fin), tables.describe(out.result)), loc=tb.cell(st, fin).loc)
    for ch in list(range(0, 0x20)) + list(range(0x80, 0xA0)):
        if ch in REF.EXECUTE or REF.transition("Ground", ch)[1] != "execute":
            continue
        out = tb.step("Ground", ch)
        ctx.check(out.result is None and (out.next_state or "Ground") == "Ground", "S3", "U+%04X" % ch,
                  "unassigned control U+%04X yields %r" % (ch, tables.describe(out.result)), loc=tb.cell("Ground", ch).loc)
    ctx.floor("S3", 1000, "unimplemented sequences")

    step_rules(ctx, w, tb)

    ctx.rule("S5", "ED 3 (saved lines) is accepted and does nothing")
    hs = w.handler("Ed")
    done = False
    for h in hs:
        for m in H.find(w.hir(h)["body"], lambda n: H.is_k(n, "match")):
            i, arm, env = H.first_arm(m, ("v", "parser::EdScope::SavedLines"))
            if arm is None:
                continue
            eff = H.find(arm["body"], lambda n: n.get("k") in ("mcall", "call", "assign", "assignop"))
            ctx.check(not eff, "S5", h, "the ED arm selected for EdScope::SavedLines performs %d operation(s); ED 3 must not touch the screen" % len(eff),
                      loc=w.fn_loc(h), sample={"handler": h, "arm": i, "operations": len(eff)})
            done = True
    if not done:
        ctx.missing_anchor("S5", "match on EdScope in the Ed handler")


def step_rules(ctx, w, tb):
    """S4: the terminal acts only on returned functions; the parser cannot
    reach the terminal."""
    E = w.E
    A = w.anchors
    feed, execu = A["parser_feed"], A["execute"]
    ctx.rule("S4a", "the parser step writes only parser state")
    s = E.summaries[feed]
    bad = sorted(M.path_str(p) for p in s.W if p[0] != "arg1")
    ctx.check(not bad, "S4a", feed, "the parser step writes outside the parser: %s" % bad, loc=w.fn_loc(feed),
              sample={"W": sorted(M.path_str(p) for p in s.W)})
    for f in w.facts.struct_fields(A["parser_ty"]) or []:
        t = f["ty"]["s"]
        ctx.check(A["terminal_ty"] not in t and "buffer::Buffer" not in t and not f["ty"].get("hp"), "S4a", "field:" + f["name"],
                  "parser field `%s: %s` can reference the screen" % (f["name"], t))
    ctx.rule("S4b", "Vt::feed executes exactly the function the parser returned, and only when it returned one")
    direct_step(ctx, w, WD.VT_FEED, feed, execu, "S4b")
    ctx.rule("S4c", "Vt::feed_str is the fold chars -> parser step (filter_map) -> executor (for_each): nothing else touches the terminal per character")
    T = w.terms(WD.VT_FEED_STR)
    sites = E.call_sites(WD.VT_FEED_STR)
    fe = [cs for cs in sites if (cs.decl or "").endswith("Iterator::for_each")]
    # whatever the loop form: the characters are those of the string PARAMETER itself (no per-call trimming,
    # prefix stripping or normalisation - that would make the outcome depend on where the input is cut)
    ch_sites = [cs for cs in sites if cs.callee.endswith("::chars") or cs.callee.endswith("::char_indices")]

    def is_param(t):
        t = WD.strip_names(t)
        while t and t[0] in ("ref", "deref", "copy"):
            t = t[2] if t[0] == "ref" else t[1]
        return t == ("load", ("arg2",))
    for cs in ch_sites:
        src = T.operand(cs.term["args"][0], cs.point)
        ctx.check(is_param(src), "S4c", WD.VT_FEED_STR + ":source", "Vt::feed_str iterates the characters of %s, not of its string argument as given: input adjusted once per call makes the result depend on the chunking" %
                  w.tstr(WD.VT_FEED_STR, src)[:140], loc=w.site_loc(cs), sample={"source": w.tstr(WD.VT_FEED_STR, src)[:140]})
    ctx.check(len(ch_sites) == 1, "S4c", WD.VT_FEED_STR + ":one-source", "Vt::feed_str takes characters from %d place(s); expected exactly one `.chars()` of its argument" % len(ch_sites), loc=w.fn_loc(WD.VT_FEED_STR))
    ok = False
    detail = ""
    via_feed = [cs for cs in sites if cs.callee == WD.VT_FEED]
    if not fe and via_feed and not any(cs.callee in (execu, feed) for cs in sites):
        # `for ch in s.chars() { self.feed(ch) }`: the per-character step IS Vt::feed (checked by S4b)
        ch = WD.strip_names(T.operand(via_feed[0].term["args"][1], via_feed[0].point))
        sc = repr(ch)
        bad = [c.callee for c in sites if c.callee.rsplit("::", 1)[-1] in ("rev", "skip", "take", "filter", "step_by", "skip_while", "take_while", "peekable", "map")]
        okc = len(via_feed) == 1 and "::chars" in sc and "::next" in sc and not bad
        ctx.check(okc, "S4c", WD.VT_FEED_STR + ":via-feed", "Vt::feed_str must pass every character of the input, in order, to Vt::feed (source: %s)" % w.tstr(WD.VT_FEED_STR, ch)[:100], loc=w.fn_loc(WD.VT_FEED_STR),
                  sample={"char_source": w.tstr(WD.VT_FEED_STR, ch)[:100]})
        return
    if not fe and any(cs.callee == execu for cs in sites):
        # explicit loop form: `for ch in s.chars() { if let Some(op) = parser.feed(ch) { terminal.execute(op) } }`
        direct_step(ctx, w, WD.VT_FEED_STR, feed, execu, "S4c")
        fd = [cs for cs in sites if cs.callee == feed]
        okc = False
        if len(fd) == 1:
            ch = WD.strip_names(T.operand(fd[0].term["args"][1], fd[0].point))
            sc = repr(ch)
            okc = "::chars" in sc and "Iterator>::next" in sc.replace("iterator::Iterator", "Iterator>") or ("::chars" in sc and "::next" in sc)
            bad = [c.callee for c in sites if c.callee.rsplit("::", 1)[-1] in ("rev", "skip", "take", "filter", "step_by", "skip_while", "take_while", "peekable", "map")]
            okc = okc and not bad
            detail = w.tstr(WD.VT_FEED_STR, ch)[:120]
        ctx.check(okc, "S4c", WD.VT_FEED_STR + ":chars", "the characters fed to the parser are %s; they must be the characters of the input string, in order, unadapted" % detail, loc=w.fn_loc(WD.VT_FEED_STR),
                  sample={"char_source": detail})
        return
    if len(fe) == 1:
        recv = T.operand(fe[0].term["args"][0], fe[0].point)
        clo = T.operand(fe[0].term["args"][1], fe[0].point)
        detail = w.tstr(WD.VT_FEED_STR, recv)
        if recv[0] == "call" and recv[1].endswith("Iterator::filter_map") and clo[0] == "closure":
            src, c0 = recv[2][0], recv[2][1]
            if src[0] == "call" and src[1].endswith("::chars") and c0[0] == "closure":
                # closure bodies: exactly one local call each
                c0calls = [cs for cs in E.call_sites(c0[1]) if cs.local]
                c1calls = [cs for cs in E.call_sites(clo[1]) if cs.local]
                s0 = src[2][0]
                ok = ([c.callee for c in c0calls] == [feed] and [c.callee for c in c1calls] == [execu]
                      and s0[0] in ("load", "ref"))
                if ok:
                    # the closures pass their item through unchanged
                    t0 = w.terms(c0[1]).operand(c0calls[0].term["args"][1], c0calls[0].point)
                    t1 = w.terms(clo[1]).operand(c1calls[0].term["args"][1], c1calls[0].point)
                    ok = t0 == ("load", ("arg2",)) and t1 == ("load", ("arg2",))
                    # and return the parser's result unchanged
                    cb = w.body(c0[1])
                    rts = [w.terms(c0[1]).local(0, (rb, cb.n_stmts(rb))) for rb in cb.return_blocks()]
                    ok = ok and all(t[0] == "call" and t[1] == feed for t in rts)
    ctx.check(ok, "S4c", WD.VT_FEED_STR,
              "Vt::feed_str is not the recognised fold `s.chars().filter_map(|ch| parser.feed(ch)).for_each(|op| terminal.execute(op))` (receiver of for_each: %s); "
              "the per-character step cannot be shown to execute exactly the parser's results" % detail,
              loc=w.fn_loc(WD.VT_FEED_STR), sample={"for_each_receiver": detail})


def direct_step(ctx, w, fn, feed, execu, rule):
    """In `fn` the executor is called exactly with the payload of the parser
    step's Some(_) result, only under that test, after that parser call."""
    E = w.E
    b = w.body(fn)
    T = w.terms(fn)
    ex_sites = [cs for cs in E.call_sites(fn) if cs.callee == execu]
    fd_sites = [cs for cs in E.call_sites(fn) if cs.callee == feed]
    ctx.check(len(ex_sites) == 1 and len(fd_sites) == 1, rule, fn + ":sites", "%s has %d parser call(s) and %d executor call(s); expected one each" % (fn, len(fd_sites), len(ex_sites)), loc=w.fn_loc(fn))
    if len(ex_sites) != 1 or len(fd_sites) != 1:
        return
    ex, fd = ex_sites[0], fd_sites[0]
    ctx.check(b.every_path_to_return_hits((0, 0), {fd.point}, include_start=True) or any(True for bl in b.normal_blocks() if b.term(bl)["k"] == "call" and (b.term(bl)["callee"].get("decl_name") == "next")),
              rule, fn + ":always-steps", "%s can return without handing its character to the parser: some characters are treated differently depending on the entry point used" % fn, loc=w.fn_loc(fn))
    arg = T.operand(ex.term["args"][1], ex.point)
    s_ = repr(arg)
    ctx.check(feed in s_ and "Some" in s_ and "downcast" in s_, rule, fn + ":argument", "the executor's argument is %s, not the payload of the parser's result" % w.tstr(fn, arg), loc=w.site_loc(ex), sample={"argument": w.tstr(fn, arg)})
    ctx.check(b.point_dominates(fd.point, ex.point), rule, fn + ":order", "the executor call is not dominated by the parser call", loc=w.site_loc(ex))
    guarded = False
    for blk in b.normal_blocks():
        t = b.term(blk)
        if t["k"] != "switch":
            continue
        d = T.operand(t["discr"], (blk, b.n_stmts(blk)))
        if d[0] == "discr" and feed in repr(d):
            for val, tgt in t["targets"]:
                if val == 1 and b.edge_controls((blk, tgt), ex.point[0]):
                    guarded = True
            if not guarded and b.edge_controls((blk, t["otherwise"]), ex.point[0]) and [v for v, _ in t["targets"]] == [0]:
                guarded = True
    ctx.check(guarded, rule, fn + ":guard", "the executor call is not control-dependent on the parser having returned Some(_)", loc=w.site_loc(ex))
    recv_f = WD.strip_names(T.operand(fd.term["args"][0], fd.point))
    recv_e = WD.strip_names(T.operand(ex.term["args"][0], ex.point))
    ctx.check(recv_f[0] == "ref" and recv_e[0] == "ref" and recv_f[2][0] == "load" and recv_e[2][0] == "load" and recv_f[2] != recv_e[2], rule, fn + ":receivers",
              "the parser step and the executor must act on Vt's own parser and terminal", loc=w.site_loc(ex))


def run(ctx, w):
    _run(ctx, w)
    # "inert" also means: no stale state is left behind and nothing panics, however long or oddly shaped the
    # unimplemented sequence is (parameter / sub-parameter counters stay inside their arrays; a clear really clears; the
    # collected intermediate is the last one)
    from rules import c03, c01
    shared_embed = __import__("rules.shared", fromlist=["x"]).embed
    shared_embed(ctx, w, lambda c, ww: c03.run_t7(c, ww, tables.parser_tables(ww)))
    shared_embed(ctx, w, lambda c, ww: c03.capacity(c, ww, tables.parser_tables(ww)))
    shared_embed(ctx, w, lambda c, ww: c01.index_fields(c, ww, c01.api_reach(ww)))
