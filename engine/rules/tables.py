"""A1: decision-table extraction for the parser (shared by C03, C11, C19, C20).

The tables are computed from the HIR of the function the public API feeds
characters to (derived anchor `parser_feed`) and of the functions it tail-calls
(the dispatchers).  For every state and every atom of the character partition
(an interval on which every literal comparison in the source has a constant
outcome) the first matching arm is determined with Rust's pattern semantics,
and the arm body is abstracted to (next state, bookkeeping actions, result).
No character is fed to anything: this is the table the compiler itself derives
from the patterns.
"""
import hir as H
import mir as M
import world as WD

SOME = H.SOME
NONE = H.NONE
CHAR_MAX = 0x110000


def is_sym(v):
    return isinstance(v, tuple) and len(v) >= 1 and v[0] == "sym"


def has_sym(v):
    if is_sym(v):
        return True
    if isinstance(v, tuple):
        return any(has_sym(x) for x in v)
    return False


class Outcome:
    __slots__ = ("next_state", "actions", "result", "arm", "loc", "arm_line", "tails", "tail_args")

    def __init__(self):
        self.next_state = None     # variant name or None (unchanged)
        self.actions = []          # bookkeeping classes: clear / collect / param / noop
        self.result = None         # None | ("v", Function::X, args) | symbolic
        self.arm = None
        self.loc = None
        self.arm_line = None
        self.tails = []            # dispatcher functions tail-called, in order
        self.tail_args = []

    def key(self):
        return (self.next_state, tuple(self.actions), repr(self.result))


class Return(Exception):
    def __init__(self, value):
        self.value = value


class ParserTables:
    def __init__(self, w):
        self.w = w
        F = w.facts
        self.feed_fn = w.anchors["parser_feed"]
        self.parser_ty = w.anchors["parser_ty"]
        self.states = F.enum_variants(WD.STATE)
        if not self.states:
            raise WD.AnchorError("enum %s not found" % WD.STATE)
        # parser fields by type
        pf = F.struct_fields(self.parser_ty) or []
        self.f_state = [f["name"] for f in pf if f["ty"].get("adt") == WD.STATE]
        self.f_inter = [f["name"] for f in pf if f["ty"]["s"] == "core::option::Option<char>"]
        self.f_params = [f["name"] for f in pf if "array" in f["ty"]]
        self.f_cur = [f["name"] for f in pf if f["ty"]["s"] == "usize"]
        for nm, lst in (("state", self.f_state), ("intermediate", self.f_inter), ("params", self.f_params), ("cur_param", self.f_cur)):
            if len(lst) != 1:
                raise WD.AnchorError("cannot identify the parser's %s field by type (candidates: %s)" % (nm, lst))
        self.f_state, self.f_inter, self.f_params, self.f_cur = self.f_state[0], self.f_inter[0], self.f_params[0], self.f_cur[0]
        self.param_ty = F.struct_fields(self.parser_ty)[[f["name"] for f in pf].index(self.f_params)]["ty"]["array"].get("adt")
        self._cells = {}
        self._atoms = None
        self._fn_atoms = {}
        self.evaluations = 0

    # ---- partition ---------------------------------------------------------
    def atoms_for(self, fn):
        if fn not in self._fn_atoms:
            lits = set()
            seen = set()
            st = [fn]
            while st:
                f = st.pop()
                if f in seen or f not in self.w.facts.hir:
                    continue
                seen.add(f)
                body = self.w.facts.hir[f]["body"]
                H.expr_literals(body, lits)
                for n in H.walk(body):
                    if n.get("p"):
                        H.pat_literals(n, lits)
                    if H.is_k(n, "mcall") and n.get("callee_local"):
                        fo = self.w.facts.fns.get(n["callee"], {})
                        if "parser::Function" in (fo.get("output") or {}).get("s", ""):
                            st.append(n["callee"])
            # offsets used by folds (input + 0x40): refine by shifting boundaries
            extra = set()
            for b in list(lits):
                for d in (0x40, -0x40):
                    extra.add(b + d)
            lits |= extra | {0xD800, 0xE000}
            atoms = [a for a in H.partition(lits, 0, CHAR_MAX) if not (0xD800 <= a[0] < 0xE000)]
            self._fn_atoms[fn] = atoms
        return self._fn_atoms[fn]

    @property
    def atoms(self):
        return self.atoms_for(self.feed_fn)

    def atom_of(self, ch):
        for a in self.atoms:
            if a[0] <= ch < a[1]:
                return a
        raise H.Unsupported("no atom for U+%04X" % ch)

    # ---- action classification by write set -----------------------------------
    def classify_action(self, callee):
        s = self.w.E.summaries.get(callee)
        if s is None:
            raise H.Unsupported("bookkeeping callee %s has no summary" % callee)
        fields = {p[1] for p in s.W if p[0] == "arg1" and len(p) >= 2}
        if not s.W:
            return "noop"
        if fields == {self.f_inter}:
            return "collect"
        if {self.f_inter, self.f_cur} <= fields and self.f_state not in fields:
            return "clear"
        if fields and fields <= {self.f_params, self.f_cur}:
            return "param"
        return "other:" + ",".join(sorted(fields))

    # ---- symbolic evaluation ------------------------------------------------------
    def ev(self, e, env, out):
        e = H.unwrap(e)
        k = e["k"]
        if k == "lit":
            return H.lit_value(e)
        if k == "path":
            if e.get("res") == "local":
                if e["name"] not in env:
                    raise H.Unsupported("unbound local %s" % e["name"])
                return env[e["name"]]
            if e.get("res") == "def":
                dk = e.get("dk", "")
                if dk.startswith("Ctor") or dk in ("Variant",):
                    return ("v", e["path"])
                if dk == "Fn":
                    return ("fn", e["path"])
                if dk.startswith("Const"):
                    c = self.w.facts.const_int(e["path"])
                    if c is None:
                        raise H.Unsupported("constant %s" % e["path"])
                    return c
                return ("v", e["path"])
            raise H.Unsupported("path res %r" % e.get("res"))
        if k == "ref":
            return self.ev(e["e"], env, out)
        if k == "unary":
            v = self.ev(e["e"], env, out)
            if e["op"] == "*":
                return v
            if e["op"] == "!" and isinstance(v, bool):
                return not v
            raise H.Unsupported("unary %s" % e["op"])
        if k == "field":
            sf = H.self_field(e)
            if sf is not None and len(sf) == 1:
                nm = sf[0]
                if ("self", nm) in env:
                    return env[("self", nm)]
                if nm == self.f_params:
                    return ("sym", ("params",))
                if nm == self.f_cur:
                    return ("sym", ("cur_param",))
                raise H.Unsupported("read of self.%s" % nm)
            base = self.ev(e["base"], env, out)
            if isinstance(base, tuple) and base[0] == "t":
                return base[1][int(e["name"])]
            raise H.Unsupported("field %s" % e["name"])
        if k == "tuple":
            return ("t", tuple(self.ev(x, env, out) for x in e["elems"]))
        if k == "cast":
            v = self.ev(e["e"], env, out)
            if has_sym(v):
                return ("sym", ("cast", v, e.get("ty")))
            return H.eval_expr({"k": "cast", "e": {"k": "lit", "t": "int", "v": int(v)}, "ty": e.get("ty")}, {})
        if k == "binary":
            op = e["op"]
            if op in ("&&", "||"):
                a = self.ev(e["l"], env, out)
                if has_sym(a):
                    raise H.Unsupported("symbolic operand of %s" % op)
                if op == "&&" and not a:
                    return False
                if op == "||" and a:
                    return True
                b = self.ev(e["r"], env, out)
                if has_sym(b):
                    raise H.Unsupported("symbolic operand of %s" % op)
                return bool(b)
            a = self.ev(e["l"], env, out)
            b = self.ev(e["r"], env, out)
            if has_sym(a) or has_sym(b):
                if op == "==" and is_sym(a) and isinstance(b, int):
                    return ("sym", ("eq", a, b))
                raise H.Unsupported("symbolic operands of %s" % op)
            return H.eval_expr({"k": "binary", "op": op, "ty": e.get("ty"),
                                "l": self._lit(a), "r": self._lit(b)}, {})
        if k == "struct":
            p = e["path"].get("path", "")
            flds = {x["name"]: self.ev(x["e"], env, out) for x in e["fields"]}
            if p == "core::ops::range::RangeToInclusive":
                return ("rangeto_incl", flds.get("end"))
            if p.startswith("core::ops::range::Range"):
                return ("range", flds.get("start"), flds.get("end"), False)
            if p in self.w.facts.adts:
                return ("struct", p, tuple(sorted(flds.items())))
            raise H.Unsupported("struct %s" % p)
        if k == "index":
            base = self.ev(e["base"], env, out)
            idx = self.ev(e["idx"], env, out)
            if base == ("sym", ("params",)):
                if isinstance(idx, int):
                    return ("sym", ("param_obj", idx))
                if idx == ("rangeto_incl", ("sym", ("cur_param",))):
                    return ("sym", ("params_upto_cur",))
            raise H.Unsupported("index %r[%r]" % (base, idx))
        if k == "call":
            f = H.unwrap(e["f"])
            fp = H.path_of(f)
            if fp is None:
                raise H.Unsupported("indirect call")
            if fp.startswith("core::ops::range::RangeInclusive") and fp.endswith("::new"):
                a, b = [self.ev(x, env, out) for x in e["args"]]
                return ("range", a, b, True)
            dk = f.get("dk", "")
            if dk.startswith("Ctor"):
                return ("v", f.get("ctor_of", fp), tuple(self.ev(x, env, out) for x in e["args"]))
            raise H.Unsupported("call %s" % fp)
        if k == "mcall":
            callee = e.get("callee", "")
            name = e["name"]
            if callee.startswith("core::ops::range::") and name == "contains":
                r = self.ev(e["recv"], env, out)
                x = self.ev(e["args"][0], env, out)
                if has_sym(x) or has_sym(r):
                    raise H.Unsupported("symbolic contains")
                lo, hi, incl = r[1], r[2], r[3]
                if lo is not None and x < lo:
                    return False
                if hi is not None:
                    return x <= hi if incl else x < hi
                return True
            if e.get("callee_local"):
                recv = self.ev(e["recv"], env, out)
                fo = self.w.facts.fns.get(callee, {})
                outty = (fo.get("output") or {}).get("s", "")
                if is_sym(recv) and recv[1][0] == "param_obj" and outty == "u16" and not e["args"]:
                    return ("sym", ("param", recv[1][1], callee))
                if recv == ("self",):
                    args = [self.ev(a, env, out) for a in e["args"]]
                    if "parser::Function" in outty:
                        out.tails.append(callee)
                        out.tail_args.append(tuple(args))
                        return self.run_fn(callee, args, env, out)
                    # bookkeeping action
                    out.actions.append(self.classify_action(callee))
                    return ("t", ())
                raise H.Unsupported("local method %s on %r" % (callee, recv))
            # iterator chains over the parameter slice
            if name == "iter" and callee.startswith("core::slice::"):
                recv = self.ev(e["recv"], env, out)
                if recv == ("sym", ("params_upto_cur",)):
                    return ("sym", ("iter", "params_upto_cur"))
                raise H.Unsupported("iter over %r" % (recv,))
            if name == "filter_map" and callee == "core::iter::traits::iterator::Iterator::filter_map":
                recv = self.ev(e["recv"], env, out)
                f = self.ev(e["args"][0], env, out)
                if recv == ("sym", ("iter", "params_upto_cur")) and isinstance(f, tuple) and f[0] == "fn":
                    return ("sym", ("filter_map", f[1]))
                raise H.Unsupported("filter_map over %r with %r" % (recv, f))
            if name == "collect" and callee == "core::iter::traits::iterator::Iterator::collect":
                recv = self.ev(e["recv"], env, out)
                if is_sym(recv) and recv[1][0] == "filter_map":
                    return ("sym", ("modes", recv[1][1]))
                if isinstance(recv, tuple) and recv[0] == "struct":
                    flds = dict(recv[2])
                    if list(flds.values()) == [("sym", ("params_upto_cur",))]:
                        return ("sym", ("collect", recv[1]))
                raise H.Unsupported("collect over %r" % (recv,))
            raise H.Unsupported("method %s" % (callee or name))
        if k == "if":
            c = self.ev(e["cond"], env, out)
            if is_sym(c) and c[1][0] == "eq":
                a = self.ev_block(e["then"], dict(env), out)
                b = self.ev_block(e["else"], dict(env), out) if "else" in e else ("t", ())
                return ("sym", ("switch", c[1][1], ((c[1][2], a),), b))
            if has_sym(c):
                raise H.Unsupported("symbolic if condition")
            if c:
                return self.ev_block(e["then"], env, out)
            if "else" in e:
                return self.ev_block(e["else"], env, out)
            return ("t", ())
        if k == "match":
            v = self.ev(e["scrut"], env, out)
            if is_sym(v):
                # match on a parameter value: literal arms + default
                cases = []
                default = None
                for arm in e["arms"]:
                    p = arm["pat"]
                    if "guard" in arm:
                        raise H.Unsupported("guard in match on a symbolic value")
                    if p["p"] == "expr" and p["e"].get("k") == "lit":
                        cases.append((H.lit_value(p["e"]), self.ev_block(arm["body"], dict(env), out)))
                    elif p["p"] == "wild":
                        default = self.ev_block(arm["body"], dict(env), out)
                        break
                    else:
                        raise H.Unsupported("pattern %s in match on a symbolic value" % p["p"])
                return ("sym", ("switch", v, tuple(cases), default))
            if has_sym(v):
                raise H.Unsupported("partially symbolic scrutinee")
            i, arm, e2 = H.first_arm(e, v, env)
            if arm is None:
                raise H.Unsupported("no arm matches %r" % (v,))
            if out.arm is None:
                out.arm = i
                out.arm_line = arm.get("line")
            return self.ev_block(arm["body"], e2, out)
        if k == "block":
            return self.ev_block(e, env, out)
        if k == "return":
            raise Return(self.ev(e["e"], env, out) if "e" in e else ("t", ()))
        if k == "assign":
            sf = H.self_field(e["l"])
            if sf == (self.f_state,):
                v = self.ev(e["r"], env, out)
                if not (isinstance(v, tuple) and v[0] == "v" and v[1].startswith(WD.STATE + "::")):
                    raise H.Unsupported("state assigned a non-constant")
                out.next_state = v[1].rsplit("::", 1)[1]
                env[("self", self.f_state)] = v
                return ("t", ())
            raise H.Unsupported("assignment to %r" % (sf,))
        raise H.Unsupported("expression kind %s" % k)

    @staticmethod
    def _lit(v):
        if isinstance(v, bool):
            return {"k": "lit", "t": "bool", "v": v}
        if isinstance(v, int):
            return {"k": "lit", "t": "int", "v": v}
        return {"k": "path", "res": "local", "name": "__v"} if False else {"k": "lit", "t": "int", "v": v}

    def ev_block(self, b, env, out):
        b = b if H.is_k(b, "block") else {"k": "block", "stmts": [], "expr": b}
        for s in b.get("stmts", []):
            k = s["k"]
            if k == "item":
                continue
            if k == "let":
                if s["pat"]["p"] != "bind":
                    raise H.Unsupported("let with pattern %s" % s["pat"]["p"])
                env[s["pat"]["name"]] = self.ev(s["init"], env, out)
            else:
                self.ev(s["e"], env, out)
        if "expr" in b:
            return self.ev(b["expr"], env, out)
        return ("t", ())

    def run_fn(self, fn, args, caller_env, out):
        h = self.w.facts.hir.get(fn)
        if h is None:
            raise H.Unsupported("no HIR for %s" % fn)
        env = {k: v for k, v in caller_env.items() if isinstance(k, tuple)}
        params = h["params"]
        # params[0] is self
        names = []
        for p in params:
            if p["p"] != "bind":
                raise H.Unsupported("parameter pattern %s in %s" % (p["p"], fn))
            names.append(p["name"])
        if not names or names[0] != "self":
            raise H.Unsupported("%s is not a method" % fn)
        env["self"] = ("self",)
        if len(names) - 1 != len(args):
            raise H.Unsupported("arity mismatch calling %s" % fn)
        for n, v in zip(names[1:], args):
            env[n] = v
        try:
            r = self.ev_block(h["body"], env, out)
        except Return as ret:
            r = ret.value
        # state writes in the callee are visible to the caller
        for k, v in env.items():
            if isinstance(k, tuple):
                caller_env[k] = v
        return r

    # ---- public: one cell ---------------------------------------------------------------
    def step(self, state, ch, intermediate=NONE):
        """Outcome of feeding code point `ch` in `state` with the given
        collected intermediate (NONE or an int)."""
        self.evaluations += 1
        out = Outcome()
        env = {
            ("self", self.f_state): ("v", WD.STATE + "::" + state),
            ("self", self.f_inter): ("v", NONE) if intermediate == NONE else ("v", SOME, (intermediate,)),
        }
        r = self.run_fn(self.feed_fn, [ch], env, out)
        out.result = self.norm_result(r)
        return out

    def norm_result(self, r):
        if r == ("v", NONE):
            return None
        if isinstance(r, tuple) and r[0] == "v" and r[1] == SOME:
            return r[2][0]
        if is_sym(r) and r[1][0] == "switch":
            _, scrut, cases, default = r[1]
            return ("switch", scrut, tuple((c, self.norm_result(v)) for c, v in cases), self.norm_result(default))
        raise H.Unsupported("parser step returns %r" % (r,))

    def cell(self, state, ch):
        """Transition cell for (state, ch) with no intermediate collected:
        next state, actions, and whether the arm returns something."""
        a = self.atom_of(ch)
        key = (state, a)
        if key not in self._cells:
            lo = self.step(state, a[0])
            hi = self.step(state, a[1] - 1)
            if lo.next_state != hi.next_state or lo.actions != hi.actions or lo.arm != hi.arm or lo.tails[:1] != hi.tails[:1]:
                raise H.Unsupported("atom U+%04X..U+%04X of state %s is not uniform" % (a[0], a[1] - 1, state))
            c = CellView(state, a, lo, self)
            self._cells[key] = c
        return self._cells[key]

    def dispatch_result(self, cell, ch, intermediate=None):
        out = self.step(cell.state, ch, NONE if intermediate is None else intermediate)
        return describe(out.result)


class CellView:
    def __init__(self, state, atom, out, tb):
        self.state = state
        self.atom = atom
        self.next_state = out.next_state or state
        self.changed_state = out.next_state is not None
        self.actions = list(out.actions)
        self.result = out.result
        self.arm = out.arm
        self.tails = list(out.tails)
        self.tail_args = list(out.tail_args)
        f = tb.w.facts.fns.get(tb.feed_fn, {})
        self.loc = "%s:%s" % (tb.w.facts.rel(f.get("loc", {}).get("file", "")), out.arm_line)

    def kind(self):
        """ignore / print / execute-or-dispatch (returns a function) + bookkeeping"""
        if self.result is not None:
            if isinstance(self.result, tuple) and self.result[0] == "v" and self.result[1] == WD.FUNCTION + "::Print":
                return "print"
            return "function"
        return "none"


def describe(r):
    """Symbolic function value -> plain python description.
       ("Cup", ("param",0), ("param",1)) / ("Ed", "EdScope::Below") / None /
       ("switch", ("param",0), {0: ..., }, default)"""
    if r is None:
        return None
    if isinstance(r, tuple) and r[0] == "switch":
        _, scrut, cases, default = r
        return ("switch", describe(scrut), {c: describe(v) for c, v in cases}, describe(default))
    if isinstance(r, tuple) and r[0] == "v":
        name = r[1]
        short = name.split("parser::", 1)[1] if name.startswith("parser::") else name
        if short.startswith("Function::"):
            short = short[len("Function::"):]
        args = tuple(describe(a) for a in (r[2] if len(r) > 2 else ()))
        return (short,) + args
    if is_sym(r):
        s = r[1]
        if s[0] == "param":
            return ("param", s[1])
        if s[0] == "modes":
            return ("modes", s[1])
        if s[0] == "collect":
            return ("collect", s[1])
        if s[0] == "switch":
            return ("switch", describe(s[1]), {c: describe(v) for c, v in s[2]}, describe(s[3]))
        return ("sym",) + tuple(str(x) for x in s)
    if isinstance(r, int):
        return ("char", r)
    return r


_CACHE = {}


def parser_tables(w):
    if id(w) not in _CACHE:
        _CACHE[id(w)] = ParserTables(w)
    return _CACHE[id(w)]


def mode_table(w, fn):
    """u16 -> variant for a `fn(&Param) -> Option<Mode>` built as a match on
    the parameter's first value with integer literal arms."""
    h = w.hir(fn)
    ms = H.find(h["body"], lambda n: H.is_k(n, "match"))
    if len(ms) != 1:
        raise H.Unsupported("mode function %s: expected exactly one match" % fn)
    m = ms[0]
    table = {}
    default = "missing"
    for arm in m["arms"]:
        pats = [arm["pat"]] if arm["pat"]["p"] != "or" else arm["pat"]["pats"]
        body = H.unwrap(arm["body"])
        if "guard" in arm:
            raise H.Unsupported("guard in %s" % fn)
        if H.is_k(body, "call") and H.path_of(body["f"]) == SOME:
            v = H.path_of(body["args"][0])
            val = v.rsplit("::", 1)[1] if v else None
        elif H.path_of(body) == NONE:
            val = None
        else:
            raise H.Unsupported("arm body in %s" % fn)
        for p in pats:
            if p["p"] == "expr" and p["e"].get("k") == "lit":
                table.setdefault(H.lit_value(p["e"]), val)
            elif p["p"] == "wild":
                if default == "missing":
                    default = val
            else:
                raise H.Unsupported("pattern %s in %s" % (p["p"], fn))
    return table, default
