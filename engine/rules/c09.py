"""C09 - logical text is reproduced exactly, whatever the width (the soft-wrap
bookkeeping the guarantee rests on)."""
import hir as H
import mir as M
import world as WD
from rules import shared


def contains_call(t, suffix):
    if isinstance(t, tuple):
        if t and t[0] == "call" and t[1].endswith(suffix):
            return True
        return any(contains_call(x, suffix) for x in t if isinstance(x, tuple))
    return False


def contains(t, sub):
    if t == sub:
        return True
    if isinstance(t, tuple):
        return any(contains(x, sub) for x in t if isinstance(x, tuple))
    return False


def is_wrap_cond(c, S):
    return (c[0] == "load" and c[1][-1] == S.wrap_field) or (c[0] == "field" and c[2] == S.wrap_field)


def run(ctx, w):
    S = shared.screen(w)
    R = shared.roles(w)
    E = w.E
    ctx.explanation = ("The round trip itself (a relation between unbounded texts) is out of reach; decided are the pieces of soft-wrap bookkeeping it rests on: the mark is set exactly "
                       "when a character wraps, both readers join rows while the mark is set and trim only the end of a logical line, scrolling keeps / clears the marks of the "
                       "rows adjacent to the range correctly, and rows that scrolled off are never touched again.")
    ctx.decided = ["Y3 the wrap mark is set only when auto-wrap really moves the cursor off the row", "T1 Buffer::text joins rows untrimmed while wrapped and trims the END of the accumulated logical line only",
                   "T2 TextUnwrapper::push does the same and decides on the wrap mark alone", "T3 Line::text yields every cell's character, in order",
                   "W8 scrolling clears the wrap mark of the row above an inner range and of the range's last row only when the range stops above the last row; scroll-down clears both neighbours",
                   "W9/D4 a whole-view scroll appends and touches no existing row; rows above the view are never addressed by handlers"]
    ctx.not_decided = ["the text round trip itself; 'same text at every width' (a relation between executions)"]
    from rules import c04, c14, c12, c06
    c04.print_rules(ctx, w, S, R)
    text_rules(ctx, w, S, R)
    c14.unwrapper_rules(ctx, w, rule="T2")
    continuity_rules(ctx, w, S, R)
    T = c14.Trim(w, S, R)
    if T.ok:
        c14.view_rules(ctx, w, S, R, T)
    up, down = c06.scroll_prims(w, S)
    c12.c06_w9(ctx, w, S, up)
    # lines leave the screen through the line feed -> region helper -> scroll primitive chain: each link on every path
    from rules import prims
    c06.scroll_helpers_total(ctx, w, S, R, up, down, "T8")
    c06.linefeed_rule(ctx, w, S, R, up)
    prims.scroll_primitives(ctx, w, S, "T9")
    ctx.floor("T9", 500, "scroll primitive evaluations")
    # Vt::text() is the primary buffer's text, handed through unaltered (no cut-off, no post-processing)
    ctx.rule("T11", "Vt::text() returns the text routine's result for the primary buffer unchanged: nothing between the buffer and the caller filters, cuts or re-trims the lines")
    api = "vt::Vt::text"
    if api in w.bodies:
        chain = [api]
        for _ in range(3):
            f = chain[-1]
            nxt = [cs.callee for cs in E.call_sites(f) if cs.local and (w.facts.fns.get(cs.callee, {}).get("output") or {}).get("s") == "alloc::vec::Vec<alloc::string::String>"]
            if len(nxt) != 1:
                break
            chain.append(nxt[0])
        for f in chain[:-1]:
            fb = w.body(f)
            FT = w.terms(f)
            rts = [WD.strip_names(FT.local(0, (rb, fb.n_stmts(rb)))) for rb in fb.return_blocks()]
            nxt = chain[chain.index(f) + 1]
            okt = bool(rts) and all(t[0] == "call" and t[1] == nxt for t in rts) and len(fb.return_blocks()) == 1
            ctx.check(okt, "T11", f, "%s does not simply return %s(..): %s" % (f, nxt, [w.tstr(f, t)[:80] for t in rts]), loc=w.fn_loc(f), sample={"fn": f, "returns": [w.tstr(f, t)[:60] for t in rts]})
        ctx.check(len(chain) >= 3 and S._impl_of(chain[-1]) == S.buffer_ty, "T11", "chain", "Vt::text() does not reach the buffer's text routine through plain delegation (%s)" % chain, loc=w.fn_loc(api))
    else:
        ctx.missing_anchor("T11", api)
    # "however much has scrolled into an unlimited scrollback": no limit means nothing is ever removed
    if T.ok:
        shared.gc_verdict(ctx, w, S, T, "T10")
    # every printable character and CR / LF reaches its handler (Ground row of the transition table)
    from rules import c03, tables
    c03.run_transition(ctx, w, tables.parser_tables(w), only_states=["Ground"], rule="T0")
    ctx.floor("T0", 20, "Ground-state cells")


def text_semantics(w, S, fn, thorough=False):
    """Buffer::text evaluated on concrete small buffers: 1..3 rows (4 in the thorough tier) of width 3, every row one of
    "abc", "a  ", " b ", "   ", every pattern of soft-wrap marks with the last row unmarked (the invariant of C02), with and
    without scrollback rows above: the result is, for each maximal run of marked rows closed by an unmarked one, the rows'
    texts joined and trimmed at the end only.  -> (True, n) | (False, what)"""
    import itertools
    from rules import prims, c11
    PEN = ("sym", "PEN")
    alphabet = ("abc", "a  ", " b ", "   ")
    n = 0

    def line(txt, wrapped):
        return ("obj", S.line_ty, {S.cells_field: prims.Vec([("v", "cell::Cell", (("chr", ord(c)), PEN)) for c in txt]), S.wrap_field: wrapped})
    for rows in range(1, 5 if thorough else 4):
        for texts in itertools.product(alphabet, repeat=rows):
            for marks in itertools.product((False, True), repeat=rows - 1):
                marks = list(marks) + [False]
                bf = {f["name"]: (0 if f["ty"]["s"] == "usize" else False if f["ty"]["s"] == "bool" else H.NONE_V) for f in w.facts.struct_fields(S.buffer_ty)}
                bf.update({S.lines_field: prims.Vec([line(t, m) for t, m in zip(texts, marks)]), S.buf_cols: 3, S.buf_rows: min(rows, 2)})
                try:
                    r = c11.StrInterp(w.facts).call_fn(fn, [("obj", S.buffer_ty, bf)])
                    got = [x[1] for x in r.items] if isinstance(r, prims.Vec) and all(isinstance(x, tuple) and x[0] == "str" for x in r.items) else repr(r)
                except prims.errs() as ex:
                    return False, "cannot evaluate %s: %s" % (fn, ex)
                want, cur = [], ""
                for t, m in zip(texts, marks):
                    cur += t
                    if not m:
                        want.append(cur.rstrip(" "))
                        cur = ""
                n += 1
                if got != want:
                    return False, "rows %s with soft-wrap marks %s give text() = %s, expected %s" % (list(texts), marks, got, want)
    return True, n


def text_rules(ctx, w, S, R):
    E = w.E
    fn0 = None
    for cs in E.call_sites("vt::Vt::text"):
        if cs.local:
            for c2 in E.call_sites(cs.callee):
                if c2.local and S._impl_of(c2.callee) == S.buffer_ty:
                    fn0 = c2.callee
    ctx.rule("T12", "Buffer::text evaluated on concrete buffers (1..3 rows of width 3 over four row contents incl. blank and space-padded rows, every soft-wrap pattern): marked rows are joined in full, "
                    "each logical line is trimmed at its end only, empty lines are kept")
    sem_ok = False
    if fn0:
        okt, info = text_semantics(w, S, fn0, thorough=getattr(ctx, "tier", "") == "thorough")
        ctx.check(okt, "T12", "text", str(info), loc=w.fn_loc(fn0), sample={"cases": info})
        if okt:
            ctx.rule_counts["T12"] = info
            sem_ok = True
    ctx = shared.Deferred(ctx, {"T1"}, sem_ok)          # the accumulate / emit shape of the same clause
    ctx.rule("T1", "Buffer::text: append each row's full text; when the row is not soft-wrapped emit trim_end(accumulated) and reset; flush a trailing partial line")
    fn = None
    for cs in E.call_sites("vt::Vt::text"):
        if cs.local:
            for c2 in E.call_sites(cs.callee):
                if c2.local and S._impl_of(c2.callee) == S.buffer_ty:
                    fn = c2.callee
    if not fn:
        ctx.missing_anchor("T1", "Buffer::text (via Vt::text)")
        return
    b = w.body(fn)
    T = w.terms(fn)
    # the accumulator: the String local that receives push_str
    pushes = [cs for cs in E.call_sites(fn) if cs.term["callee"].get("decl_name") == "push_str"]
    emits = [cs for cs in E.call_sites(fn) if cs.term["callee"].get("decl_name") == "push" and "Vec" in cs.callee]
    ok = len(pushes) >= 1 and len(emits) >= 1
    ctx.check(ok, "T1", "shape", "%s has %d append(s) and %d emission(s); expected at least one of each" % (fn, len(pushes), len(emits)), loc=w.fn_loc(fn), sample={"fn": fn, "appends": len(pushes), "emissions": len(emits)})
    if not ok:
        return
    acc_local = pushes[0].term["args"][0]
    acc_t = T.operand(acc_local, pushes[0].point)      # ("ref", True, ("obj", String::new())) or similar
    # the iteration covers all lines in order
    it = [cs for cs in E.call_sites(fn) if cs.term["callee"].get("decl_name") == "into_iter" or cs.term["callee"].get("decl_name") == "iter"]
    okit = False
    for cs in it:
        a = WD.strip_names(T.operand(cs.term["args"][0], cs.point))
        if a == ("ref", False, ("load", ("arg1", S.lines_field))):
            okit = True
    bad_ad = [cs.callee for cs in E.call_sites(fn) if cs.callee.rsplit("::", 1)[-1] in ("rev", "skip", "take", "filter", "step_by", "skip_while", "take_while")]
    ctx.check(okit and not bad_ad, "T1", "all-lines", "%s must visit every line of the buffer in order (adaptors found: %s)" % (fn, bad_ad), loc=w.fn_loc(fn), sample={"iterates": "lines", "adaptors": bad_ad})
    for cs in pushes:
        a = WD.strip_names(T.operand(cs.term["args"][1], cs.point))
        full = contains_call(a, "::Line::text") and not contains_call(a, "::trim_end") and not contains_call(a, "::trim")
        gs = [(WD.strip_names(c), v) for c, v in w.guards_of(fn, cs.point[0]) if c[0] != "discr"]
        ctx.check(full and not gs, "T1", "append:" + shared.site_key(w, fn, cs.point),
                  "%s appends %s under guards %s; each row's FULL text must be appended unconditionally (blanks inside a wrapped logical line are content)" % (fn, w.tstr(fn, a), [(w.tstr(fn, c), v) for c, v in gs]),
                  loc=w.site_loc(cs), sample={"appended": w.tstr(fn, a)})
    in_loop = 0
    for cs in emits:
        a = T.operand(cs.term["args"][1], cs.point)
        s = WD.strip_names(a)
        trimmed_acc = contains_call(s, "::trim_end") and contains(T.operand(cs.term["args"][1], cs.point), acc_t[2] if acc_t[0] == "ref" else acc_t)
        gs = [(WD.strip_names(c), v) for c, v in w.guards_of(fn, cs.point[0]) if c[0] != "discr"]
        wrapped_guard = [v for c, v in gs if is_wrap_cond(c, S)]
        if wrapped_guard:
            in_loop += 1
            okg = wrapped_guard == [False] and len(gs) == 1
            ctx.check(okg and trimmed_acc, "T1", "emit:" + shared.site_key(w, fn, cs.point),
                      "%s emits %s under %s; a logical line must be emitted exactly when the row is NOT soft-wrapped, as trim_end of everything accumulated" % (fn, w.tstr(fn, s), [(w.tstr(fn, c), v) for c, v in gs]),
                      loc=w.site_loc(cs), sample={"emitted": w.tstr(fn, s), "guards": [(w.tstr(fn, c), v) for c, v in gs]})
            # reset of the accumulator follows
            clears = {c2.point for c2 in E.call_sites(fn) if c2.term["callee"].get("decl_name") in ("clear", "take", "replace")}
            ctx.check(any(b.point_dominates(cs.point, p) and b.edge_guard_same(cs.point, p) if hasattr(b, "edge_guard_same") else b.point_dominates(cs.point, p) for p in clears) or contains_call(s, "mem::take"),
                      "T1", "reset:" + shared.site_key(w, fn, cs.point), "%s does not reset the accumulator after emitting a logical line" % fn, loc=w.site_loc(cs))
        else:
            # trailing flush
            ctx.check(trimmed_acc, "T1", "flush:" + shared.site_key(w, fn, cs.point), "%s flushes %s; expected trim_end of the accumulated text" % (fn, w.tstr(fn, s)), loc=w.site_loc(cs), sample={"flushed": w.tstr(fn, s)})
    ctx.check(in_loop == 1, "T1", "one-emission", "%s has %d emission(s) depending on the wrap mark, expected exactly one" % (fn, in_loop), loc=w.fn_loc(fn))
    # no other condition on row content
    conds = []
    for bl in sorted(b.normal_blocks()):
        t = b.term(bl)
        if t["k"] == "switch":
            c = WD.strip_names(T.operand(t["discr"], (bl, b.n_stmts(bl))))
            if c[0] != "discr" and not is_wrap_cond(c, S) and not contains_call(c, "::is_empty") and not (c[0] == "local"):
                conds.append(c)
    ctx.check(not conds, "T1", "conditions", "%s branches on %s; only the wrap mark (and the final is_empty) may decide where logical lines end" % (fn, [w.tstr(fn, c) for c in conds]), loc=w.fn_loc(fn))
    ctx.floor("T1", 6, "Buffer::text obligations")

    ctx.rule("T3", "Line::text / Line::chars yield every cell's character in order")
    lt = "line::Line::text"
    lc = "line::Line::chars"
    for f2 in (lt, lc):
        if f2 not in w.bodies:
            ctx.missing_anchor("T3", f2)
            continue
        TT = w.terms(f2)
        bb = w.body(f2)
        rts = [WD.strip_names(TT.local(0, (rb, bb.n_stmts(rb)))) for rb in bb.return_blocks()]
        t = rts[0]
        if f2 == lt:
            ok = t[0] == "call" and t[1].endswith("Iterator::collect") and t[2][0][0] == "call" and t[2][0][1] == lc
        else:
            ok = t[0] == "call" and t[1].endswith("Iterator::map") and contains_call(t[2][0], "::iter") and contains(t, ("load", ("arg1", S.cells_field))) and "cell::Cell::char" in repr(t[2][1])
        bad = [cs.callee for cs in E.call_sites(f2) if cs.callee.rsplit("::", 1)[-1] in ("rev", "skip", "take", "filter", "step_by", "skip_while", "take_while", "filter_map")]
        ctx.check(ok and not bad, "T3", f2, "%s computes %s" % (f2, w.tstr(f2, t)), loc=w.fn_loc(f2), sample={"fn": f2, "term": w.tstr(f2, t)})


def continuity_rules(ctx, w, S, R):
    """W8: wrap marks of rows adjacent to a scrolled range."""
    E = w.E
    from rules import c06
    up, down = c06.scroll_prims(w, S)
    from rules import prims as _pr
    ctx = shared.Deferred(ctx, {"W8"}, _pr.scroll_ok(w, S))       # the scroll-primitive specification (T9) decides the marks semantically
    ctx.rule("W8", "scroll-up clears the wrap mark of range.end-1 exactly when the range stops above the last row, and of range.start-1 only for inner ranges; scroll-down clears range.end-1 always and range.start-1 when it exists")
    for prim, kind in ((up, "up"), (down, "down")):
        b = w.body(prim)
        T = w.terms(prim)
        fo = w.facts.fns[prim]
        ri = [i for i, t in enumerate(fo["inputs"]) if t["s"] == "core::ops::range::Range<usize>"][0] + 1
        start_t, end_t = ("load", ("arg%d" % ri, "start")), ("load", ("arg%d" % ri, "end"))
        rows_t = ("load", ("arg1", S.buf_rows))
        # writes of `wrapped` with the row index used
        seen = {}
        for bl in sorted(b.normal_blocks()):
            for i, s in enumerate(b.blocks[bl]["stmts"]):
                if s["k"] != "assign":
                    continue
                pl = s["place"]
                if not (pl["proj"] and pl["proj"][-1].get("name") == S.wrap_field):
                    continue
                val = T.rvalue(s["rv"], (bl, i))
                base = T.local(pl["local"], (bl, i))
                base = WD.strip_names(base)
                idx = None
                if base[0] == "call" and base[1].endswith("index_mut"):
                    idx = base[2][1]
                idx = shared.norm_term(idx) if idx else None
                gs = [(shared.norm_term(c), v) for c, v in w.guards_of(prim, bl)]
                which = None
                if idx == shared.norm_term(("binop", "Sub", end_t, ("const", 1))):
                    which = "last"
                elif idx == shared.norm_term(("binop", "Sub", start_t, ("const", 1))):
                    which = "above"
                key = "%s:%s" % (kind, which or w.tstr(prim, idx) if idx else "?")
                seen[which] = True
                okv = val == ("const", False)
                if which == "last" and kind == "up":
                    lt1 = shared.norm_term(("binop", "Lt", ("binop", "Sub", end_t, ("const", 1)), ("binop", "Sub", rows_t, ("const", 1))))
                    lt2 = shared.norm_term(("binop", "Lt", end_t, rows_t))
                    ok = okv and len(gs) == 1 and gs[0][1] is True and gs[0][0] in (lt1, lt2)
                    why = "must be cleared exactly under `range.end - 1 < rows - 1` (a whole-view scroll must keep the mark of the row that enters the scrollback)"
                elif which == "last" and kind == "down":
                    ok = okv and not gs
                    why = "must be cleared unconditionally (its continuation row was shifted away or blanked)"
                elif which == "above" and kind == "up":
                    ok = okv and any(c == shared.norm_term(("binop", "Eq", start_t, ("const", 0))) and v is False for c, v in gs) and len(gs) == 1
                    why = "must be cleared exactly for ranges that do not start at row 0"
                elif which == "above" and kind == "down":
                    ok = okv and any(c in (shared.norm_term(("binop", "Gt", start_t, ("const", 0))), shared.norm_term(("binop", "Ne", start_t, ("const", 0)))) and v is True for c, v in gs) and len(gs) == 1
                    why = "must be cleared exactly when a row above the range exists (start > 0)"
                else:
                    ok = False
                    why = "unexpected row"
                ctx.check(ok, "W8", key, "%s: wrap mark of row %s is set to %s under %s; it %s" % (prim, w.tstr(prim, idx) if idx else "?", w.tstr(prim, val), [(w.tstr(prim, c), v) for c, v in gs], why),
                          loc=w.stmt_loc(prim, (bl, i)), sample={"fn": prim, "row": w.tstr(prim, idx) if idx else None, "guards": [(w.tstr(prim, c), v) for c, v in gs]})
        for which in ("last", "above"):
            if not seen.get(which):
                ctx.violation("W8", "%s:%s:missing" % (kind, which), "%s never clears the wrap mark of the %s row" % (prim, "range's last" if which == "last" else "row above the range"), loc=w.fn_loc(prim))
    ctx.floor("W8", 4, "continuity marks")
