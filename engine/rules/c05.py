"""C05 - cursor movement and addressing clamp to the screen and the scroll region.

Decided clauses: V1 origin-mode non-interference of relative movers; V2 frame
(no cell / mode is touched); V3 parameter defaults; V4 homing after margin /
origin changes; V5 margin validation; V6 who may change the margins, and that
a height change resets both; V7 every cursor command leaves a real column
(wrap-pending cleared on every path); V8 the margin-aware clamps of vertical
moves."""
import hir as H
import mir as M
import world as WD
from rules import shared

REL_MOVERS = ["Bs", "Cr", "Ht", "Cht", "Cbt", "Cuu", "Cud", "Cuf", "Cub", "Cnl", "Cpl", "Vpr", "Lf", "Nel", "Ri"]
PURE_MOVERS = ["Bs", "Cr", "Ht", "Cht", "Cbt", "Cuu", "Cud", "Cuf", "Cub", "Cnl", "Cpl", "Cha", "Cup", "Vpa", "Vpr"]
DEFAULTS = {"Decstbm": ["1", "rows"], "Xtwinops": ["cols", "rows"]}


def default_helper(w):
    """The `u16 -> usize with default` helper: the local free function with
    inputs (u16, usize) -> usize that the Cuu handler feeds its parameter to."""
    for h in w.handler_reach("Cuu"):
        for cs in w.E.call_sites(h):
            if cs.local:
                fo = w.facts.fns.get(cs.callee, {})
                if [i["s"] for i in fo.get("inputs", [])] == ["u16", "usize"] and (fo.get("output") or {}).get("s") == "usize":
                    return cs.callee
    return None


def _run(ctx, w):
    S = shared.screen(w)
    R = shared.roles(w)
    E = w.E
    cur = R["cursor"]
    ctx.explanation = ("Cursor commands are decided as frame / non-interference / guard rules over the handlers of each "
                       "Function variant (derived from the executor's match), using may-read/may-write summaries, must-write "
                       "analysis and operand provenance.")
    ctx.decided = ["V1 origin mode is not consulted by relative movers (incl. RI)", "V2 movers write only the cursor position and the wrap-pending flag",
                   "V3 default operands (0/missing = 1; DECSTBM bottom = rows)", "V4 DECSTBM/DECOM home the cursor after the change on every path",
                   "V5 DECSTBM applies margins only under strict top < bottom < rows", "V6 margins are written only by DECSTBM/resets/resize; a height change resets both, a width-only change none",
                   "V7 every cursor command clears wrap-pending on every path", "V8 vertical moves clamp to the margin or the screen edge depending on a strict comparison with the margin",
                   "V9 absolute row addressing is origin-relative and clamped within the (origin-aware) margins", "V10 every row/column handed to the cursor setters is bounded by the screen", "W10 a line feed scrolls iff on the bottom margin, moves down only below the last-row guard"]
    ctx.not_decided = ["the distance arithmetic itself (that the cursor moves exactly n)", "tab-stop search semantics (C18)"]

    om = ("arg1", R["origin_mode"])
    ctx.rule("V1", "relative cursor movers never read origin mode")
    for v in REL_MOVERS:
        Rd = w.handler_R(v)
        bad = any(M.path_overlaps(r, om) for r in Rd)
        culprit = ""
        if bad:
            for f in sorted(w.handler_reach(v)):
                if any(M.path_overlaps(p, om) for ps in E.stmt_reads[f].values() for p in ps):
                    culprit = f
        ctx.check(not bad, "V1", v, "Function::%s consults origin mode (read in %s): a relative move must not depend on DECOM" % (v, culprit),
                  loc=w.fn_loc(culprit) if culprit else w.fn_loc(w.handler(v)[0]), sample={"function": v, "reads_origin_mode": False})
    ctx.floor("V1", 15, "relative movers")

    ctx.rule("V2", "cursor commands write nothing but cursor.col, cursor.row and the wrap-pending flag")
    allowed = [(cur, "col"), (cur, "row"), (R["pending_wrap"],)]
    for v in PURE_MOVERS:
        shared.frame(ctx, w, "V2", v, allowed, "none of these commands may change a cell, mode, margin or tab stop")
    ctx.floor("V2", 15, "cursor commands")

    # ---- V3 defaults ---------------------------------------------------------------
    ctx.rule("V3", "a missing or zero parameter takes the documented default; absolute coordinates are 1-based")
    helper = default_helper(w)
    if not helper:
        ctx.missing_anchor("V3", "default helper (u16, usize) -> usize")
    else:
        hb = w.hir(helper)
        names = [p["name"] for p in hb["params"]]
        for val, dflt, want in ((0, 77, 77), (1, 77, 1), (5, 77, 5), (65535, 77, 65535)):
            try:
                got = eval_fn(hb, {names[0]: val, names[1]: dflt})
            except H.Unsupported as e:
                try:
                    import symeval as _SE
                    got = _SE.Interp(w.facts).call_fn(helper, [val, dflt])
                except H.Unsupported as e2:
                    got = "unsupported: %s" % e2
            ctx.check(got == want, "V3", "%s(%d,%d)" % (helper, val, dflt), "%s(%d, %d) evaluates to %r, expected %r (0 means default, anything else itself)" % (helper, val, dflt, got, want),
                      loc=w.fn_loc(helper), sample={"helper": helper, "value": val, "default": dflt, "result": got})
        n = 0
        for v in w.anchors["function_variants"]:
            fo_v = [x for x in w.facts.adts[WD.FUNCTION]["variants"] if x["name"] == v][0]
            if not any(f["ty"]["s"] == "u16" for f in fo_v["fields"]) and v != "Xtwinops":
                continue
            for h in w.handler_reach(v):
                T = w.terms(h)
                for cs in E.call_sites(h, helper):
                    d = T.operand(cs.term["args"][1], cs.point)
                    ds = classify_default(d, R)
                    # which parameter of the handler feeds it
                    a0 = T.operand(cs.term["args"][0], cs.point)
                    want = "1"
                    if v in DEFAULTS:
                        idx = param_index(a0)
                        want = DEFAULTS[v][idx] if idx is not None and idx < len(DEFAULTS[v]) else "?"
                    n += 1
                    ctx.check(ds == want, "V3", "%s:%s" % (v, shared.site_key(w, h, cs.point)),
                              "Function::%s: default operand is %s, reference default is %s" % (v, w.tstr(h, d), want), loc=w.site_loc(cs),
                              sample={"function": v, "in": h, "value": w.tstr(h, a0), "default": w.tstr(h, d)})
        # 1-based absolute addressing: Cha / Cup / Vpa / Decstbm pass helper(x, d) - 1
        for v in ("Cha", "Cup", "Vpa"):
            for h in w.handler(v):
                T = w.terms(h)
                for cs in E.call_sites(h):
                    if not cs.local or cs.callee == helper or len(cs.term["args"]) < 2:
                        continue
                    a = T.operand(cs.term["args"][1], cs.point)
                    ok = a[0] == "binop" and a[1] == "Sub" and a[3] == ("const", 1) and a[2][0] == "call" and a[2][1] == helper
                    ctx.check(ok, "V3", "%s:1-based:%s" % (v, shared.site_key(w, h, cs.point)),
                              "Function::%s passes %s to its setter; absolute coordinates must be `param(default 1) - 1`" % (v, w.tstr(h, a)), loc=w.site_loc(cs),
                              sample={"function": v, "coordinate": w.tstr(h, a)})
    ctx.floor("V3", 26, "default/coordinate sites")

    home_rules(ctx, w, S, R)
    margin_rules(ctx, w, S, R)
    wrap_pending_rule(ctx, w, S, R)
    clamp_rules(ctx, w, S, R)
    addressing_rules(ctx, w, S, R)
    # LF/IND/NEL/RI "when not on a margin": the move-down-or-scroll decision (shared with C06.W10)
    from rules import c06
    up, down = c06.scroll_prims(w, S)
    c06.linefeed_rule(ctx, w, S, R, up)


def eval_fn(hb, env):
    try:
        return H.eval_expr(hb["body"], env) if False else _eval_block(hb["body"], dict(env))
    except KeyError as e:
        raise H.Unsupported("missing %s" % e)


def _eval_block(b, env):
    b = b if H.is_k(b, "block") else {"k": "block", "stmts": [], "expr": b}
    for s in b.get("stmts", []):
        if s["k"] == "let" and s["pat"]["p"] == "bind":
            env[s["pat"]["name"]] = _eval(s["init"], env)
        else:
            raise H.Unsupported("statement in helper")
    return _eval(b["expr"], env)


def _eval(e, env):
    e = H.unwrap(e)
    if H.is_k(e, "if"):
        c = H.eval_expr(e["cond"], env)
        return _eval_block(e["then"], env) if c else _eval_block(e["else"], env)
    if H.is_k(e, "block"):
        return _eval_block(e, env)
    if H.is_k(e, "match"):
        v = _eval(e["scrut"], env)
        i, arm, e2 = H.first_arm(e, v, env)
        if arm is None:
            raise H.Unsupported("no arm")
        return _eval(arm["body"], e2)
    return H.eval_expr(e, env)


def classify_default(d, R):
    if d == ("const", 1):
        return "1"
    if d == ("load", ("arg1", R["rows"])):
        return "rows"
    if d == ("load", ("arg1", R["cols"])):
        return "cols"
    return repr(d)


def param_index(t):
    """Which parameter (0-based among the u16 ones) a term comes from: either
    handler argument N (arg2 -> 0) or payload field k of an enum argument."""
    found = []

    def visit(x):
        if isinstance(x, tuple):
            if x and x[0] == "load":
                p = x[1]
                digits = [el for el in p[1:] if isinstance(el, str) and el.isdigit()]
                if digits:
                    found.append(int(digits[-1]))
                elif p[0].startswith("arg") and p[0] != "arg1":
                    found.append(int(p[0][3:]) - 2)
            for y in x:
                visit(y)
    visit(t)
    return found[0] if found else None


def home_fn(w, R):
    """The homing routine: the callee of the Decstbm handler that writes both
    cursor coordinates and reads origin mode."""
    cur = R["cursor"]
    for h in w.handler("Decstbm"):
        for cs in w.E.call_sites(h):
            if cs.local:
                s = w.E.summaries[cs.callee]
                if ("arg1", cur, "col") in s.W and ("arg1", cur, "row") in s.W and ("arg1", R["origin_mode"]) in s.R:
                    return cs.callee
    return None


def home_rules(ctx, w, S, R):
    E = w.E
    ctx.rule("V4", "after DECSTBM and after setting/resetting origin mode the cursor is homed, on every path, AFTER the change")
    home = home_fn(w, R)
    if not home:
        ctx.missing_anchor("V4", "homing routine (writes cursor col+row, reads origin mode) called by the DECSTBM handler")
        return
    for v, fields in (("Decstbm", [R["top_margin"], R["bottom_margin"]]), ("Decset", [R["origin_mode"]]), ("Decrst", [R["origin_mode"]])):
        for h in w.handler(v):
            b = w.body(h)
            homes = {cs.point for cs in E.call_sites(h, home)}
            wr = [pt for pt, ps in E.stmt_writes[h].items() if any(p == ("arg1", f) for p in ps for f in fields)]
            if v == "Decstbm":
                # homes even when the margins are rejected
                ok = b.every_path_to_return_hits((0, 0), homes, include_start=True)
                ctx.check(ok, "V4", "Decstbm:always", "DECSTBM does not home the cursor on every path", loc=w.fn_loc(h), sample={"handler": h, "home": home})
            if not wr:
                ctx.violation("V4", "%s:writes" % v, "no write of %s found in %s" % (fields, h), loc=w.fn_loc(h))
            for pt in wr:
                ok = b.every_path_to_return_hits(pt, homes)
                ctx.check(ok, "V4", "%s:%s" % (v, shared.site_key(w, h, pt)),
                          "%s: after %s is changed some path reaches the end of the handler without homing the cursor (the homing call precedes the change or is missing)" % (h, fields),
                          loc=w.stmt_loc(h, pt), sample={"handler": h, "write": w.stmt_loc(h, pt), "home": home})
    ctx.floor("V4", 5, "homing obligations")


def cond_strict_lt(c, a, b):
    """c is the term of `a < b` (or `b > a`)."""
    if c[0] != "binop":
        return False
    if c[1] == "Lt" and WD.strip_names(c[2]) == a and WD.strip_names(c[3]) == b:
        return True
    if c[1] == "Gt" and WD.strip_names(c[2]) == b and WD.strip_names(c[3]) == a:
        return True
    return False


def margin_rules(ctx, w, S, R):
    E = w.E
    tm, bm = ("arg1", R["top_margin"]), ("arg1", R["bottom_margin"])
    rows_t = ("load", ("arg1", R["rows"]))
    ctx.rule("V5", "DECSTBM writes the margins only under strict `top < bottom` and `bottom < rows`")
    for h in w.handler("Decstbm"):
        sites = w.assign_sites({h}, lambda p: p in (tm, bm))
        vals = {p: WD.strip_names(t) for fn, pt, p, t in sites}
        if tm not in vals or bm not in vals:
            ctx.violation("V5", "writes", "DECSTBM handler %s does not assign both margins" % h, loc=w.fn_loc(h))
            continue
        for fn, pt, p, t in sites:
            gs = [(c, v) for c, v in w.guards_of(h, pt[0])]
            g_tb = any(v is True and cond_strict_lt(c, vals[tm], vals[bm]) for c, v in gs)
            g_br = any(v is True and (cond_strict_lt(c, vals[bm], rows_t)) for c, v in gs)
            # also accepted: !(top >= bottom) etc. via the false edge of the negated comparison
            g_tb = g_tb or any(v is False and c[0] == "binop" and c[1] == "Ge" and WD.strip_names(c[2]) == vals[tm] and WD.strip_names(c[3]) == vals[bm] for c, v in gs)
            g_br = g_br or any(v is False and c[0] == "binop" and c[1] == "Ge" and WD.strip_names(c[2]) == vals[bm] and WD.strip_names(c[3]) == rows_t for c, v in gs)
            ctx.check(g_tb, "V5", "%s:top<bottom" % M.path_str(p), "the write of %s in %s is not guarded by a strict `top < bottom` test (guards: %s)"
                      % (M.path_str(p), h, [(w.tstr(h, c), v) for c, v in gs]), loc=w.stmt_loc(h, pt), sample={"write": M.path_str(p), "guards": [(w.tstr(h, c), v) for c, v in gs]})
            ctx.check(g_br, "V5", "%s:bottom<rows" % M.path_str(p), "the write of %s in %s is not guarded by `bottom < rows` (guards: %s)"
                      % (M.path_str(p), h, [(w.tstr(h, c), v) for c, v in gs]), loc=w.stmt_loc(h, pt))
        # the values are the 0-based parameters
        for p, nm in ((tm, "top"), (bm, "bottom")):
            t = vals[p]
            ok = t[0] == "binop" and t[1] == "Sub" and t[3] == ("const", 1) and t[2][0] == "call"
            ctx.check(ok, "V5", "%s:value" % nm, "the %s margin is assigned %s, expected `param - 1`" % (nm, w.tstr(h, t)), loc=w.fn_loc(h))
    ctx.floor("V5", 6, "margin guards")

    ctx.rule("V6", "the margins are written only by DECSTBM, the resets, the constructor and resize; in resize both are reset exactly when the height changes")
    allowed = set(w.handler_reach("Decstbm")) | set(w.handler_reach("Decstr")) | set(w.handler_reach("Ris")) | {S.resize_fn}
    for fn in sorted(w.bodies):
        if shared.screen(w)._impl_of(fn) != S.term_ty:
            continue
        direct = [pt for pt, ps in E.stmt_writes[fn].items() if any(p in (tm, bm) for p in ps)]
        if not direct:
            continue
        is_ctor = any(s["k"] == "assign" and s["rv"]["k"] == "aggregate" and s["rv"].get("adt") == S.term_ty for bl in w.body(fn).blocks for s in bl["stmts"])
        ctx.check(fn in allowed or is_ctor, "V6", "writer:" + fn, "%s writes the scroll margins; only DECSTBM, DECSTR, RIS and resize may" % fn, loc=w.stmt_loc(fn, direct[0]),
                  sample={"writer": fn})
    # the resets put the region back to the FULL screen: top = 0, bottom = rows - 1 (rows, not cols; not the old margin)
    for fn in sorted(w.bodies):
        if S._impl_of(fn) != S.term_ty or fn == S.resize_fn or fn in w.handler("Decstbm"):
            continue
        for f2, pt, p, t in w.assign_sites({fn}, lambda p: p in (tm, bm)):
            t = WD.strip_names(t)
            if p == tm:
                okv = t == ("const", 0)
            else:
                okv = t == ("binop", "Sub", rows_t, ("const", 1))
            ctx.check(okv, "V6", "reset:%s:%s" % (fn, p[1]), "%s sets %s to %s; a reset puts the scroll region back to the full screen (top 0, bottom rows - 1)" % (fn, p[1], w.tstr(fn, t)),
                      loc=w.stmt_loc(fn, pt), sample={"fn": fn, "field": p[1], "value": w.tstr(fn, t)})
    rf = S.resize_fn
    b = w.body(rf)
    T = w.terms(rf)
    found = False
    candidates = []
    new_rows = ("load", ("arg3",))
    for blk in sorted(b.normal_blocks()):
        t = b.term(blk)
        if t["k"] != "switch":
            continue
        d = WD.strip_names(T.operand(t["discr"], (blk, b.n_stmts(blk))))
        # the decision "did the height change?": `rows.cmp(&self.rows)`, `rows != self.rows` or `rows == self.rows`
        edges = None            # [(name, target, changed?)]
        if d[0] == "discr" and d[1][0] == "call" and d[1][1].endswith("::cmp") and len(d[1][2]) == 2:
            args = [x[2] if x[0] == "ref" else x for x in d[1][2]]
            if set(args) == {new_rows, rows_t}:
                edges = [({255: "Less", 0: "Equal", 1: "Greater"}.get(val, str(val)), tgt, val != 0) for val, tgt in t["targets"]]
        elif d[0] == "binop" and d[1] in ("Ne", "Eq") and {d[2], d[3]} == {new_rows, rows_t}:
            edges = []
            for val, tgt in t["targets"]:
                truth = bool(val)
                changed = truth if d[1] == "Ne" else (not truth)
                edges.append(("changed" if changed else "Equal", tgt, changed))
            if t.get("otherwise") is not None:
                truth = True                 # bool switch: the listed value is 0 (false), `otherwise` is true
                changed = truth if d[1] == "Ne" else (not truth)
                edges.append(("changed" if changed else "Equal", t["otherwise"], changed))
        if edges is None:
            continue
        found = True
        pend = []

        def chk(cond, *a, **k):
            pend.append((cond, a, k))
        for name, tgt, changed in edges:
            for fld in (tm, bm):
                wpts = {pt for pt, ps in E.stmt_writes[rf].items() if fld in ps}
                arm_w = {pt for pt in wpts if b.edge_controls((blk, tgt), pt[0])}
                if not changed:
                    chk(not arm_w, "V6", "resize:Equal:%s" % fld[1], "resize resets %s although the height did not change (a width-only change must keep the region)" % fld[1],
                              loc=w.fn_loc(rf), sample={"arm": name, "field": fld[1], "writes": 0})
                else:
                    ok = bool(arm_w) and b.every_path_to_return_hits((tgt, 0), arm_w, include_start=True)
                    chk(ok, "V6", "resize:%s:%s" % (name, fld[1]),
                              "resize does not reset %s on every path when the height changes (%s arm): the old region survives a height change" % (fld[1], name),
                              loc=w.fn_loc(rf), sample={"arm": name, "field": fld[1], "writes": len(arm_w)})
                    for pt in arm_w:
                        blkj = b.blocks[pt[0]]["stmts"][pt[1]]
                        val_t = WD.strip_names(T.rvalue(blkj["rv"], pt))
                        want = ("const", 0) if fld == tm else ("binop", "Sub", new_rows, ("const", 1))
                        ok2 = val_t == want or (fld == bm and val_t == ("binop", "Sub", rows_t, ("const", 1)) and
                                                any(b.path_exists(wp, pt) for wp, ps2 in E.stmt_writes[rf].items() if ("arg1", R["rows"]) in ps2))
                        chk(ok2, "V6", "resize:%s:%s:value" % (name, fld[1]), "resize sets %s to %s; a height change must reset the region to the full screen" % (fld[1], w.tstr(rf, val_t)),
                                  loc=w.stmt_loc(rf, pt))
        # every margin write in resize sits on a height-changed edge of this decision
        for fld in (tm, bm):
            for pt in sorted({pt for pt, ps in E.stmt_writes[rf].items() if fld in ps}):
                ok = any(changed and b.edge_controls((blk, tgt), pt[0]) for name, tgt, changed in edges)
                chk(ok, "V6", "resize:guarded:%s:%s" % (fld[1], shared.site_key(w, rf, pt)),
                          "resize writes %s outside the height-changed arms" % fld[1], loc=w.stmt_loc(rf, pt))
        candidates.append(pend)
    if candidates:
        best = min(candidates, key=lambda pd: sum(1 for c_, a_, k_ in pd if not c_))
        for c_, a_, k_ in best:
            ctx.check(c_, *a_, **k_)
    if not found:
        ctx.missing_anchor("V6", "comparison of the new height with the current one in %s" % rf)
    ctx.floor("V6", 8, "margin writer obligations")


def wrap_pending_rule(ctx, w, S, R):
    ctx.rule("V7", "every cursor command clears the wrap-pending flag (and thereby leaves a real column) on every path")
    pw = ("arg1", R["pending_wrap"])
    for v in PURE_MOVERS:
        must = set()
        for h in w.handler(v):
            must |= w.mustwrite.must(h)
        ctx.check(pw in must, "V7", v, "Function::%s can return without clearing wrap-pending: the cursor may stay parked beyond the last column (col == cols) after a cursor command" % v,
                  loc=w.fn_loc(w.handler(v)[0]), sample={"function": v, "must_write": sorted(M.path_str(p) for p in must)})
    # and whoever clears it to false pairs it with a real column: handled in C02.R4
    ctx.floor("V7", 15, "cursor commands")


def find_calls(t, suffix, acc=None):
    acc = [] if acc is None else acc
    if isinstance(t, tuple):
        if t and t[0] == "call" and t[1].endswith(suffix):
            acc.append(t)
        for x in t:
            find_calls(x, suffix, acc)
    return acc


_CS = {}


def cursor_verdict(ctx, w, S, R, rule="V11"):
    """Semantic form of V8-V10: the pure cursor commands evaluated on a 5x5 terminal (hinterp.cursor_semantics)."""
    full = getattr(ctx, "tier", "") == "thorough"
    k = (id(w), full)
    from rules import hinterp
    ctx.rule(rule, "the pure cursor commands (CUU CUD CUF CUB CNL CPL VPR CHA VPA CUP BS CR) evaluated on a 5x5 terminal for margin pairs, origin mode on/off, every start position incl. wrap-pending "
                   "and parameters 0/1/small/beyond the edge end exactly where the statement prescribes, clear wrap-pending, never touch the buffer and change nothing else")
    if k not in _CS:
        try:
            _CS[k] = hinterp.cursor_semantics(w, S, R, full=full)
        except Exception as ex:
            _CS[k] = ("n/a", repr(ex))
    ok, info = _CS[k]
    done = getattr(ctx, "_v11_done", None)
    if ok == "n/a":
        if not done:
            ctx.note("semantic form of the cursor rules not applicable: %s" % info)
        return None
    if not done:
        try:
            object.__setattr__(ctx, "_v11_done", True)
        except Exception:
            pass
        if ok:
            ctx.ok(rule, "all", {"cases": info})
            ctx.rule_counts[rule] = info
        else:
            hs = w.handler("Cuu")
            ctx.violation(rule, "cursor", str(info), loc=w.fn_loc(hs[0]) if hs else None)
    return bool(ok)


def clamp_rules(ctx, w, S, R):
    """V8: vertical relative moves."""
    ctx = shared.Deferred(ctx, {"V8"}, cursor_verdict(ctx, w, S, R))
    E = w.E
    cur = R["cursor"]
    row_t = ("load", ("arg1", cur, "row"))
    bm_t = ("load", ("arg1", R["bottom_margin"]))
    tm_t = ("load", ("arg1", R["top_margin"]))
    rows_t = ("load", ("arg1", R["rows"]))
    ctx.rule("V8", "downward moves clamp to the bottom margin unless they start strictly below it (then to the last row); upward moves clamp to the top margin unless they start strictly above it (then to row 0)")
    for v, kind in (("Cud", "down"), ("Vpr", "down"), ("Cnl", "down"), ("Cuu", "up"), ("Cpl", "up")):
        done = False
        for h in sorted(w.handler_reach(v)):
            b = w.body(h)
            T = w.terms(h)
            # the function that computes the clamped row: it reads the margin and writes/passes a row
            s = E.summaries[h]
            margin = ("arg1", R["bottom_margin"] if kind == "down" else R["top_margin"])
            if not any(margin in ps for ps in E.stmt_reads[h].values()):
                continue
            done = True
            # branch: a switch whose condition compares cursor.row with the margin
            conds = []
            for blk in sorted(b.normal_blocks()):
                t = b.term(blk)
                if t["k"] == "switch":
                    c = WD.strip_names(T.operand(t["discr"], (blk, b.n_stmts(blk))))
                    if c[0] == "binop" and {c[2], c[3]} == {row_t, bm_t if kind == "down" else tm_t}:
                        conds.append(c)
            if kind == "down":
                ok = any((c[1] == "Gt" and c[2] == row_t) or (c[1] == "Lt" and c[3] == row_t) for c in conds)
                why = "the choice between `last row` and `bottom margin` must be made by the strict test row > bottom_margin"
            else:
                ok = any((c[1] == "Lt" and c[2] == row_t) or (c[1] == "Gt" and c[3] == row_t) for c in conds)
                why = "the choice between `row 0` and `top margin` must be made by the strict test row < top_margin"
            ctx.check(ok, "V8", "%s:%s:guard" % (v, h), "%s: %s (found %s)" % (h, why, [w.tstr(h, c) for c in conds]), loc=w.fn_loc(h),
                      sample={"function": v, "in": h, "conditions": [w.tstr(h, c) for c in conds]})
            # both clamps present in the row handed to the setter
            terms = []
            for cs in E.call_sites(h):
                if cs.local and len(cs.term["args"]) == 2 and ("arg1", cur, "row") in E.summaries[cs.callee].W:
                    terms.append(WD.strip_names(T.operand(cs.term["args"][1], cs.point)))
            txt = repr(terms)
            if kind == "down":
                mins = [c for t in terms for c in find_calls(t, "::min")]
                has_m = any(bm_t in c[2] for c in mins)
                has_e = any(("binop", "Sub", rows_t, ("const", 1)) in c[2] for c in mins)
                ctx.check(has_m and has_e, "V8", "%s:%s:clamps" % (v, h), "%s: the target row %s lacks the clamp to %s" % (h, [w.tstr(h, t) for t in terms], "the bottom margin" if not has_m else "the last row"),
                          loc=w.fn_loc(h), sample={"function": v, "target_row": [w.tstr(h, t) for t in terms]})
            else:
                maxs = [c for t in terms for c in find_calls(t, "::max")]
                has_m = any(any(R["top_margin"] in repr(a) for a in c[2]) for c in maxs)
                has_e = any(("const", 0) in c[2] for c in maxs)
                ctx.check(has_m and has_e, "V8", "%s:%s:clamps" % (v, h), "%s: the target row %s lacks the clamp to %s" % (h, [w.tstr(h, t) for t in terms], "the top margin" if not has_m else "row 0"),
                          loc=w.fn_loc(h), sample={"function": v, "target_row": [w.tstr(h, t) for t in terms]})
        if not done:
            ctx.missing_anchor("V8", "margin-aware clamp for Function::%s" % v)
    ctx.floor("V8", 10, "vertical clamp obligations")


# ---- V9 / V10 -------------------------------------------------------------------------------------
def origin_fns(w, S, R):
    """(top_fn, bottom_fn): pure helpers returning {0 | top_margin} and {rows-1 | bottom_margin} chosen by origin mode."""
    E = w.E
    top = bottom = None
    rows_t = ("load", ("arg1", R["rows"]))
    for fn in sorted(S.terminal_scope | {f for f in w.bodies if S._impl_of(f) == S.term_ty}):
        fo = w.facts.fns.get(fn, {})
        if (fo.get("output") or {}).get("s") != "usize" or len(fo.get("inputs", [])) != 1 or E.summaries[fn].W:
            continue
        if ("arg1", R["origin_mode"]) not in E.summaries[fn].R:
            continue
        b = w.body(fn)
        T = w.terms(fn)
        vals = set()
        for bl in b.normal_blocks():
            for i, st in enumerate(b.blocks[bl]["stmts"]):
                if st["k"] == "assign" and st["place"]["local"] == 0 and not st["place"]["proj"]:
                    vals.add(shared.norm_term(T.rvalue(st["rv"], (bl, i))))
        if vals == {("const", 0), ("load", ("arg1", R["top_margin"]))}:
            top = fn
        if vals == {("binop", "Sub", rows_t, ("const", 1)), ("load", ("arg1", R["bottom_margin"]))}:
            bottom = fn
    return top, bottom


def setters(w, S, R):
    """(row setter, col setter): terminal methods (self, usize) that assign their parameter to cursor.row / cursor.col."""
    cur = R["cursor"]
    row = col = None
    for fn in sorted(w.bodies):
        if S._impl_of(fn) != S.term_ty:
            continue
        fo = w.facts.fns.get(fn, {})
        if [i["s"] for i in fo.get("inputs", [])][1:] != ["usize"]:
            continue
        for f2, pt, p, t in w.assign_sites({fn}, lambda p: p in (("arg1", cur, "row"), ("arg1", cur, "col"))):
            if WD.strip_names(t) == ("load", ("arg2",)):
                if p[2] == "row":
                    row = fn
                else:
                    col = col or fn
    return row, col


def addressing_rules(ctx, w, S, R):
    ctx_plain = ctx
    ctx = shared.Deferred(ctx, {"V9", "V10"}, cursor_verdict(ctx, w, S, R))
    E = w.E
    # the semantic form covers the pure cursor commands only: functions that other commands (LF, print, HT, ...) reach too
    # keep the shape rule
    from rules import hinterp as _hi
    pure = set()
    for v in _hi.CURSOR_SPEC:
        pure |= set(w.handler_reach(v))
    other = set()
    for v in w.anchors["function_variants"]:
        if v not in _hi.CURSOR_SPEC:
            other |= set(w.handler_reach(v))
    covered = pure - other
    cur = R["cursor"]
    row_t, rows_t, cols_t = ("load", ("arg1", cur, "row")), ("load", ("arg1", R["rows"])), ("load", ("arg1", R["cols"]))
    top_fn, bottom_fn = origin_fns(w, S, R)
    rset, cset = setters(w, S, R)
    ctx.rule("V9", "absolute row addressing (CUP/HVP/VPA): row := min(max(top' + row, top'), bottom') with top'/bottom' the origin-aware margins")
    if not (top_fn and bottom_fn and rset and cset):
        ctx.missing_anchor("V9", "origin-aware margin helpers / cursor setters", "(top=%s bottom=%s row=%s col=%s)" % (top_fn, bottom_fn, rset, cset))
        return
    topc = ("call", top_fn, (("ref", False, ("load", ("arg1",))),))
    botc = ("call", bottom_fn, (("ref", False, ("load", ("arg1",))),))
    done = False
    for v in ("Cup", "Vpa"):
        for h in sorted(w.handler_reach(v)):
            if not any(cs.callee in (top_fn, bottom_fn) for cs in E.call_sites(h)):
                continue
            T = w.terms(h)
            for cs in E.call_sites(h, rset):
                t = shared.norm_term(T.operand(cs.term["args"][1], cs.point))
                want = ("min", botc, ("max", ("binop", "Add", topc, ("load", ("arg2",))), topc))
                alt = tuple(sorted(want[1:], key=repr))
                ok = t[0] == "min" and set(t[1:]) == set(want[1:])
                if not ok and t[0] == "call" and t[1].endswith("::clamp"):
                    ok = t[2] == (("binop", "Add", topc, ("load", ("arg2",))), topc, botc)
                done = True
                ctx.check(ok, "V9", "%s:%s" % (v, h), "%s addresses row %s; in origin mode the row must be relative to and clamped within the scroll region, otherwise clamped to the screen: min(max(top' + row, top'), bottom')" % (h, w.tstr(h, t)),
                          loc=w.site_loc(cs), sample={"function": v, "row": w.tstr(h, t)})
    if not done:
        ctx.missing_anchor("V9", "row computation of absolute addressing")

    ctx.rule("V10", "every value handed to the cursor row setter is provably < rows and every column <= cols (== cols only when parking for a pending wrap)")
    n = 0
    for f in sorted(S.terminal_scope):
        T = w.terms(f)
        for cs in E.call_sites(f):
            if cs.callee not in (rset, cset):
                continue
            t = shared.norm_term(T.operand(cs.term["args"][1], cs.point))
            gs = [(shared.norm_term(c), v) for c, v in w.guards_of(f, cs.point[0])]
            n += 1
            cx = ctx if f in covered else ctx_plain
            if f in w.handler("Print"):
                from rules import c04 as _c04
                if _c04.print_ok(w, S, R):
                    cx = shared.Deferred(ctx_plain, {"V10"}, True)     # the print handler's cursor updates are decided by its evaluated form
            if cs.callee == rset:
                ok = row_bounded(w, S, R, t, gs, top_fn, bottom_fn)
                cx.check(ok, "V10", "%s:%s" % (f, shared.site_key(w, f, cs.point)),
                          "%s sets the cursor row to %s, which nothing bounds by the screen height (guards: %s): the cursor can leave the screen (row == rows) and the next print indexes out of range" %
                          (f, w.tstr(f, t), [(w.tstr(f, c)[:50], v) for c, v in gs]), loc=w.site_loc(cs), sample={"fn": f, "row": w.tstr(f, t)})
            else:
                ok = col_bounded(w, S, R, t, gs)
                cx.check(ok, "V10", "%s:%s" % (f, shared.site_key(w, f, cs.point)),
                          "%s sets the cursor column to %s, which nothing bounds by the screen width (guards: %s)" % (f, w.tstr(f, t), [(w.tstr(f, c)[:50], v) for c, v in gs]), loc=w.site_loc(cs),
                          sample={"fn": f, "col": w.tstr(f, t)})
    ctx.floor("V10", 15, "cursor setter call sites")


def row_bounded(w, S, R, t, gs, top_fn, bottom_fn):
    cur = R["cursor"]
    row_t, rows_t = ("load", ("arg1", cur, "row")), ("load", ("arg1", R["rows"]))
    last = ("binop", "Sub", rows_t, ("const", 1))
    bm, tm = ("load", ("arg1", R["bottom_margin"])), ("load", ("arg1", R["top_margin"]))

    def le_last(e):
        return e in (last, bm, tm, row_t, ("const", 0)) or (e[0] == "call" and e[1] in (top_fn, bottom_fn)) or (e[0] == "binop" and e[1] == "Sub" and e[2] == row_t)
    if le_last(t):
        return True
    if t[0] == "min":
        return any(le_last(e) for e in t[1:])
    if t[0] == "phi":
        return all(row_bounded(w, S, R, x, gs, top_fn, bottom_fn) for x in t[1])
    if t[0] == "cast":
        inner = t[1]
        if inner[0] == "max":
            def small(e):
                return e == ("const", 0) or (e[0] == "cast" and e[1] in (tm, row_t)) or (e[0] == "binop" and e[1] == "Sub" and e[2][0] == "cast" and e[2][1] == row_t) or \
                    (e[0] == "phi" and all(small(y) for y in e[1])) or (e[0] == "max" and all(small(y) for y in e[1:]))
            return all(small(e) for e in inner[1:])
        if inner[0] == "phi":
            return all(row_bounded(w, S, R, ("cast", y, t[2]), gs, top_fn, bottom_fn) for y in inner[1])
    if t == ("binop", "Add", ("const", 1), row_t) or t == ("binop", "Add", row_t, ("const", 1)):
        for c, v in gs:
            if c == ("binop", "Lt", row_t, last) and v is True:
                return True
            if c[0] == "binop" and c[1] == "Lt" and c[2] in (("binop", "Add", ("const", 1), row_t), ("binop", "Add", row_t, ("const", 1))) and c[3] == rows_t and v is True:
                return True
            if c == ("binop", "Ge", row_t, last) and v is False:
                return True
    return False


def col_bounded(w, S, R, t, gs):
    cur = R["cursor"]
    cols_t = ("load", ("arg1", R["cols"]))
    if t in (("const", 0), cols_t, ("binop", "Sub", cols_t, ("const", 1))):
        return True
    if t[0] == "min" and any(e in (cols_t, ("binop", "Sub", cols_t, ("const", 1))) for e in t[1:]):
        return True
    for c, v in gs:
        if c[0] == "binop" and c[2] == t and c[3] == cols_t and ((c[1] == "Ge" and v is False) or (c[1] == "Lt" and v is True)):
            return True
    if t[0] == "phi":
        return all(col_bounded(w, S, R, x, gs) for x in t[1])
    return False


def run(ctx, w):
    _run(ctx, w)
    shared.invariant_rule(ctx, w, shared.screen(w), shared.roles(w), "V12")
    shared.mode_rule(ctx, w, shared.screen(w), shared.roles(w), "V13")
    # HT / CHT / CBT are relative moves of this property: the tab table they consult must be right (defaults every 8
    # columns incl. after widening, the n-th stop search, the fallback to the last / first column)
    from rules import c18
    shared.embed(ctx, w, c18._run)
    # the commands of this property must first of all be DECODED as specified (selector values, parameter slots, finals)
    from rules import c03
    shared.embed(ctx, w, c03.dispatch_rules)
