"""Script analysis for dump(): the emission list of a dump routine (HIR,
structured control flow => ordered emissions with guards) and a simulator of
the *extracted* parser tables (a model, not the program) that turns an emitted
script into the sequence of control functions it denotes."""
import json

import hir as H
import world as WD
from rules import tables

DROP = ("ty", "adj_ty", "line", "macro", "id", "dk", "local", "text", "mode", "callee_local", "res")


def strip(n):
    if isinstance(n, dict):
        return {k: strip(v) for k, v in n.items() if k not in DROP}
    if isinstance(n, list):
        return [strip(x) for x in n]
    return n


def key(e):
    return json.dumps(strip(H.unwrap(e)), sort_keys=True)


def src(e):
    """Readable rendering of a (small) HIR expression."""
    e = H.unwrap(e)
    k = e.get("k")
    if k == "lit":
        v = e["v"]
        if e.get("t") == "char":
            return "'\\u{%x}'" % v
        return json.dumps(v)
    if k == "path":
        return e.get("name") or e.get("path", "?").rsplit("::", 2)[-1]
    if k == "field":
        return "%s.%s" % (src(e["base"]), e["name"])
    if k == "unary":
        return "%s%s" % (e["op"], src(e["e"]))
    if k == "binary":
        return "(%s %s %s)" % (src(e["l"]), e["op"], src(e["r"]))
    if k == "mcall":
        return "%s.%s(%s)" % (src(e["recv"]), e["name"], ", ".join(src(a) for a in e["args"]))
    if k == "call":
        return "%s(%s)" % (src(e["f"]), ", ".join(src(a) for a in e["args"]))
    if k == "index":
        return "%s[%s]" % (src(e["base"]), src(e["idx"]))
    if k == "ref":
        return "&" + src(e["e"])
    if k == "tuple":
        return "(%s)" % ", ".join(src(a) for a in e["elems"])
    if k == "cast":
        return src(e["e"])
    return k or "?"


class Emission:
    def __init__(self, order, guards, kind, payload, line, loops, top):
        self.order = order
        self.guards = guards        # [(key, polarity, expr)] outermost first; polarity True/False or ("arm", i)
        self.kind = kind            # "lit" | "fmt" | "nested" | "other"
        self.payload = payload
        self.line = line
        self.loops = loops
        self.top = top              # index of the top-level statement of the function body

    def guard_str(self):
        return " && ".join(("" if p is True else "!" if p is False else "arm%s:" % (p[1],)) + src(e) for _, p, e in self.guards) or "always"


def emissions(w, fn, acc=None):
    """Ordered emissions into the String accumulator of a dump routine."""
    h = w.hir(fn)
    out = []
    locals_ = {}
    state = {"acc": acc, "n": 0}

    def classify(arg):
        a = H.unwrap(arg)
        while H.is_k(a, "ref"):
            a = H.unwrap(a["e"])
        if H.is_k(a, "lit") and a.get("t") == "str":
            return "lit", a["v"]
        if H.is_k(a, "lit") and a.get("t") == "char":
            return "lit", chr(a["v"])
        if H.is_k(a, "path") and a.get("res") == "local" and a["name"] in locals_:
            return classify(locals_[a["name"]])
        fc = None
        try:
            fc = H.format_call(a) if (H.is_k(a, "call") or H.is_k(a, "block")) else None
        except H.Unsupported:
            fc = None
        if fc:
            return "fmt", fc
        if H.is_k(a, "mcall") and a.get("callee_local"):
            return "nested", (a["callee"], a["recv"])
        return "other", a

    def emit(arg, guards, line, loops, top):
        kind, payload = classify(arg)
        out.append(Emission(state["n"], list(guards), kind, payload, line, loops, top))
        state["n"] += 1

    def walk_block(b, guards, loops, top):
        b = b if H.is_k(b, "block") else {"k": "block", "stmts": [], "expr": b}
        for i, s in enumerate(b.get("stmts", [])):
            t = i if top is None else top
            k = s["k"]
            if k == "let":
                pat = s["pat"]
                if pat["p"] == "bind" and "init" in s:
                    init = H.unwrap(s["init"])
                    is_str = pat.get("ty", "").endswith("string::String")
                    if is_str and state["acc"] is None and (H.is_k(init, "mcall") or H.is_k(init, "call")):
                        # `let mut seq = <first emission>` or String::new()
                        state["acc"] = pat["name"]
                        if H.is_k(init, "mcall") and init.get("callee_local"):
                            emit(init, guards, s.get("line"), loops, t)
                        elif H.is_k(init, "mcall") and init["name"] in ("to_owned", "to_string", "into"):
                            emit(init["recv"], guards, s.get("line"), loops, t)
                        continue
                    locals_[pat["name"]] = s["init"]
                    walk_expr(s["init"], guards, loops, t)
                elif "init" in s:
                    walk_expr(s["init"], guards, loops, t)
            elif k in ("semi", "expr"):
                walk_expr(s["e"], guards, loops, t)
        if "expr" in b:
            walk_expr(b["expr"], guards, loops, (len(b.get("stmts", [])) if top is None else top))

    def walk_expr(e, guards, loops, top):
        e = H.unwrap(e)
        k = e.get("k")
        if k == "mcall" and e["name"] in ("push_str", "push") and H.local_name(e["recv"]) == state["acc"] and state["acc"] is not None:
            emit(e["args"][0], guards, e.get("line"), loops, top)
            return
        if k in ("mcall", "call") and state["acc"] is not None and state.get("depth", 0) < 3:
            # a local helper that is handed `&mut <accumulator>`: its emissions are this routine's emissions, in place, with the helper's
            # parameters replaced by the caller's argument expressions (so guards and templates stay expressed over the caller's state)
            callee = e.get("callee") if k == "mcall" else H.path_of(e["f"])
            args = ([e["recv"]] if k == "mcall" else []) + list(e["args"])
            j = None
            for i, a in enumerate(args):
                a0 = H.unwrap(a)
                if H.is_k(a0, "ref") and a0.get("mut") and H.local_name(a0["e"]) == state["acc"]:
                    j = i
                elif k == "mcall" and i > 0 and H.local_name(a0) == state["acc"] and str(a0.get("ty", "")).startswith("&mut"):
                    j = i
            hb = w.facts.hir.get(callee) if callee else None
            if j is not None and hb is not None and (e.get("callee_local") or k == "call"):
                names = [p_.get("name") for p_ in hb["params"]]
                if len(names) == len(args) and all(names):
                    mapping = {n_: a for i, (n_, a) in enumerate(zip(names, args)) if i != j}
                    body = subst_locals(hb["body"], mapping)
                    saved = state["acc"]
                    state["acc"], state["depth"] = names[j], state.get("depth", 0) + 1
                    walk_block(body, guards, loops, top)
                    state["acc"], state["depth"] = saved, state["depth"] - 1
                    return
        if k == "if":
            c = e["cond"]
            walk_block(e["then"], guards + [(key(c), True, c)], loops, top)
            if "else" in e:
                walk_block(e["else"], guards + [(key(c), False, c)], loops, top)
            return
        if k == "match":
            if e.get("src") == "ForLoopDesugar":
                it = e["scrut"]
                for arm in e["arms"]:
                    walk_expr(arm["body"], guards, loops + [key(it)], top)
                return
            for i, arm in enumerate(e["arms"]):
                walk_expr(arm["body"], guards + [(key(e["scrut"]), ("arm", i, src_pat(arm["pat"])), e["scrut"])], loops, top)
            return
        if k == "loop":
            walk_block(e["body"], guards, loops, top)
            return
        if k == "block":
            walk_block(e, guards, loops, top)
            return
        if k == "assignop" or k == "assign":
            nm = H.local_name(e["l"])
            if nm:
                locals_[nm + "'"] = e
            return
    walk_block(h["body"], [], [], None)
    return out, locals_, state["acc"]


def subst_locals(n, mapping):
    """Copy of an HIR tree with every use of a local named in `mapping` replaced by the mapped expression."""
    if isinstance(n, dict):
        if n.get("k") == "path" and n.get("res") == "local" and n.get("name") in mapping:
            return mapping[n["name"]]
        return {k_: subst_locals(v, mapping) for k_, v in n.items()}
    if isinstance(n, list):
        return [subst_locals(x, mapping) for x in n]
    return n


def src_pat(p):
    if p["p"] == "expr":
        e = p["e"]
        return e.get("path", str(e.get("v"))).rsplit("::", 1)[-1]
    if p["p"] == "tuplestruct":
        return p["path"].get("path", "?").rsplit("::", 1)[-1]
    return p["p"]


# ---------------------------------------------------------------------------------
# simulator over the extracted tables
# ---------------------------------------------------------------------------------
class Sim:
    def __init__(self, w):
        self.w = w
        self.tb = tables.parser_tables(w)
        self.reset()
        self._modes = {}

    def reset(self, state="Ground"):
        self.state = state
        self.inter = None
        self.params = [[0]]
        self.events = []

    def feed(self, s):
        for ch in s:
            self.step(ord(ch))
        return self

    def step(self, c):
        tb = self.tb
        out = tb.step(self.state, c, tables.NONE if self.inter is None else self.inter)
        for a in out.actions:
            if a == "clear":
                self.inter = None
                self.params = [[0]]
            elif a == "collect":
                self.inter = c
            elif a == "param":
                if c == 0x3B:
                    if len(self.params) < 32:
                        self.params.append([0])
                elif c == 0x3A:
                    if len(self.params[-1]) < 6:
                        self.params[-1].append(0)
                else:
                    self.params[-1][-1] = (self.params[-1][-1] * 10 + (c - 0x30)) & 0xFFFF
            elif a == "noop":
                pass
            else:
                raise H.Unsupported("action %s" % a)
        if out.next_state:
            self.state = out.next_state
        if out.result is not None:
            self.events.append(self.concretise(tables.describe(out.result), c))

    def pval(self, k):
        return self.params[k][0] if k < len(self.params) else 0

    def concretise(self, d, c):
        if d is None:
            return None
        if isinstance(d, tuple) and d and d[0] == "switch":
            _, scrut, cases, default = d
            v = self.concretise(scrut, c)
            return self.concretise(cases.get(v, default), c) if (v in cases or default is not None) else None
        if isinstance(d, tuple) and d and d[0] == "param":
            return self.pval(d[1])
        if isinstance(d, tuple) and d and d[0] == "modes":
            fn = d[1]
            if fn not in self._modes:
                self._modes[fn] = tables.mode_table(self.w, fn)
            table, default = self._modes[fn]
            return tuple(x for x in (table.get(p[0], default) for p in self.params) if x is not None)
        if isinstance(d, tuple) and d and d[0] == "collect":
            return ("sgr", tuple(tuple(p) for p in self.params))
        if isinstance(d, tuple) and d and d[0] == "char":
            return ("char", d[1])
        if isinstance(d, tuple):
            return tuple(self.concretise(x, c) if isinstance(x, tuple) else x for x in d)
        return d


def functions(events):
    return [e for e in events if e is not None]
