"""C17 - save/restore cursor round-trips the full context, per screen."""
import hir as H
import mir as M
import world as WD
from rules import shared

SAVE_SPELLINGS = [("Decsc", None), ("Scosc", None), ("Decset", "parser::DecMode::SaveCursor"), ("Decset", "parser::DecMode::SaveCursorAltScreenBuffer")]
RESTORE_SPELLINGS = [("Decrc", None), ("Scorc", None), ("Decrst", "parser::DecMode::SaveCursor"), ("Decrst", "parser::DecMode::SaveCursorAltScreenBuffer")]


def routines(w, S, R):
    """(save routine, restore routine): the functions that directly write all
    of / read all of the active saved context's fields."""
    E = w.E
    sc = R["saved_ctx"]
    save = restore = None
    for f in sorted(w.handler_reach("Decsc")):
        if any(p[:2] == ("arg1", sc) and len(p) == 3 for ps in E.stmt_writes[f].values() for p in ps):
            save = f
        elif any(p == ("arg1", sc) and WD.strip_names(t)[0] == "adt" for f2, pt, p, t in w.assign_sites({f}, lambda p: p == ("arg1", sc))):
            save = f                  # the context is built as one struct literal
    for f in sorted(w.handler_reach("Decrc")):
        if any(p[:2] == ("arg1", sc) and len(p) == 3 for ps in E.stmt_reads[f].values() for p in ps):
            restore = f
    return save, restore


def arm_calls(w, h, variant_path, callee):
    """Call sites of `callee` (transitively through functions of the scope) in
    the arm of handler h selected by variant_path (None = whole body)."""
    E = w.E
    if variant_path is None:
        lines = None
    else:
        m, i, arm = shared.arm_for(w, h, variant_path)
        if arm is None:
            return None, None
        lines = {n.get("line") for n in H.walk(arm["body"]) if isinstance(n.get("line"), int)}
    out = []
    allc = []
    for cs in E.call_sites(h):
        if lines is not None and cs.line not in lines:
            continue
        allc.append(cs)
        if cs.local and (cs.callee == callee or callee in E.reachable_fns([cs.callee])):
            out.append(cs)
    return out, allc


def extra_guards(w, h, block):
    """Guards of a block other than loop/iterator/match-dispatch conditions."""
    out = []
    for c, v in w.guards_of(h, block):
        if c[0] == "discr":
            continue          # match on an enum value / Option from an iterator
        out.append((c, v))
    return out


def _run(ctx, w, embedded=False):
    S = shared.screen(w)
    R = shared.roles(w)
    E = w.E
    cur, sc, psc = R["cursor"], R["saved_ctx"], R["parked_saved_ctx"]
    if embedded:
        ctx = _Quiet(ctx)
    ctx.explanation = ("Save/restore is decided as a field pairing extracted from the save and restore routines (inverse bijection over every field of the saved-context "
                       "type), call-graph rules for the eight spellings, swap discipline for the per-screen contexts, a frame rule and the clamp of the re-layout routine.")
    ctx.decided = ["S1 save writes every field of the context from its live counterpart; restore writes each counterpart back from that field and nothing else", "S2 all four save and four restore spellings reach those routines unconditionally",
                   "S3 the two contexts are exchanged exactly where the two screen buffers are", "S4 nothing but save / reset / switch / re-layout writes a saved context",
                   "S5 the re-layout routine bounds the saved position by the new size on every path", "S6 the default context equals the power-on values"]
    ctx.not_decided = ["arithmetic of 'still inside the screen' beyond the presence and shape of the clamp"]
    ctx.exhaustive = True
    save, restore = routines(w, S, R)
    if not save or not restore:
        ctx.missing_anchor("S1", "save / restore routines", "(save=%s restore=%s)" % (save, restore))
        return
    ctx_fields = [f["name"] for f in w.facts.struct_fields(R["saved_ctx_ty"])]

    # ---- S1 ---------------------------------------------------------------------------------
    ctx.rule("S1", "save: every field of the saved context := its live counterpart; restore: each counterpart := that field; the maps are inverse and total")
    must = w.mustwrite.must(save)
    smap = {}
    for fn, pt, p, t in w.assign_sites({save}, lambda p: p[:2] == ("arg1", sc) and len(p) == 3):
        smap.setdefault(p[2], []).append(WD.strip_names(t))
    whole = False
    for fn, pt, p, t in w.assign_sites({save}, lambda p: p == ("arg1", sc)):
        t = WD.strip_names(t)
        if t[0] == "adt" and len(t) >= 5 and len(t[3]) == len(t[4]):
            whole = whole or ("arg1", sc) in must
            for nm, op in zip(t[3], t[4]):
                smap.setdefault(nm, []).append(op)
    cols_t = ("load", ("arg1", R["cols"]))
    live_of = {}
    for f in ctx_fields:
        ok = (("arg1", sc, f) in must or whole) and len(smap.get(f, [])) == 1
        t = smap.get(f, [None])[0]
        src = None
        if ok:
            n = shared.norm_term(t)
            if n[0] == "load" and n[1][0] == "arg1":
                src = n[1]
            elif n[0] == "min" and len(n) == 3:
                a = [x for x in n[1:] if x[0] == "load"]
                b = [x for x in n[1:] if x == ("binop", "Sub", cols_t, ("const", 1))]
                if a and b:
                    src = a[0][1]           # column clamped to the last real column
            ok = src is not None
        live_of[f] = src
        ctx.check(ok, "S1", "save:" + f, "the save routine %s does not store field `%s` from a live counterpart on every path (value: %s)" % (save, f, w.tstr(save, t) if t else None),
                  loc=w.fn_loc(save), sample={"field": f, "saved_from": w.tstr(save, t) if t else None})
    rmap = {}
    rsites = w.assign_sites({restore})
    rmust = w.mustwrite.must(restore)
    for fn, pt, p, t in rsites:
        rmap.setdefault(p, []).append((pt, WD.strip_names(t)))
    for f in ctx_fields:
        tgt = live_of.get(f)
        if tgt is None:
            continue
        ws = rmap.get(tgt, [])
        ok = tgt in rmust and len(ws) == 1 and ws[0][1] == ("load", ("arg1", sc, f))
        ctx.check(ok, "S1", "restore:" + f, "the restore routine %s does not set %s to exactly the saved `%s` on every path (writes: %s)" % (restore, M.path_str(tgt), f, [w.tstr(restore, x[1]) for x in ws]),
                  loc=w.fn_loc(restore), sample={"field": f, "restored_to": M.path_str(tgt), "value": [w.tstr(restore, x[1]) for x in ws]})
    # nothing else is written by restore, except clearing wrap-pending
    extra = [p for p in rmap if p not in set(live_of.values())]
    pw = ("arg1", R["pending_wrap"])
    ok = set(extra) == {pw} and all(t == ("const", False) for _, t in rmap.get(pw, [])) and pw in rmust
    ctx.check(ok, "S1", "restore:extra", "besides the saved fields the restore routine must only clear wrap-pending; it writes %s" % sorted(M.path_str(p) for p in extra), loc=w.fn_loc(restore),
              sample={"extra_writes": sorted(M.path_str(p) for p in extra)})
    indirect = sorted(M.path_str(p) for cs in E.call_sites(restore) for p in cs.W if p[0] == "arg1")
    ctx.check(not indirect, "S1", "restore:calls", "the restore routine modifies state through calls (%s): the restored values are no longer exactly the saved ones" % indirect[:4], loc=w.fn_loc(restore))
    ctx.floor("S1", 2 * 5, "context fields (both directions)")

    # ---- S2 ------------------------------------------------------------------------------------
    ctx.rule("S2", "each of the four save spellings reaches the save routine and each of the four restore spellings the restore routine, unconditionally")
    for spell, target, nm in [(s, save, "save") for s in SAVE_SPELLINGS] + [(s, restore, "restore") for s in RESTORE_SPELLINGS]:
        v, mode = spell
        for h in w.handler(v):
            calls, allc = arm_calls(w, h, mode, target)
            key = "%s%s->%s" % (v, "[%s]" % mode.rsplit("::", 1)[1] if mode else "", nm)
            if calls is None:
                ctx.violation("S2", key, "no arm for %s in %s" % (mode, h), loc=w.fn_loc(h))
                continue
            if not calls and h == target:
                ctx.ok("S2", key, {"spelling": key, "direct": True})
                continue
            ok = len(calls) >= 1
            if ok:
                eg = extra_guards(w, h, calls[0].point[0])
                ok = not eg
                why = "the call is conditional on %s" % [(w.tstr(h, c), val) for c, val in eg]
            else:
                why = "no call reaches it"
            ctx.check(ok, "S2", key, "%s does not always reach the %s routine %s: %s" % (key, nm, target, why), loc=w.site_loc(calls[0]) if calls else w.fn_loc(h),
                      sample={"spelling": key, "via": calls[0].callee if calls else None})
    ctx.floor("S2", 8, "spellings")

    # ---- S3 -------------------------------------------------------------------------------------------
    ctx.rule("S3", "the saved contexts are exchanged exactly where the screen buffers are exchanged (same function, same guard) and nowhere else")
    swaps_b, swaps_c = {}, {}
    for f in sorted(S.terminal_scope):
        T = w.terms(f)
        for cs in E.call_sites(f):
            if cs.callee.endswith("mem::swap"):
                a = [WD.strip_names(T.operand(x, cs.point)) for x in cs.term["args"]]
                paths = sorted(x[2][1][1] for x in a if x[0] == "ref" and x[2][0] == "load" and len(x[2][1]) == 2)
                if paths == sorted(S.buffer_fields):
                    swaps_b.setdefault(f, []).append(cs)
                elif paths == sorted([sc, psc]):
                    swaps_c.setdefault(f, []).append(cs)
    for f in sorted(set(swaps_b) | set(swaps_c)):
        nb, nc = len(swaps_b.get(f, [])), len(swaps_c.get(f, []))
        ok = nb == nc == 1
        if ok:
            gb = [(WD.strip_names(c), v) for c, v in w.guards_of(f, swaps_b[f][0].point[0])]
            gc = [(WD.strip_names(c), v) for c, v in w.guards_of(f, swaps_c[f][0].point[0])]
            ok = gb == gc
        ctx.check(ok, "S3", f, "%s swaps the buffers %d time(s) and the saved contexts %d time(s) (or under different guards): the screens and their saved cursors get out of step" % (f, nb, nc),
                  loc=w.fn_loc(f), sample={"fn": f, "buffer_swaps": nb, "context_swaps": nc})
    ctx.check(len(swaps_b) >= 2, "S3", "sites", "expected the two buffer-switch routines, found swaps in %s" % sorted(swaps_b))
    # writers of the parked context
    allowed = set(swaps_c) | set(w.handler_reach("Ris"))
    for fn in sorted(w.bodies):
        if S._impl_of(fn) != S.term_ty:
            continue
        direct = [pt for pt, ps in E.stmt_writes[fn].items() if any(p[:2] == ("arg1", psc) for p in ps)]
        via = [cs for cs in E.call_sites(fn) if not cs.local and any(p[:2] == ("arg1", psc) for p in cs.W)]
        if direct or via:
            is_ctor = any(s["k"] == "assign" and s["rv"]["k"] == "aggregate" and s["rv"].get("adt") == S.term_ty for bl in w.body(fn).blocks for s in bl["stmts"])
            ctx.check(fn in allowed or is_ctor, "S3", "parked-writer:" + fn, "%s writes the parked screen's saved context" % fn, loc=w.fn_loc(fn), sample={"writer": fn})

    # ---- S4 frame -------------------------------------------------------------------------------------------------
    ctx.rule("S4", "no control function other than save, the resets, the screen switches and (position only) the re-layout writes a saved context")
    writers_ok = {"Decsc", "Scosc", "Decset", "Decrst", "Decstr", "Ris", "Xtwinops"}
    for v in w.anchors["function_variants"]:
        W = w.handler_W(v)
        hit = sorted({M.path_str(p) for p in W if p[0] == "arg1" and len(p) >= 2 and p[1] in (sc, psc)})
        if v in writers_ok:
            if v == "Xtwinops":
                pos_fields = {f for f, src_ in live_of.items() if src_ and tuple(src_[:2]) == ("arg1", cur)}
                pos_only = all(p.rsplit(".", 1)[-1] in pos_fields for p in hit)
                ctx.check(pos_only, "S4", v, "XTWINOPS may only clamp the saved position, it writes %s" % hit, loc=w.fn_loc(w.handler(v)[0]))
            else:
                ctx.ok("S4", v, {"function": v, "writes_saved_ctx": hit[:3]})
            continue
        ctx.check(not hit, "S4", v, "Function::%s writes %s: a saved cursor context must survive whatever is executed between save and restore" % (v, hit), loc=w.fn_loc(w.handler(v)[0]),
                  sample={"function": v, "writes_saved_ctx": hit})
    ctx.floor("S4", 45, "Function variants")

    clamp_rule(ctx, w, S, R)

    # ---- S6 --------------------------------------------------------------------------------------------------------------
    ctx.rule("S6", "the default saved context equals the power-on values of its live counterparts")
    dfn = "<%s as core::default::Default>::default" % R["saved_ctx_ty"]
    from rules import c19
    ctors = c19.constructor_of(w, S.term_ty)
    if dfn not in w.bodies or len(ctors) != 1:
        ctx.missing_anchor("S6", dfn)
    else:
        b = w.body(dfn)
        T = w.terms(dfn)
        agg = None
        for rb in b.return_blocks():
            agg = WD.strip_names(T.local(0, (rb, b.n_stmts(rb))))
        cfn, cpt, crv = ctors[0]
        CT = w.terms(cfn)
        cvals = {nm: WD.strip_names(CT.operand(op, cpt)) for nm, op in zip(crv["field_names"], crv["ops"])}
        if agg and agg[0] == "adt":
            d = dict(zip(agg[3], agg[4]))
            for f in ctx_fields:
                live = live_of.get(f)
                if not live:
                    continue
                want = cvals.get(live[1])
                got = d.get(f)
                if len(live) == 3:
                    # sub-field of a struct built by its own Default (cursor.col / cursor.row)
                    want = default_field(w, want, live[2])
                ok = want is not None and got == want
                ctx.check(ok, "S6", f, "SavedCtx::default().%s is %s but a fresh terminal has %s = %s" % (f, w.tstr(dfn, got) if got else None, M.path_str(live), w.tstr(cfn, want) if want else None),
                          loc=w.fn_loc(dfn), sample={"field": f, "default": w.tstr(dfn, got) if got else None})
        else:
            ctx.violation("S6", "shape", "SavedCtx::default() does not build the struct directly", loc=w.fn_loc(dfn))
    ctx.floor("S6", 5, "context fields")


def default_field(w, ctor_term, field):
    """value of `field` in the struct produced by `<T as Default>::default()`"""
    if ctor_term and ctor_term[0] == "call" and ctor_term[1].endswith("Default>::default") and ctor_term[1] in w.bodies:
        b = w.body(ctor_term[1])
        T = w.terms(ctor_term[1])
        for rb in b.return_blocks():
            t = WD.strip_names(T.local(0, (rb, b.n_stmts(rb))))
            if t[0] == "adt":
                return dict(zip(t[3], t[4])).get(field)
    return None


def clamp_rule(ctx, w, S, R):
    E = w.E
    sc = R["saved_ctx"]
    ctx.rule("S5", "the re-layout routine (run on every resize and every screen switch) bounds the active saved column by cols-1 and row by rows-1, on every path")
    if len(S.relayout_fns) != 1:
        ctx.missing_anchor("S5", "re-layout routine", "(found %s)" % sorted(S.relayout_fns))
        return
    rl = next(iter(S.relayout_fns))
    b = w.body(rl)
    T = w.terms(rl)
    ctx_fields = w.facts.struct_fields(R["saved_ctx_ty"])
    pos_fields = [f["name"] for f in ctx_fields if f["ty"]["s"] == "usize"]
    for fld in pos_fields:
        sf = ("load", ("arg1", sc, fld))
        dim = None
        ok = False
        why = "no clamp found"
        for fn, pt, p, t in w.assign_sites({rl}, lambda p: p == ("arg1", sc, fld)):
            t = shared.norm_term(t)
            # form A: if saved >= dim { saved = dim - 1 }
            if t[0] == "binop" and t[1] == "Sub" and t[3] == ("const", 1) and t[2] in (("load", ("arg1", R["cols"])), ("load", ("arg1", R["rows"]))):
                dim = t[2]
                gs = [(WD.strip_names(c), v) for c, v in w.guards_of(rl, pt[0])]
                if len(gs) == 1 and gs[0][1] is True and gs[0][0] in (("binop", "Ge", sf, dim), ("binop", "Gt", sf, ("binop", "Sub", dim, ("const", 1)))):
                    # the test itself is reached on every path
                    sw = [blk for blk in b.normal_blocks() if b.term(blk)["k"] == "switch" and WD.strip_names(T.operand(b.term(blk)["discr"], (blk, b.n_stmts(blk)))) == gs[0][0]]
                    if sw and b.every_path_to_return_hits((0, 0), {(sw[0], b.n_stmts(sw[0]))}, include_start=True):
                        ok = True
                    else:
                        why = "the bound test is skipped on some path (e.g. only performed when the size changed): a context saved on the other screen is not clamped when that screen is re-activated"
                else:
                    why = "the clamp is guarded by %s" % [(w.tstr(rl, c), v) for c, v in gs]
            # form B: saved = min(saved, dim - 1) unconditionally
            elif t[0] == "min" and sf in t[1:]:
                others = [x for x in t[1:] if x != sf]
                if others and others[0][0] == "binop" and others[0][1] == "Sub" and others[0][3] == ("const", 1):
                    dim = others[0][2]
                    ok = ("arg1", sc, fld) in w.mustwrite.must(rl)
                    why = "the min-clamp is not executed on every path"
        want_dim = None
        ctx.check(ok, "S5", fld, "re-layout routine %s: saved `%s` is not bounded by the screen size on every path: %s" % (rl, fld, why), loc=w.fn_loc(rl),
                  sample={"field": fld, "bound": w.tstr(rl, dim) if dim else None})
    # column <-> cols, row <-> rows
    ctx.floor("S5", 2, "saved position fields")
    # every screen switch is followed by the re-layout (so the context swapped in gets clamped): C02.R3 / C16.P7
    from rules import c16
    c16.relayout_after_switch(ctx, w, S, R, rule="S5b")


class _Quiet:
    """Proxy that lets another property reuse these rules without taking over
    its explanation / decided texts."""

    def __init__(self, ctx):
        object.__setattr__(self, "_c", ctx)

    def __getattr__(self, k):
        return getattr(self._c, k)

    def __setattr__(self, k, v):
        if k in ("explanation", "decided", "not_decided", "exhaustive"):
            return
        setattr(self._c, k, v)


def ris_rule(ctx, w, S, R):
    """S7: after a full reset nothing is saved on either screen."""
    ctx.rule("S7", "RIS resets BOTH saved contexts (the active screen's and the parked one) to the default context on every path")
    for h in w.handler("Ris"):
        must = w.mustwrite.must(h)
        for fld in (R["saved_ctx"], R["parked_saved_ctx"]):
            ok = ("arg1", fld) in must or ("arg1",) in must
            ctx.check(ok, "S7", "%s:%s" % (h, fld), "the reset %s does not reset `%s` on every path: a cursor saved before the reset can be restored after it" % (h, fld), loc=w.fn_loc(h),
                      sample={"handler": h, "field": fld})
            for f2, pt, p, t in w.assign_sites(set(w.handler_reach("Ris")), lambda p: p == ("arg1", fld)):
                t = WD.strip_names(t)
                okv = t[0] == "call" and t[1].endswith("Default>::default") and R["saved_ctx_ty"] in t[1]
                ctx.check(okv, "S7", "%s:%s:value" % (f2, fld), "%s sets `%s` to %s instead of the default context" % (f2, fld, w.tstr(f2, t)[:80]), loc=w.stmt_loc(f2, pt))
    # the same for the soft reset, and for every other place that replaces a saved context wholesale outside save / switch:
    # the value is the DEFAULT context (power-on values), never something assembled from the live modes
    reach = set(w.handler_reach("Decstr")) | set(w.handler_reach("Ris"))
    for f2, pt, p, t in w.assign_sites(reach, lambda p: len(p) == 2 and p[0] == "arg1" and p[1] in (R["saved_ctx"], R["parked_saved_ctx"])):
        t = WD.strip_names(t)
        okv = t[0] == "call" and t[1].endswith("Default>::default") and R["saved_ctx_ty"] in t[1]
        ctx.check(okv, "S7", "%s:%s:reset-value" % (f2, p[1]), "%s replaces `%s` by %s; after a reset nothing is saved, i.e. the context is the default one (power-on values), not a snapshot of the live modes" %
                  (f2, p[1], w.tstr(f2, t)[:90]), loc=w.stmt_loc(f2, pt), sample={"fn": f2, "field": p[1]})
    ctx.floor("S7", 2, "saved contexts reset by RIS")


def run(ctx, w, embedded=False):
    _run(ctx, w, embedded)
    ris_rule(ctx, w, shared.screen(w), shared.roles(w))
    shared.mode_rule(ctx, w, shared.screen(w), shared.roles(w), "S8")
    if not embedded:
        from rules import c03
        shared.embed(ctx, w, c03.dispatch_rules)
