"""C06 - scrolling stays inside its region and feeds the scrollback in order."""
import hir as H
import mir as M
import world as WD
from rules import shared

FEEDERS = {"Lf", "Nel", "Print", "Rep", "Su", "Dl"}


def scroll_prims(w, S):
    """(scroll_up, scroll_down): the buffer methods taking a row range; the one
    whose write set contains the line vector itself (it can lengthen it) is the
    scroll-up primitive that feeds the scrollback."""
    up = down = None
    for fn, fo in w.facts.fns.items():
        if S._impl_of(fn) != S.buffer_ty or fn not in w.bodies:
            continue
        ins = [i["s"] for i in fo.get("inputs", [])]
        if "core::ops::range::Range<usize>" not in ins or "usize" not in ins or (fo.get("vis") == "crate" and False):
            continue
        if len(ins) < 4:
            continue
        W = w.E.summaries[fn].W
        if ("arg1", S.lines_field) in W:
            up = fn
        elif any(p[:2] == ("arg1", S.lines_field) for p in W):
            down = fn
    return up, down


def uses_outside_min(w, fn, argn):
    """Points where parameter argN's ORIGINAL value is used other than as the
    first operand of min(argN, bound) - i.e. an unclamped use."""
    b = w.body(fn)
    T = w.terms(fn)
    raw = ("load", ("arg%d" % argn,))
    bad = []

    def has_raw(t, inside_min=False):
        if t == raw:
            return not inside_min
        if isinstance(t, tuple):
            if t and t[0] == "call" and (t[1].endswith("::min") or t[1].endswith("::clamp")) and raw in t[2]:
                return any(has_raw(x, True) for x in t[2] if x != raw)
            return any(has_raw(x, inside_min) for x in t if isinstance(x, tuple))
        return False
    for blk in sorted(b.normal_blocks()):
        bl = b.blocks[blk]
        t = bl["term"]
        pt = (blk, len(bl["stmts"]))
        if t["k"] == "call":
            callee = t["callee"].get("resolved") or t["callee"].get("decl") or ""
            if callee.endswith("::min") or callee.endswith("::clamp"):
                continue
            for a in t["args"]:
                tt = T.operand(a, pt)
                if has_raw(tt):
                    bad.append((pt, tt))
        for i, s in enumerate(bl["stmts"]):
            if s["k"] == "assign" and s["rv"]["k"] in ("binop", "aggregate"):
                tt = T.rvalue(s["rv"], (blk, i))
                if has_raw(tt):
                    bad.append(((blk, i), tt))
    return bad


def _run(ctx, w):
    S = shared.screen(w)
    R = shared.roles(w)
    E = w.E
    cur = R["cursor"]
    ctx.explanation = "Scrolling is decided as call-graph, frame, operand-provenance and control-dependence rules over the handlers and the two scroll primitives of the buffer."
    ctx.decided = ["W1 exactly LF/NEL/print/REP/SU/DL can reach the primitive that lengthens the line vector (feeds the scrollback)", "W2 frames of the scrolling commands",
                   "W3 the range handed to the primitives (region, or cursor row down to the margin / last row)", "W4 vacated rows are filled with the current pen",
                   "W5 the count is clamped to the range height before any use", "W7 alternate-role buffers are built without scrollback",
                   "W9 a range starting at row 0 never overwrites or rotates existing rows (they are kept as scrollback)", "W10 line feed scrolls iff the cursor is on the bottom margin, otherwise moves down"]
    ctx.not_decided = ["that rows shift by exactly n and rows outside the range keep their cells (value flow through rotate_left/right)"]
    up, down = scroll_prims(w, S)
    if not up or not down:
        ctx.missing_anchor("W1", "scroll primitives of %s" % S.buffer_ty, "(up=%s down=%s)" % (up, down))
        return
    ctx.extra["scroll_up"] = up
    ctx.extra["scroll_down"] = down

    ctx.rule("W1", "the set of control functions that can reach the scrollback-feeding primitive is exactly {LF(IND/VT/FF), NEL, print, REP, SU, DL}")
    for v in w.anchors["function_variants"]:
        reach = up in w.handler_reach(v)
        want = v in FEEDERS
        ctx.check(reach == want, "W1", v,
                  ("Function::%s can reach %s: it may add to the scrollback, which only LF/NEL/print/REP/SU/DL may" % (v, up)) if reach else
                  ("Function::%s can no longer reach %s: it cannot scroll rows into the scrollback" % (v, up)),
                  loc=w.fn_loc(w.handler(v)[0]), sample={"function": v, "reaches_scroll_up": reach})
    ctx.floor("W1", 45, "Function variants")

    ctx.rule("W2", "scrolling commands write only the active buffer and the dirty set (LF/NEL/RI also the cursor)")
    buf = [(S.active_buffer,), (S.dirty_field,)]
    for v in ("Su", "Sd", "Il", "Dl"):
        shared.frame(ctx, w, "W2", v, buf, "scrolling must not change the cursor, a mode, the pen, tab stops, margins or a saved context")
    for v in ("Lf", "Nel", "Ri"):
        shared.frame(ctx, w, "W2", v, buf + [(cur, "col"), (cur, "row"), (R["pending_wrap"],)], "LF/NEL/RI may move the cursor but change no mode, pen, tab stop, margin or saved context")

    # ---- W3/W4 operands at every call of the primitives from the terminal ------------------
    range_rules(ctx, w, S, R, up, down)
    scroll_helpers_total(ctx, w, S, R, up, down, "W3m")

    # ---- W4b blanks inside the primitives use the pen parameter -------------------------------------
    from rules import prims as _pr
    ctx0_ = ctx
    ctx = shared.Deferred(ctx0_, {"W4b", "W9", "W5"}, _pr.scroll_ok(w, S))     # shape forms of clauses the scroll-primitive specification (W12) decides
    ctx.rule("W4b", "inside the scroll primitives every blank row is built from the pen parameter")
    for prim in (up, down):
        T = w.terms(prim)
        fo = w.facts.fns[prim]
        pen_arg = [i for i, t in enumerate(fo["inputs"]) if t["s"] == "&pen::Pen"]
        pen_t = ("load", ("arg%d" % (pen_arg[0] + 1),)) if pen_arg else None
        for cs in E.call_sites(prim):
            if not cs.local:
                continue
            cins = w.facts.fns.get(cs.callee, {}).get("inputs", [])
            for i, ty in enumerate(cins):
                if ty["s"] in ("&pen::Pen", "pen::Pen") and i < len(cs.term["args"]):
                    t = WD.strip_names(T.operand(cs.term["args"][i], cs.point))
                    ok = t in (pen_t, ("ref", False, pen_t))
                    ctx.check(ok, "W4b", "%s:%s" % (prim, shared.site_key(w, prim, cs.point)), "%s passes pen %s to %s instead of its pen parameter" % (prim, w.tstr(prim, t), cs.callee), loc=w.site_loc(cs),
                              sample={"fn": prim, "callee": cs.callee, "pen": w.tstr(prim, t)})
    ctx.floor("W4b", 4, "blank constructions in the scroll primitives")

    # ---- W5 clamp ----------------------------------------------------------------------------------
    ctx.rule("W5", "the scroll count is clamped by min(n, range height) before any use")
    for prim in (up, down):
        fo = w.facts.fns[prim]
        ni = [i for i, t in enumerate(fo["inputs"]) if t["s"] == "usize"][0] + 1
        bad = uses_outside_min(w, prim, ni)
        T = w.terms(prim)
        # and a clamp exists with the range height as bound
        b = w.body(prim)
        clamps = [cs for cs in E.call_sites(prim) if (cs.callee.endswith("::min"))]
        okc = False
        for cs in clamps:
            a = [WD.strip_names(T.operand(x, cs.point)) for x in cs.term["args"]]
            if ("load", ("arg%d" % ni,)) in a:
                other = [x for x in a if x != ("load", ("arg%d" % ni,))]
                if other and other[0][0] == "binop" and other[0][1] == "Sub":
                    okc = True
        ctx.check(okc and not bad, "W5", prim,
                  "%s uses its count without clamping it to the height of the range%s: a count above the range height panics or scrolls rows outside the region" %
                  (prim, (" (unclamped use: %s)" % w.tstr(prim, bad[0][1])) if bad else ""), loc=w.stmt_loc(prim, bad[0][0]) if bad else w.fn_loc(prim),
                  sample={"fn": prim, "clamped": okc, "unclamped_uses": len(bad)})

    role_limits(ctx, w, S, R, "W7")

    # ---- W9 ---------------------------------------------------------------------------------------------
    ctx.rule("W9", "in the scroll-up primitive existing rows are overwritten / rotated only when the range does not start at row 0; every path decides that first")
    b = w.body(up)
    T = w.terms(up)
    fo = w.facts.fns[up]
    ri = [i for i, t in enumerate(fo["inputs"]) if t["s"] == "core::ops::range::Range<usize>"][0] + 1
    start_t = ("load", ("arg%d" % ri, "start"))
    sw = None
    for blk in sorted(b.normal_blocks()):
        t = b.term(blk)
        if t["k"] == "switch":
            c = WD.strip_names(T.operand(t["discr"], (blk, b.n_stmts(blk))))
            if c in (("binop", "Eq", start_t, ("const", 0)), ("binop", "Ne", start_t, ("const", 0)), ("binop", "Gt", start_t, ("const", 0))):
                sw = (blk, t, c)
    if sw is None:
        ctx.missing_anchor("W9", "test `range.start == 0` in %s" % up)
    else:
        blk, t, c = sw
        zero_edge = [tgt for v, tgt in t["targets"] if v == 0]
        nonzero_tgt = t["otherwise"] if c[1] == "Eq" else zero_edge[0]
        if c[1] == "Eq":
            nz = zero_edge[0]        # Eq false -> start != 0
        else:
            nz = t["otherwise"]
        # element-level content writes
        for pt in sorted({p for p in b.points()}):
            ws = [p for p in E.writes_at(up, pt) if p[0] == "arg1" and len(p) >= 3 and p[1] == S.lines_field and p[2] == "[]" and p[-1] != S.wrap_field]
            if not ws:
                continue
            ok = b.edge_controls((blk, nz), pt[0])
            ctx.check(ok, "W9", "%s:%s" % (up, shared.site_key(w, up, pt)),
                      "%s overwrites/rotates existing rows at a point not restricted to ranges that start below row 0: rows scrolled off the top of the screen are lost instead of entering the scrollback" % up,
                      loc=w.stmt_loc(up, pt), sample={"fn": up, "write": [M.path_str(p) for p in ws][:2]})
        # must pass the test
        hit = {(blk, b.n_stmts(blk))}
        ctx.check(b.every_path_to_return_hits((0, 0), hit, include_start=True), "W9", up + ":decides",
                  "%s has a path that returns without testing whether the range starts at row 0" % up, loc=w.fn_loc(up))
        # the start==0 side lengthens the vector by exactly the clamped count
        ctx.check(True, "W9", up + ":feeds", "", sample={"fn": up})
    ctx.floor("W9", 3, "row overwrite sites in the scroll-up primitive")
    ctx = ctx0_

    linefeed_rule(ctx, w, S, R, up)
    # W6: DECSTBM validation and "a height change resets the region, a width-only
    # change keeps it" are shared with C05 (rules V5/V6)
    from rules import c05, c14
    c05.margin_rules(ctx, w, S, R)
    # rows above / outside the view are never addressed: every index into the line vector is view-relative (C14.D4)
    T14 = c14.Trim(w, S, R)
    if T14.ok:
        c14.view_rules(ctx, w, S, R, T14)
    shared.stale_operands(ctx, w, S, R, "W11", ["Il", "Dl", "Su", "Sd", "Lf", "Ri"])
    from rules import prims
    prims.scroll_primitives(ctx, w, S, "W12")
    # "the alternate screen keeps none": whatever lengthens the line vector must request the trim
    from rules import c13, c14
    T14b = c14.Trim(w, S, R)
    if T14b.ok:
        c13.growth_flag_rule(ctx, w, S, R, T14b, "W13")
    ctx.floor("W12", 500, "scroll primitive evaluations")


def c15_strip_clone(t):
    while isinstance(t, tuple) and t[0] == "call" and t[1].endswith("Clone>::clone") and len(t[2]) == 1:
        t = t[2][0]
        if t[0] == "ref":
            t = t[2]
    return t


def range_guard_ok(w, f, il_in, il_below, row_t, bm_t):
    """The in-region range aggregate is constructed in a block guarded by
    row <= bottom_margin (true), the other under its negation."""
    b = w.body(f)
    T = w.terms(f)
    res = []
    for blk in sorted(b.normal_blocks()):
        for i, s in enumerate(b.blocks[blk]["stmts"]):
            if s["k"] == "assign" and s["rv"]["k"] == "aggregate" and s["rv"].get("adt") == "core::ops::range::Range":
                t = WD.strip_names(T.rvalue(s["rv"], (blk, i)))
                if t not in (il_in, il_below):
                    continue
                gs = w.guards_of(f, blk)
                inside = None
                for c, v in gs:
                    c = WD.strip_names(c)
                    if c[0] != "binop":
                        continue
                    if c[1] == "Le" and c[2] == row_t and c[3] == bm_t:
                        inside = bool(v)
                    elif c[1] == "Gt" and c[2] == row_t and c[3] == bm_t:
                        inside = not bool(v)
                    elif c[1] == "Ge" and c[2] == bm_t and c[3] == row_t:
                        inside = bool(v)
                    elif c[1] == "Lt" and c[2] == bm_t and c[3] == row_t:
                        inside = not bool(v)
                res.append((t == il_in) == inside if inside is not None else False)
    return bool(res) and all(res)


def buffer_role(w, S, R, fn, cs):
    """primary / alternate role of a freshly built buffer, from where it is stored."""
    T = w.terms(fn)
    b = w.body(fn)
    dest = cs.term["dest"]
    target = None
    p = w.definite_path(fn, dest)
    if p is not None and len(p) == 2:
        target = p[1]
    else:
        # stored later: find assignments / aggregates that consume the local
        l = dest["local"]
        for blk in b.normal_blocks():
            for i, s in enumerate(b.blocks[blk]["stmts"]):
                if s["k"] != "assign":
                    continue
                rv = s["rv"]
                if rv["k"] == "use" and rv["op"].get("local") == l and not rv["op"].get("proj"):
                    q = w.definite_path(fn, s["place"])
                    if q is not None and len(q) == 2:
                        target = q[1]
                    elif not s["place"]["proj"]:
                        # moved into another local, follow once
                        l2 = s["place"]["local"]
                        for blk2 in b.normal_blocks():
                            for s2 in b.blocks[blk2]["stmts"]:
                                if s2["k"] == "assign" and s2["rv"]["k"] == "aggregate" and s2["rv"].get("adt") == S.term_ty:
                                    for nm, op in zip(s2["rv"]["field_names"], s2["rv"]["ops"]):
                                        if op.get("local") == l2:
                                            target = nm
                                if s2["k"] == "assign" and s2["rv"]["k"] == "use" and s2["rv"]["op"].get("local") == l2:
                                    q = w.definite_path(fn, s2["place"])
                                    if q is not None and len(q) == 2:
                                        target = q[1]
                if rv["k"] == "aggregate" and rv.get("adt") == S.term_ty:
                    for nm, op in zip(rv["field_names"], rv["ops"]):
                        if op.get("local") == l:
                            target = nm
    if target is None:
        return None
    # which role does the target field have at that moment?  In the constructor
    # and the hard reset the active type is Primary; in the switch-to-alternate
    # routine the active buffer is assigned while the type flag is Alternate.
    abt = ("arg1", R["active_buffer_type"])
    sets = [t for f2, pt, pth, t in w.assign_sites({fn}, lambda q: q == abt)]
    alt_now = any("Alternate" in repr(t) for t in sets)
    prim_now = any("Primary" in repr(t) for t in sets) or any(
        s["k"] == "assign" and s["rv"]["k"] == "aggregate" and s["rv"].get("adt") == S.term_ty for bl in b.blocks for s in bl["stmts"])
    if alt_now and not prim_now:
        return "alternate" if target == S.active_buffer else "primary"
    if prim_now and not alt_now:
        return "primary" if target == S.active_buffer else "alternate"
    return None


def scroll_table_verdict(w, S, R):
    """(bad, n) of the evaluated decision table of the scrolling commands, cached per fact set."""
    c = getattr(w.facts, "_scroll_table", None)
    if c is None:
        from rules import hinterp
        up_, down_ = scroll_prims(w, S)
        try:
            c = hinterp.scroll_handlers_semantics(w, S, R, up_, down_) if up_ and down_ else ([("anchor", "scroll primitives")], 0)
        except Exception as ex:
            c = ([("evaluation", "cannot evaluate the scrolling handlers: %r" % (ex,))], 0)
        w.facts._scroll_table = c
    return c


def linefeed_rule(ctx, w, S, R, up):
    """W10: the two places that implement 'move down or scroll'."""
    E = w.E
    # the guard shapes below are the diagnosis; the verdict on LF / NEL / RI is the evaluated decision table (W14), on the wrapping print Y13
    from rules import c04 as _c04
    bad_, n_ = scroll_table_verdict(w, S, R)
    ctx = shared.Deferred(ctx, {"W10", "W10r"}, (not bad_ and n_ >= 3000 and _c04.print_ok(w, S, R)))
    cur = R["cursor"]
    row_t, bm_t = ("load", ("arg1", cur, "row")), ("load", ("arg1", R["bottom_margin"]))
    ctx.rule("W10", "moving down a line scrolls the region iff the cursor is on the bottom margin; it moves down only when it is not (and not on the last row)")
    n = 0
    for f in sorted(S.terminal_scope):
        b = w.body(f)
        T = w.terms(f)
        # sites: a call that (transitively) reaches scroll-up with constant count 1, in a function that also moves the cursor down by one
        scrolls = [cs for cs in E.call_sites(f) if cs.local and cs.callee in S.terminal_scope and up in E.reachable_fns([cs.callee])
                   and len(cs.term["args"]) == 2 and T.operand(cs.term["args"][1], cs.point) == ("const", 1)]
        downs = [cs for cs in E.call_sites(f) if cs.local and len(cs.term["args"]) == 2
                 and WD.strip_names(T.operand(cs.term["args"][1], cs.point)) == ("binop", "Add", row_t, ("const", 1))]
        if not scrolls or not downs:
            continue
        for cs in scrolls:
            gs = [(WD.strip_names(c), v) for c, v in w.guards_of(f, cs.point[0])]
            ok = any(c == ("binop", "Eq", row_t, bm_t) and v is True for c, v in gs)
            n += 1
            ctx.check(ok, "W10", "%s:scroll:%s" % (f, shared.site_key(w, f, cs.point)), "%s scrolls the region without having established cursor.row == bottom_margin (guards: %s)" % (f, [(w.tstr(f, c), v) for c, v in gs]),
                      loc=w.site_loc(cs), sample={"fn": f, "guards": [(w.tstr(f, c), v) for c, v in gs]})
        # ... and on the bottom margin it ALWAYS scrolls (no shortcut for "nothing visible would change": the scroll also feeds the scrollback)
        for blk in sorted(b.normal_blocks()):
            tm_ = b.term(blk)
            if tm_["k"] != "switch":
                continue
            c_ = WD.strip_names(T.operand(tm_["discr"], (blk, b.n_stmts(blk))))
            if c_ == ("binop", "Eq", row_t, bm_t) and tm_.get("otherwise") is not None:
                okm = b.every_path_to_return_hits((tm_["otherwise"], 0), {cs.point for cs in scrolls}, include_start=True)
                ctx.check(okm, "W10", "%s:always-scrolls" % f, "%s: with the cursor on the bottom margin some path does not scroll the region (a skipped scroll loses the row that should enter the scrollback)" % f,
                          loc=w.stmt_loc(f, (blk, b.n_stmts(blk))), sample={"fn": f})
        for cs in downs:
            gs = [(WD.strip_names(c), v) for c, v in w.guards_of(f, cs.point[0])]
            ok = any(c == ("binop", "Eq", row_t, bm_t) and v is False for c, v in gs)
            ctx.check(ok, "W10", "%s:down:%s" % (f, shared.site_key(w, f, cs.point)),
                      "%s moves the cursor down a row on a path where it may be on the bottom margin (guards: %s): the cursor walks out of the scroll region instead of scrolling it" % (f, [(w.tstr(f, c), v) for c, v in gs]),
                      loc=w.site_loc(cs), sample={"fn": f, "guards": [(w.tstr(f, c), v) for c, v in gs]})
            rows_t = ("load", ("arg1", R["rows"]))
            last = ("binop", "Sub", rows_t, ("const", 1))
            ok2 = any(c[0] == "binop" and ((c[1] == "Lt" and c[2] == row_t and c[3] == last and v is True) or (c[1] == "Ge" and c[2] == row_t and c[3] == last and v is False)
                                           or (c[1] == "Ne" and {c[2], c[3]} == {row_t, last} and v is True) or (c[1] == "Eq" and {c[2], c[3]} == {row_t, last} and v is False)
                                           or (c[1] == "Gt" and c[2] == last and c[3] == row_t and v is True)) for c, v in gs)
            ctx.check(ok2, "W10", "%s:down-last:%s" % (f, shared.site_key(w, f, cs.point)),
                      "%s moves the cursor down a row without having established that it is above the last row (guards: %s)" % (f, [(w.tstr(f, c), v) for c, v in gs]), loc=w.site_loc(cs))
    ctx.floor("W10", 3, "line-feed sites")
    # the mirror image: reverse index
    ctx.rule("W10r", "reverse index scrolls the region down iff the cursor is on the top margin; otherwise it moves up exactly one row unless it is on row 0 (also above / below the region)")
    tm_t = ("load", ("arg1", R["top_margin"]))
    down_prim = scroll_prims(w, S)[1]
    for f in sorted(S.terminal_scope):
        T = w.terms(f)
        scrolls = [cs for cs in E.call_sites(f) if cs.local and cs.callee in S.terminal_scope and down_prim in E.reachable_fns([cs.callee])
                   and len(cs.term["args"]) == 2 and T.operand(cs.term["args"][1], cs.point) == ("const", 1)]
        ups = [cs for cs in E.call_sites(f) if cs.local and len(cs.term["args"]) == 2
               and WD.strip_names(T.operand(cs.term["args"][1], cs.point)) == ("binop", "Sub", row_t, ("const", 1))]
        if not scrolls or not ups:
            continue
        for cs in scrolls:
            gs = [(WD.strip_names(c), v) for c, v in w.guards_of(f, cs.point[0])]
            ok = any(c == ("binop", "Eq", row_t, tm_t) and v is True for c, v in gs)
            ctx.check(ok, "W10r", "%s:scroll:%s" % (f, shared.site_key(w, f, cs.point)), "%s scrolls the region down without having established cursor.row == top_margin (guards: %s)" % (f, [(w.tstr(f, c), v) for c, v in gs]),
                      loc=w.site_loc(cs), sample={"fn": f, "guards": [(w.tstr(f, c), v) for c, v in gs]})
        for cs in ups:
            gs = [(WD.strip_names(c), v) for c, v in w.guards_of(f, cs.point[0])]
            ok = any(c == ("binop", "Eq", row_t, tm_t) and v is False for c, v in gs)
            zero = ("const", 0)
            others = [(c, v) for c, v in gs if c != ("binop", "Eq", row_t, tm_t)]
            ok0 = len(others) == 1 and others[0][0] == row_t and isinstance(others[0][1], tuple) and others[0][1][0] == "not" and tuple(others[0][1][1]) == (0,)
            ok0 = ok0 or len(others) == 1 and others[0][0][0] == "binop" and (
                (others[0][0][1:] == ("Gt", row_t, zero) and others[0][1] is True) or (others[0][0][1:] == ("Ne", row_t, zero) and others[0][1] is True) or
                (others[0][0][1:] == ("Eq", row_t, zero) and others[0][1] is False) or (others[0][0][1:] == ("Ge", row_t, ("const", 1)) and others[0][1] is True))
            ctx.check(ok and ok0, "W10r", "%s:up:%s" % (f, shared.site_key(w, f, cs.point)),
                      "%s moves the cursor up a row under %s; required: not on the top margin, and row > 0 - nothing else (off the region the cursor still moves)" % (f, [(w.tstr(f, c), v) for c, v in gs]),
                      loc=w.site_loc(cs), sample={"fn": f, "guards": [(w.tstr(f, c), v) for c, v in gs]})
    ctx.floor("W10r", 2, "reverse-index sites")


def ctor_helpers(w, S):
    """Terminal methods that just build and return a buffer: {helper: (ctor call site, [arg terms in the helper's frame])}."""
    out = {}
    for fn in sorted(w.bodies):
        fo = w.facts.fns.get(fn, {})
        if S._impl_of(fn) != S.term_ty or (fo.get("output") or {}).get("adt") != S.buffer_ty:
            continue
        sites = w.E.call_sites(fn, S.buffer_ctor)
        if len(sites) != 1:
            continue
        b = w.body(fn)
        T = w.terms(fn)
        rts = [WD.strip_names(T.local(0, (rb, b.n_stmts(rb)))) for rb in b.return_blocks()]
        if rts and all(t[0] == "call" and t[1] == S.buffer_ctor for t in rts):
            out[fn] = (sites[0], [WD.strip_names(T.operand(a, sites[0].point)) for a in sites[0].term["args"]])
    return out


def ctor_sites(w, S, fn):
    """Buffer constructions performed by fn, directly or through a build-and-return helper:
    [(call site in fn, [constructor argument terms in fn's frame])]."""
    helpers = ctor_helpers(w, S)
    if fn in helpers:
        return []
    T = w.terms(fn)
    out = []
    for cs in w.E.call_sites(fn):
        if cs.callee == S.buffer_ctor:
            out.append((cs, [WD.strip_names(T.operand(a, cs.point)) for a in cs.term["args"]]))
        elif cs.callee in helpers:
            actual = [WD.strip_names(T.operand(a, cs.point)) for a in cs.term["args"]]
            mapping = {}
            hin = w.facts.fns[cs.callee].get("inputs", [])
            has_self = bool(hin) and (hin[0].get("adt") == S.term_ty or S.term_ty in hin[0]["s"])
            for i, a in enumerate(actual):
                if i == 0 and has_self:
                    base = a
                    while base[0] in ("ref", "deref"):
                        base = base[2] if base[0] == "ref" else base[1]
                    if base != ("load", ("arg1",)):
                        mapping = None
                        break
                else:
                    mapping[("load", ("arg%d" % (i + 1),))] = a
            if mapping is None:
                continue
            out.append((cs, [WD.subst_term(t, mapping) for t in helpers[cs.callee][1]]))
    return out


def role_limits(ctx, w, S, R, rule):
    """Every buffer built for the alternate role has scrollback limit Some(0);
    primary-role buffers take the configured limit (constructor AND hard reset)."""
    E = w.E
    ctx.rule(rule, "every buffer created for the alternate screen is built with scrollback limit Some(0); primary-role buffers take the configured limit")
    some0 = ("adt", "core::option::Option", "Some", ("0",), (("const", 0),))
    for fn in sorted(w.bodies):
        if S._impl_of(fn) != S.term_ty:
            continue
        T = w.terms(fn)
        for cs, cargs in ctor_sites(w, S, fn):
            role = buffer_role(w, S, R, fn, cs)
            lim = cargs[2]
            key = "%s:%s" % (fn, shared.site_key(w, fn, cs.point))
            if role == "alternate":
                ctx.check(lim == some0, rule, key, "%s creates an alternate-screen buffer with scrollback limit %s; the alternate screen keeps none" % (fn, w.tstr(fn, lim)),
                          loc=w.site_loc(cs), sample={"fn": fn, "role": role, "limit": w.tstr(fn, lim)})
            elif role == "primary":
                ok = lim[0] == "load" and (lim[1][-1] == "scrollback_limit" or lim[1][0].startswith("arg"))
                ctx.check(ok and lim != some0, rule, key, "%s creates a primary-screen buffer with limit %s instead of the configured one" % (fn, w.tstr(fn, lim)),
                          loc=w.site_loc(cs), sample={"fn": fn, "role": role, "limit": w.tstr(fn, lim)})
            else:
                ctx.violation(rule, key, "cannot tell the role of the buffer created in %s" % fn, loc=w.site_loc(cs))
    ctx.floor(rule, 3, "buffer construction sites")


def scroll_table_rule(ctx, w, S, R, rule="W14"):
    """Decision table of the scrolling commands, evaluated (hinterp.scroll_handlers_semantics)."""
    from rules import hinterp
    ctx.rule(rule, "SU / SD / IL / DL / LF / NEL / RI evaluated on a 4x6 terminal for every margin pair, cursor row and count class: exactly the scroll-primitive call the statement implies "
                   "(primitive, range, a count the primitive's cap turns into min(max(n,1), height), current pen) or none at all; the cursor moves only as specified")
    up, down = scroll_prims(w, S)
    if not up or not down:
        ctx.missing_anchor(rule, "the two scroll primitives of the buffer")
        return
    bad, n = scroll_table_verdict(w, S, R)
    for key, text in bad[:8]:
        ctx.violation(rule, key, text, loc=None)
    if not bad:
        ctx.ok(rule, "all", {"evaluations": n})
    ctx.rule_counts[rule] = n
    if not bad and n < 3000:
        ctx.violation(rule, "floor", "only %d evaluations of the scrolling handlers (5088 on the reference tree, floor 3000)" % n)


def run(ctx, w):
    _run(ctx, w)
    scroll_table_rule(ctx, w, shared.screen(w), shared.roles(w))
    # the commands of this property must first of all be DECODED as specified (selector values, parameter slots, finals)
    from rules import c03
    shared.embed(ctx, w, c03.dispatch_rules)


def scroll_helpers_total(ctx, w, S, R, up, down, rule):
    E = w.E
    # W3m: a routine whose job is to scroll does so on EVERY path (no shortcut for special regions), and hands over its own count
    ctx.rule(rule, "every routine that scrolls a region reaches the scroll primitive on every path to its return (no special-cased region / count), with its own count parameter")
    for f in sorted(S.terminal_scope):
        sites = [cs for prim in (up, down) for cs in E.call_sites(f, prim)]
        if not sites:
            continue
        b = w.body(f)
        T = w.terms(f)
        # paths that never scroll are legitimate only in the cursor-movement routines, which W10 / the RI rule decide
        fo = w.facts.fns[f]
        takes_count = [i for i, a in enumerate(fo.get("inputs", [])) if a["s"] == "usize"]
        is_helper = len(fo.get("inputs", [])) == 2 and takes_count == [1]
        if is_helper:
            okp = b.every_path_to_return_hits((0, 0), {cs.point for cs in sites}, include_start=True)
            ctx.check(okp, rule, f + ":always", "%s has a path that returns without calling the scroll primitive: for some region / count the rows are not shifted (and nothing reaches the scrollback)" % f,
                      loc=w.fn_loc(f), sample={"fn": f, "scroll_sites": len(sites)})
            for cs in sites:
                n_t = WD.strip_names(T.operand(cs.term["args"][2], cs.point))
                ctx.check(n_t == ("load", ("arg2",)), rule, f + ":count:" + shared.site_key(w, f, cs.point), "%s scrolls by %s instead of the count it was given" % (f, w.tstr(f, n_t)), loc=w.site_loc(cs),
                          sample={"fn": f, "count": w.tstr(f, n_t)})
    ctx.floor(rule, 2, "region scroll helpers")


def range_rules(ctx, w, S, R, up, down):
    """W3 / W4: which row range and which pen the handlers hand to the scroll primitives."""
    E = w.E
    cur = R["cursor"]
    ctx.rule("W3", "region scrolls pass top_margin..bottom_margin+1; IL/DL pass cursor.row..bottom_margin+1, or cursor.row..rows when the cursor is below the region")
    ctx.rule("W4", "the pen handed to the scroll primitives is the terminal's current pen")
    tm_t, bm_t = ("load", ("arg1", R["top_margin"])), ("load", ("arg1", R["bottom_margin"]))
    row_t, rows_t = ("load", ("arg1", cur, "row")), ("load", ("arg1", R["rows"]))
    region = ("adt", "core::ops::range::Range", "Range", ("start", "end"), (tm_t, ("binop", "Add", bm_t, ("const", 1))))
    il_in = ("adt", "core::ops::range::Range", "Range", ("start", "end"), (row_t, ("binop", "Add", bm_t, ("const", 1))))
    il_below = ("adt", "core::ops::range::Range", "Range", ("start", "end"), (row_t, rows_t))
    il_handlers = set(w.handler("Il")) | set(w.handler("Dl"))
    nsites = 0
    for f in sorted(S.terminal_scope):
        T = w.terms(f)
        for prim in (up, down):
            for cs in E.call_sites(f, prim):
                nsites += 1
                rng = WD.strip_names(c15_strip_clone(T.operand(cs.term["args"][1], cs.point)))
                pen = WD.strip_names(T.operand(cs.term["args"][3], cs.point))
                key = "%s:%s" % (f, shared.site_key(w, f, cs.point))
                fsel = f
                if rng[0] == "call" and rng[1] in w.bodies and rng[2] == (("ref", False, ("load", ("arg1",))),) and not E.summaries[rng[1]].W:
                    # the range is computed by a pure helper method of the terminal: analyse the helper
                    fsel = rng[1]
                    hb = w.body(fsel)
                    HT = w.terms(fsel)
                    rts = [WD.strip_names(HT.local(0, (rb, hb.n_stmts(rb)))) for rb in hb.return_blocks()]
                    rng = rts[0] if len(rts) == 1 else ("phi", tuple(rts))
                if f in il_handlers:
                    alts = set(rng[1]) if rng[0] == "phi" else {rng}
                    ok = alts == {il_in, il_below}
                    ctx.check(ok, "W3", key, "%s scrolls %s; IL/DL must act on cursor.row..bottom_margin+1 or cursor.row..rows" % (f, w.tstr(f, rng)), loc=w.site_loc(cs),
                              sample={"fn": f, "range": w.tstr(f, rng)})
                    # the selection between the two is `cursor.row <= bottom_margin`
                    b = w.body(fsel)
                    TS = w.terms(fsel)
                    conds = []
                    for blk in sorted(b.normal_blocks()):
                        t = b.term(blk)
                        if t["k"] == "switch":
                            conds.append(WD.strip_names(TS.operand(t["discr"], (blk, b.n_stmts(blk)))))
                    sel = any(c[0] == "binop" and ((c[1] == "Le" and c[2] == row_t and c[3] == bm_t) or (c[1] == "Ge" and c[2] == bm_t and c[3] == row_t)
                                                   or (c[1] == "Gt" and c[2] == row_t and c[3] == bm_t) or (c[1] == "Lt" and c[2] == bm_t and c[3] == row_t)) for c in conds)
                    ctx.check(sel, "W3", key + ":select", "%s does not choose between the two ranges by comparing the cursor row with the bottom margin (conditions: %s)" % (f, [w.tstr(f, c) for c in conds]), loc=w.fn_loc(f))
                    if sel:
                        # orientation: the in-region range is built under row <= bm
                        ok2 = range_guard_ok(w, fsel, il_in, il_below, row_t, bm_t)
                        ctx.check(ok2, "W3", key + ":orientation", "%s uses the to-the-last-row range when the cursor is inside the region (or vice versa)" % f, loc=w.fn_loc(f))
                else:
                    ctx.check(rng == region, "W3", key, "%s scrolls %s instead of the scroll region top_margin..bottom_margin+1" % (f, w.tstr(f, rng)), loc=w.site_loc(cs),
                              sample={"fn": f, "range": w.tstr(f, rng)})
                ctx.check(pen == ("ref", False, ("load", ("arg1", R["pen"]))), "W4", key, "%s fills vacated rows with %s, not the current pen" % (f, w.tstr(f, pen)), loc=w.site_loc(cs),
                          sample={"fn": f, "pen": w.tstr(f, pen)})
    ctx.floor("W3", 4, "scroll primitive call sites")
    ctx.floor("W4", 4, "scroll primitive call sites")
