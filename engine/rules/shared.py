"""Derived structure of the screen model shared by several properties:
which fields are the screen buffers, the dirty set, the size; which functions
mark / unmark / export the dirty set; the scope of command handlers.

Everything is derived from the public API, types and effect summaries; the
few private names needed are not used here."""
import hir as H
import mir as M
import world as WD

_CACHE = {}


def screen(w):
    if id(w) not in _CACHE:
        _CACHE[id(w)] = Screen(w)
    return _CACHE[id(w)]


def site_key(w, fn, pt):
    """Line-number-free key of a statement: callee name + ordinal among the
    calls to that callee in fn (in block order), or 'assign <path>'."""
    b = w.body(fn)
    blk = b.blocks[pt[0]]
    if pt[1] == len(blk["stmts"]) and blk["term"]["k"] == "call":
        c = blk["term"]["callee"]
        name = c.get("resolved") or c.get("decl") or "<indirect>"
        n = 0
        for bb in sorted(b.normal_blocks()):
            t = b.term(bb)
            if t["k"] == "call":
                nm = t["callee"].get("resolved") or t["callee"].get("decl") or "<indirect>"
                if nm == name:
                    n += 1
                    if bb == pt[0]:
                        return "%s#%d" % (name, n)
        return name
    if pt[1] < len(blk["stmts"]):
        s = blk["stmts"][pt[1]]
        if s["k"] == "assign":
            p = w.definite_path(fn, s["place"])
            return "assign " + (M.path_str(p) if p else "?")
    if pt[1] == len(blk["stmts"]) and blk["term"]["k"] == "assert":
        n = 0
        for bb in sorted(b.normal_blocks()):
            if b.term(bb)["k"] == "assert" and b.term(bb)["msg"] == blk["term"]["msg"]:
                n += 1
                if bb == pt[0]:
                    return "%s#%d" % (blk["term"]["msg"], n)
    return "point"


class Screen:
    def __init__(self, w):
        self.w = w
        F = w.facts
        E = w.E
        A = w.anchors
        self.term_ty = A["terminal_ty"]
        tfields = F.struct_fields(self.term_ty)
        # Line is public API
        self.line_ty = "line::Line"
        lf = F.struct_fields(self.line_ty)
        if not lf:
            raise WD.AnchorError("public type line::Line not found")
        self.wrap_field = [f["name"] for f in lf if f["ty"]["s"] == "bool"]
        self.cells_field = [f["name"] for f in lf if f["ty"]["s"].startswith("alloc::vec::Vec<")]
        if len(self.wrap_field) != 1 or len(self.cells_field) != 1:
            raise WD.AnchorError("cannot identify Line's wrap flag / cell vector by type")
        self.wrap_field, self.cells_field = self.wrap_field[0], self.cells_field[0]
        # buffer type: the terminal field type that owns a Vec<Line>
        self.buffer_ty = None
        self.buffer_fields = []
        for f in tfields:
            adt = f["ty"].get("adt")
            sf = F.struct_fields(adt) if adt else None
            if sf and any(x["ty"]["s"] == "alloc::vec::Vec<%s>" % self.line_ty for x in sf):
                self.buffer_ty = adt
                self.buffer_fields.append(f["name"])
        if not self.buffer_ty or len(self.buffer_fields) != 2:
            raise WD.AnchorError("expected two screen-buffer fields in %s, found %s" % (self.term_ty, self.buffer_fields))
        bf = F.struct_fields(self.buffer_ty)
        self.lines_field = [x["name"] for x in bf if x["ty"]["s"] == "alloc::vec::Vec<%s>" % self.line_ty][0]
        # active buffer: the one Vt::view reads
        view_reads = {p[2] for p in E.summaries["vt::Vt::view"].R if len(p) >= 3 and p[1] == "terminal"} if "vt::Vt::view" in E.summaries else set()
        act = [b for b in self.buffer_fields if b in view_reads]
        if len(act) != 1:
            raise WD.AnchorError("cannot tell the active buffer field from Vt::view (reads %s)" % sorted(view_reads))
        self.active_buffer = act[0]
        self.parked_buffer = [b for b in self.buffer_fields if b != self.active_buffer][0]
        # size fields from Vt::size's returned tuple (cols, rows)
        self.cols_field = self.rows_field = None
        sb = w.body("vt::Vt::size")
        T = w.terms("vt::Vt::size")
        for rb in sb.return_blocks():
            t = T.local(0, (rb, sb.n_stmts(rb)))
            if t[0] == "tuple" and len(t[1]) == 2 and all(x[0] == "load" and len(x[1]) == 3 for x in t[1]):
                self.cols_field, self.rows_field = t[1][0][1][2], t[1][1][1][2]
        if not self.cols_field:
            raise WD.AnchorError("cannot derive the size fields from Vt::size")
        # buffer's own size fields: the usize fields Buffer::new's aggregate fills from its first two params
        self.buf_cols = self.buf_rows = None
        for fn, body in w.bodies.items():
            for bl in body.normal_blocks():
                for i, s in enumerate(body.blocks[bl]["stmts"]):
                    if s["k"] == "assign" and s["rv"]["k"] == "aggregate" and s["rv"].get("adt") == self.buffer_ty:
                        TT = w.terms(fn)
                        for nm, op in zip(s["rv"]["field_names"], s["rv"]["ops"]):
                            t = TT.operand(op, (bl, i))
                            if t == ("load", ("arg1",)):
                                self.buf_cols = nm
                            if t == ("load", ("arg2",)):
                                self.buf_rows = nm
                        self.buffer_ctor = fn
        # reporting routine, dirty set
        self.changes_fn = self.gc_fn = None
        todo = [WD.VT_FEED_STR]
        seen_v = set()
        while todo:
            vf = todo.pop()
            if vf in seen_v:
                continue
            seen_v.add(vf)
            for cs in E.call_sites(vf):
                if not cs.local:
                    continue
                out = (F.fns.get(cs.callee, {}).get("output") or {}).get("s", "")
                if out == "alloc::vec::Vec<usize>" and self._impl_of(cs.callee) != WD.VT:
                    self.changes_fn = cs.callee
                if "dyn core::iter::traits::iterator::Iterator" in out and self._impl_of(cs.callee) != WD.VT:
                    self.gc_fn = cs.callee
                if self._impl_of(cs.callee) == WD.VT and cs.callee != WD.VT_FEED:
                    todo.append(cs.callee)        # a private helper of Vt (shared epilogue)
        if not self.changes_fn or not self.gc_fn:
            raise WD.AnchorError("cannot derive the change-reporting / gc routines from Vt::feed_str")
        df = {p[1] for p in E.summaries[self.changes_fn].W if p[0] == "arg1" and len(p) >= 2}
        if len(df) != 1:
            raise WD.AnchorError("the reporting routine writes %s; expected exactly the dirty set" % sorted(df))
        self.dirty_field = next(iter(df))
        self.dl_ty = [f["ty"].get("adt") for f in tfields if f["name"] == self.dirty_field][0]
        self.dl_mark, self.dl_unmark, self.dl_export, self.dl_ctor = set(), set(), set(), set()
        for fn, fo in F.fns.items():
            if (fo.get("impl_self") or {}).get("adt") != self.dl_ty or fn not in w.bodies or "impl_trait" in fo:
                continue
            consts = self._bool_consts(fn)
            s = E.summaries[fn]
            ins = fo.get("inputs", [])
            if not ins or ins[0].get("ref") is None:
                # constructor (no self)
                if (fo.get("output") or {}).get("adt") == self.dl_ty:
                    self.dl_ctor.add(fn)
                    self.dl_ctor_all_dirty = consts == {True}
                continue
            if s.W:
                if consts == {True}:
                    self.dl_mark.add(fn)
                else:
                    self.dl_unmark.add(fn)
            elif (fo.get("output") or {}).get("s") == "alloc::vec::Vec<usize>":
                self.dl_export.add(fn)
        # scope
        execu = A["execute"]
        resize_entry = [cs.callee for cs in E.call_sites(WD.VT_RESIZE) if cs.local and self._impl_of(cs.callee) == self.term_ty
                        and any(p == ("arg1", self.cols_field) for p in E.summaries[cs.callee].W)]
        if len(resize_entry) != 1:
            raise WD.AnchorError("cannot derive the terminal's resize entry from Vt::resize")
        self.resize_fn = resize_entry[0]
        reach = E.reachable_fns([execu, self.resize_fn])
        self.terminal_scope = {f for f in reach if self._impl_of(f) == self.term_ty and f != execu}
        self.entry_functions = {cs.callee for cs in E.call_sites(execu) if cs.local} | {self.resize_fn}
        # re-layout routine(s): terminal methods that call a buffer method writing the buffer's size
        self.relayout_fns = set()
        self.buffer_resize_fn = None
        for f in self.terminal_scope:
            for cs in E.call_sites(f):
                if cs.local and self._impl_of(cs.callee) == self.buffer_ty and \
                        any(p[-1] in (self.buf_cols, self.buf_rows) and len(p) == 2 for p in E.summaries[cs.callee].W):
                    self.relayout_fns.add(f)
                    self.buffer_resize_fn = cs.callee
        self._callers = {}
        for f in self.terminal_scope:
            for cs in E.call_sites(f):
                if cs.local and cs.callee in self.terminal_scope:
                    self._callers.setdefault(cs.callee, set()).add(f)

    def _impl_of(self, fn):
        fo = self.w.facts.fns.get(fn, {})
        return (fo.get("impl_self") or {}).get("adt")

    def _bool_consts(self, fn):
        out = set()
        b = self.w.body(fn)
        for bl in b.normal_blocks():
            for s in b.blocks[bl]["stmts"]:
                if s["k"] == "assign" and s["rv"]["k"] == "use" and s["rv"]["op"]["k"] == "const":
                    v = s["rv"]["op"].get("val") or {}
                    if "bool" in v:
                        out.add(bool(v["bool"]))
            t = b.term(bl)
            if t["k"] == "call":
                for a in t["args"]:
                    if a["k"] == "const" and "bool" in (a.get("val") or {}):
                        out.add(bool(a["val"]["bool"]))
        return out

    def callers_in_scope(self, f):
        return self._callers.get(f, set())

    # ---- row content -------------------------------------------------------
    def is_row_content(self, p):
        """Does a write to path p (rooted at the terminal) change what a row of
        a screen buffer shows?  The soft-wrap flag alone does not."""
        if p[0] != "arg1" or len(p) < 2 or p[1] not in self.buffer_fields:
            return False
        if len(p) == 2:
            return True
        if p[2] != self.lines_field:
            return False
        if p[-1] == self.wrap_field:
            return False
        return True

    def direct_mutation_points(self, f):
        E = self.w.E
        out = {}
        for pt, ps in E.stmt_writes[f].items():
            hit = [p for p in ps if self.is_row_content(p)]
            if hit:
                out[pt] = "assignment to %s" % M.path_str(hit[0])
        for cs in E.sites[f]:
            if cs.term is None:
                continue
            if cs.local and cs.callee in self.terminal_scope:
                continue
            hit = [p for p in cs.W if self.is_row_content(p)]
            if hit:
                out[cs.point] = "call %s" % cs.callee
        return out

    def direct_mark_points(self, f):
        E = self.w.E
        out = {}
        for cs in E.call_sites(f):
            if cs.callee in self.dl_mark and any(p[:2] == ("arg1", self.dirty_field) for p in cs.W):
                out[cs.point] = "call %s" % cs.callee
        # self.dirty = DirtyLines::new(..) (all dirty)
        T = self.w.terms(f)
        b = self.w.body(f)
        for pt, ps in E.stmt_writes[f].items():
            if any(p == ("arg1", self.dirty_field) for p in ps):
                blk = b.blocks[pt[0]]
                if pt[1] < len(blk["stmts"]):
                    t = T.rvalue(blk["stmts"][pt[1]]["rv"], pt)
                    if t[0] == "call" and t[1] in self.dl_ctor and getattr(self, "dl_ctor_all_dirty", False):
                        out[pt] = "fresh all-dirty set"
        return out

    # ---- operands ---------------------------------------------------------------
    def mutation_operand(self, f, pt):
        w = self.w
        b = w.body(f)
        blk = b.blocks[pt[0]]
        if pt[1] < len(blk["stmts"]):
            return ("whole",)
        t = blk["term"]
        if t["k"] != "call":
            return None
        callee = t["callee"].get("resolved")
        fo = w.facts.fns.get(callee)
        T = w.terms(f)
        if not fo or not t["callee"].get("resolved_local"):
            return ("whole",)          # e.g. mem::swap of the two buffers
        # view-scoped primitives: partial evaluation of the callee for a constant enum argument
        fp = self.footprint(f, pt, callee, t, T)
        if fp is not None:
            return ("footprint", fp)
        ins = fo.get("inputs", [])
        if any(p[-1] in (self.buf_cols, self.buf_rows) for p in w.E.summaries[callee].W):
            return ("whole",)          # a re-layout: every row may change, whatever position it is handed
        for i, ty in enumerate(ins):
            if ty["s"] == "(usize, usize)":
                tt = T.operand(t["args"][i], pt)
                if tt[0] == "tuple":
                    return ("row", tt[1][1])
                return ("row", ("field", tt, "1"))
            if ty["s"] == "core::ops::range::Range<usize>":
                return ("range", T.operand(t["args"][i], pt))
        if any(p[-1] in (self.buf_cols, self.buf_rows) for p in w.E.summaries[callee].W):
            return ("whole",)
        return None

    def mark_operand(self, f, pt):
        w = self.w
        b = w.body(f)
        blk = b.blocks[pt[0]]
        if pt[1] < len(blk["stmts"]):
            return ("all",)
        t = blk["term"]
        T = w.terms(f)
        callee = t["callee"].get("resolved")
        ins = (w.facts.fns.get(callee) or {}).get("inputs", [])
        for i, ty in enumerate(ins):
            if ty["s"] == "usize":
                return ("row", T.operand(t["args"][i], pt))
            if ty["s"] == "core::ops::range::Range<usize>":
                return ("range", T.operand(t["args"][i], pt))
        return ("all",)

    # ---- footprints by partial evaluation ---------------------------------------------
    def footprint(self, f, pt, callee, t, T):
        """If the call passes a constant enum variant that the callee switches
        on, return the list of row-sets written in the selected arm, expressed
        over the CALLER's terms."""
        w = self.w
        cb = w.body(callee)
        CT = w.terms(callee)
        arg_terms = [T.operand(a, pt) for a in t["args"]]
        variant = None
        argi = None
        for i, at in enumerate(arg_terms):
            if at[0] == "adt" and w.facts.adts.get(at[1], {}).get("kind") == "enum":
                variant, argi = at, i
        if variant is None:
            return None
        start = select_arm(w, callee, argi + 1, variant[1], variant[2])
        if start is None:
            return None
        blocks = cb.reachable_from([start], removed_blocks=set())
        # map callee terms to caller terms
        mapping = {}
        for i, at in enumerate(arg_terms):
            base = ("load", ("arg%d" % (i + 1),))
            mapping[base] = at
        out = []

        def conv(term):
            term = subst_loads(term, arg_terms)
            return term
        for cs in w.E.call_sites(callee):
            if cs.point[0] not in blocks or not cs.W:
                continue
            if not any(self._is_buffer_row_write(p) for p in cs.W):
                continue
            if self._impl_of(cs.callee) != self.buffer_ty or (cs.decl or "").endswith("IndexMut::index_mut"):
                continue          # Line-level calls act on a row reference listed below
            fo = w.facts.fns.get(cs.callee, {})
            ins = fo.get("inputs", [])
            got = False
            for i, ty in enumerate(ins):
                if i == 0:
                    continue
                if ty["s"] == "usize":
                    out.append(("row", conv(CT.operand(cs.term["args"][i], cs.point))))
                    got = True
                    break
                if ty["s"] == "core::ops::range::Range<usize>":
                    out.append(("range", conv(CT.operand(cs.term["args"][i], cs.point))))
                    got = True
                    break
            if not got:
                # writes through a reference obtained earlier (line.clear(..)): the
                # reference comes from an index_mut that is listed itself
                continue
        # index_mut(self, row) obtains the row reference even when W of that call is empty
        for cs in w.E.call_sites(callee):
            if cs.point[0] not in blocks:
                continue
            if cs.local and (cs.decl or "").endswith("IndexMut::index_mut") and self._impl_of(cs.callee) == self.buffer_ty:
                ins = w.facts.fns[cs.callee]["inputs"]
                if ins[1]["s"] == "usize":
                    out.append(("row", conv(CT.operand(cs.term["args"][1], cs.point))))
                elif ins[1]["s"] == "core::ops::range::Range<usize>":
                    out.append(("range", conv(CT.operand(cs.term["args"][1], cs.point))))
        return out

    def _is_buffer_row_write(self, p):
        return len(p) >= 2 and p[0] == "arg1" and p[1] == self.lines_field and p[-1] != self.wrap_field


def subst_loads(term, arg_terms):
    """Rewrite callee-space loads of argN[.field...] into caller-space terms."""
    if not isinstance(term, tuple):
        return term
    if term and term[0] == "load":
        root = term[1][0]
        if root.startswith("arg"):
            n = int(root[3:]) - 1
            if n < len(arg_terms):
                base = arg_terms[n]
                rest = term[1][1:]
                cur = base
                for el in rest:
                    if cur[0] == "tuple" and isinstance(el, str) and el.isdigit():
                        cur = cur[1][int(el)]
                    elif cur[0] == "ref":
                        cur = cur[2]
                        if cur[0] == "load":
                            cur = ("load", cur[1] + (el,))
                        else:
                            cur = ("field", cur, el)
                    elif cur[0] == "load":
                        cur = ("load", cur[1] + (el,))
                    else:
                        cur = ("field", cur, el)
                return cur
        return term
    return tuple(subst_loads(x, arg_terms) if isinstance(x, tuple) else x for x in term)


# ---- small symbolic reasoning over row bounds ----------------------------------
def lin(t):
    """term -> (base, offset) with base None for constants."""
    t = WD.strip_names(t)
    if t[0] == "const" and isinstance(t[1], int) and not isinstance(t[1], bool):
        return (None, t[1])
    if t[0] == "binop" and t[1] in ("Add", "Sub"):
        a, b = lin(t[2]), lin(t[3])
        if b[0] is None:
            return (a[0], a[1] + (b[1] if t[1] == "Add" else -b[1]))
        if a[0] is None and t[1] == "Add":
            return (b[0], a[1] + b[1])
    return (t, 0)


def range_parts(t):
    t = WD.strip_names(t)
    if t[0] == "adt" and t[1].startswith("core::ops::range::Range") and len(t[4]) == 2:
        return t[4][0], t[4][1]
    return None


def is_full_range(t, rows_t, alt_rows=()):
    rp = range_parts(t)
    if not rp:
        return False
    return lin(rp[0]) == (None, 0) and (WD.strip_names(rp[1]) == rows_t or WD.strip_names(rp[1]) in alt_rows)


def le(a, b, rows_t):
    """Is bound a <= bound b provable?  a, b are (base, offset)."""
    if a[0] == b[0]:
        return a[1] <= b[1]
    if a[0] is None and a[1] <= 0:
        return True
    if b[0] == rows_t and a[0] is not None and a[0] != rows_t:
        # a is row-valued (an index of a visible row): row + k <= rows for k <= 1
        return a[1] - b[1] <= 1
    return False


def norm_rows(t, rows_t, buf_rows_names):
    """buffer.rows of the active buffer equals terminal.rows (C02 invariant)."""
    if isinstance(t, tuple):
        if t and t[0] == "load" and t[1][-1] in buf_rows_names and len(t[1]) == 3:
            return rows_t
        return tuple(norm_rows(x, rows_t, buf_rows_names) if isinstance(x, tuple) else x for x in t)
    return t


def range_covers_row(rng, row, rows_t):
    rp = range_parts(rng)
    if not rp:
        return False
    r = lin(row)
    return le(lin(rp[0]), r, rows_t) and le((r[0], r[1] + 1), lin(rp[1]), rows_t)


def range_covers_range(outer, inner, rows_t):
    a, b = range_parts(outer) or (None, None), range_parts(inner) or (None, None)
    if a[0] is None or b[0] is None:
        return False
    return le(lin(a[0]), lin(b[0]), rows_t) and le(lin(b[1]), lin(a[1]), rows_t)


def footprint_covered(w, f, fp, mk, rows_t):
    S = screen(w)
    if mk[0] == "all":
        return True, ""
    for kind, t in fp:
        t = norm_rows(t, rows_t, (S.buf_rows,))
        if mk[0] == "row":
            if kind == "row" and WD.strip_names(t) == WD.strip_names(mk[1]):
                continue
            return False, "the primitive writes %s %s but only row %s is marked" % (kind, w.tstr(f, t), w.tstr(f, mk[1]))
        rng = mk[1]
        while isinstance(rng, tuple) and rng[0] == "call" and rng[1].endswith("Clone>::clone"):
            rng = rng[2][0]
            if rng[0] == "ref":
                rng = rng[2]
        if kind == "row":
            if not range_covers_row(rng, t, rows_t):
                return False, "the primitive writes row %s, not covered by the marked range %s" % (w.tstr(f, t), w.tstr(f, rng))
        else:
            if not range_covers_range(rng, t, rows_t):
                return False, "the primitive writes rows %s, not covered by the marked range %s" % (w.tstr(f, t), w.tstr(f, rng))
    return True, ""


def stable_between(w, f, term, a, b):
    """No may-write to any field loaded by `term` on a path from point a to point b."""
    loads = []

    def collect(t):
        if isinstance(t, tuple):
            if t and t[0] == "load":
                loads.append(tuple(x for x in t[1] if isinstance(x, str)))
            for x in t:
                collect(x)
    collect(term)
    body = w.body(f)
    for p in body.points_between(a, b):
        for wr in w.E.writes_at(f, p):
            for l in loads:
                if M.path_overlaps(M.plain(wr), l):
                    return False
    return True


def mk_str(w, f, mk):
    if mk[0] == "all":
        return "all rows"
    return "%s %s" % (mk[0], w.tstr(f, mk[1]))


def info_str(w, f, info):
    if info[0] in ("row", "range"):
        return "%s %s" % (info[0], w.tstr(f, info[1]))
    if info[0] == "footprint":
        return "footprint [%s]" % ", ".join("%s %s" % (k, w.tstr(f, t)) for k, t in info[1])
    return info[0]


# ---- semantic roles of the terminal's private fields, derived from the code ----------
def arm_for(w, fn, variant_path):
    """The arm (HIR) of the match in `fn` selected for the given unit variant."""
    for m in H.find(w.hir(fn)["body"], lambda n: H.is_k(n, "match")):
        try:
            i, arm, env = H.first_arm(m, ("v", variant_path))
        except H.Unsupported:
            continue
        if arm is not None and any(variant_path == (p.get("e") or {}).get("path") for p in H.walk(arm["pat"]) if p.get("p") == "expr"):
            return m, i, arm
    return None, None, None


def self_assigns(node):
    """[(field tuple, rhs node)] for `self.a.b = rhs` statements under node."""
    out = []
    for n in H.walk(node):
        if H.is_k(n, "assign"):
            sf = H.self_field(n["l"])
            if sf:
                out.append((sf, n["r"]))
    return out


class Roles:
    def __init__(self, w):
        S = screen(w)
        F = w.facts
        tf = {f["name"]: f for f in F.struct_fields(S.term_ty)}
        self.fields = tf
        r = {}

        def bool_in_arm(handler_variant, mode_variant, value=True):
            # the arm may live in the handler or in a helper it delegates to (`set_modes(modes, enabled)`)
            cands = list(w.handler(handler_variant)) + [f for f in sorted(w.handler_reach(handler_variant)) if f not in w.handler(handler_variant) and f in w.facts.hir]
            for h in cands:
                try:
                    m, i, arm = arm_for(w, h, mode_variant)
                except Exception:
                    continue
                if arm is None:
                    continue
                for sf, rhs in self_assigns(arm["body"]):
                    rhs = H.unwrap(rhs)
                    if len(sf) == 1 and tf.get(sf[0], {}).get("ty", {}).get("s") == "bool" and (H.is_k(rhs, "lit") and rhs.get("t") == "bool" or rhs.get("ty") == "bool"):
                        return sf[0]
            return None

        r["origin_mode"] = bool_in_arm("Decset", "parser::DecMode::Origin")
        r["auto_wrap_mode"] = bool_in_arm("Decset", "parser::DecMode::AutoWrap")
        r["insert_mode"] = bool_in_arm("Sm", "parser::AnsiMode::Insert")
        r["new_line_mode"] = bool_in_arm("Sm", "parser::AnsiMode::NewLine")
        # cursor keys: the field assigned in the CursorKeys arm
        for h in w.handler("Decset"):
            m, i, arm = arm_for(w, h, "parser::DecMode::CursorKeys")
            if arm is not None:
                for sf, rhs in self_assigns(arm["body"]):
                    if len(sf) == 1:
                        r["cursor_keys_mode"] = sf[0]
        # typed fields
        def by_type(pred):
            return [n for n, f in tf.items() if pred(f["ty"])]
        cur = by_type(lambda t: t.get("adt") == "terminal::cursor::Cursor")
        pen = by_type(lambda t: t.get("adt") == "pen::Pen")
        tabs = by_type(lambda t: t.get("adt") == "tabs::Tabs")
        chs = by_type(lambda t: "array" in t and t["array"].get("adt") == "charset::Charset")
        r["cursor"] = cur[0] if len(cur) == 1 else None
        r["pen"] = pen[0] if len(pen) == 1 else None
        r["tabs"] = tabs[0] if len(tabs) == 1 else None
        r["charsets"] = chs[0] if len(chs) == 1 else None
        # wrap pending: the only bool the Print handler sets
        E = w.E
        pw = {p[1] for h in w.handler("Print") for p in E.summaries[h].W
              if p[0] == "arg1" and len(p) == 2 and tf.get(p[1], {}).get("ty", {}).get("s") == "bool"}
        r["pending_wrap"] = next(iter(pw)) if len(pw) == 1 else None
        # active charset: usize written by So
        ac = {p[1] for h in w.handler("So") for p in E.summaries[h].W if p[0] == "arg1" and len(p) == 2}
        r["active_charset"] = next(iter(ac)) if len(ac) == 1 else None
        # margins: usize fields DECSTBM assigns from its 1st / 2nd parameter
        for h in w.handler("Decstbm"):
            for fn, pt, p, term in w.assign_sites({h}, lambda p: len(p) == 2 and tf.get(p[1], {}).get("ty", {}).get("s") == "usize"):
                s = repr(term)
                if "'arg2'" in s and "'arg3'" not in s:
                    r["top_margin"] = p[1]
                elif "'arg3'" in s:
                    r["bottom_margin"] = p[1]
        # saved contexts
        sc = by_type(lambda t: t.get("adt") == "terminal::SavedCtx")
        wsc = {p[1] for h in w.handler("Decsc") for p in E.summaries[h].W if p[0] == "arg1" and len(p) >= 2 and p[1] in sc}
        r["saved_ctx"] = next(iter(wsc)) if len(wsc) == 1 else None
        rest = [x for x in sc if x != r["saved_ctx"]]
        r["parked_saved_ctx"] = rest[0] if len(rest) == 1 else None
        r["saved_ctx_ty"] = "terminal::SavedCtx"
        # active buffer type flag: enum-typed field written by the alternate-screen arm, not a buffer / ctx
        bt = {p[1] for h in w.handler("Decset") for p in E.summaries[h].W
              if p[0] == "arg1" and len(p) == 2 and F.adts.get(tf.get(p[1], {}).get("ty", {}).get("adt"), {}).get("kind") == "enum"
              and p[1] != r.get("cursor_keys_mode")}
        r["active_buffer_type"] = next(iter(bt)) if len(bt) == 1 else None
        r["buffer"] = S.active_buffer
        r["other_buffer"] = S.parked_buffer
        r["dirty_lines"] = S.dirty_field
        r["cols"], r["rows"] = S.cols_field, S.rows_field
        self.r = r
        missing = [k for k, v in r.items() if v is None]
        if missing:
            raise WD.AnchorError("cannot derive the terminal field(s) playing the role(s): %s" % ", ".join(missing))

    def __getitem__(self, k):
        return self.r[k]


_ROLES = {}


def roles(w):
    if id(w) not in _ROLES:
        _ROLES[id(w)] = Roles(w)
    return _ROLES[id(w)]


def allowed_write(p, allowed):
    """p (rooted at arg1) lies inside one of the allowed prefixes."""
    q = p[1:]
    return any(q[:len(a)] == a for a in allowed)


def frame(ctx, w, rule, variant, allowed, why):
    """W(handler of variant) is confined to `allowed` (tuples of field names)."""
    W = w.handler_W(variant)
    bad = sorted({M.path_str(p) for p in W if p[0] == "arg1" and not allowed_write(p, allowed)})
    ctx.check(not bad, rule, variant,
              "Function::%s may write %s, outside its frame {%s}: %s" % (variant, bad, ", ".join(".".join(a) for a in allowed), why),
              loc=w.fn_loc(w.handler(variant)[0]),
              sample={"function": variant, "W": sorted({M.path_str(p[1:]) for p in W if p[0] == "arg1"})[:12]})
    return not bad


def select_arm(w, callee, argn, enum_path, variant_name):
    """Entry block of the arm that `callee` executes when its argument argN is
    the given enum variant (the switch on the argument's discriminant)."""
    cb = w.body(callee)
    CT = w.terms(callee)
    vidx = [v["name"] for v in w.facts.adts[enum_path]["variants"]].index(variant_name)
    discr = [v["discr"] for v in w.facts.adts[enum_path]["variants"]][vidx]
    for bl in sorted(cb.normal_blocks()):
        tm = cb.term(bl)
        if tm["k"] == "switch":
            d = CT.operand(tm["discr"], (bl, cb.n_stmts(bl)))
            if d == ("discr", ("load", ("arg%d" % argn,))):
                tg = dict((v, x) for v, x in tm["targets"])
                return tg.get(discr, tm["otherwise"])
    return None


def norm_term(t):
    """Canonical form: min/max calls (method or free function) become
    ('min'|'max', sorted args); Add is commutative; names dropped."""
    t = WD.strip_names(t)
    if not isinstance(t, tuple):
        return t
    if t and t[0] == "call":
        nm = t[1]
        args = tuple(norm_term(a) for a in t[2])
        for k in ("min", "max"):
            if nm in ("core::cmp::Ord::%s" % k, "core::cmp::%s" % k) or nm.endswith("::cmp::Ord>::%s" % k) or (nm.startswith("core::cmp::impls::") and nm.endswith("::%s" % k)):
                return (k,) + tuple(sorted(args, key=repr))
        return ("call", nm, args)
    if t and t[0] == "binop" and t[1] in ("Add", "Mul"):
        a, b = norm_term(t[2]), norm_term(t[3])
        a, b = sorted((a, b), key=repr)
        return ("binop", t[1], a, b)
    return tuple(norm_term(x) if isinstance(x, tuple) else x for x in t)


class Epilogue:
    """How a Vt entry point reaches the per-call epilogue (report + gc + the
    Changes value), directly or through a private helper of Vt."""

    def __init__(self, w, S, api):
        self.w, self.S, self.api = w, S, api
        E = w.E
        self.host = None
        self.helper_site = None
        if any(cs.callee in (S.changes_fn, S.gc_fn) for cs in E.call_sites(api)):
            self.host = api
        else:
            for cs in E.call_sites(api):
                if cs.local and S._impl_of(cs.callee) == WD.VT and any(c2.callee in (S.changes_fn, S.gc_fn) for c2 in E.call_sites(cs.callee)):
                    self.host = cs.callee
                    self.helper_site = cs

    def site_in_api(self, target):
        """The call site in the api function after which `target` has run."""
        E = self.w.E
        if self.host == self.api:
            ss = [cs for cs in E.call_sites(self.api) if cs.callee == target]
            return ss[0] if len(ss) == 1 else None
        return self.helper_site

    def on_every_path(self, target):
        E = self.w.E
        if self.host is None:
            return False
        hb = self.w.body(self.host)
        ss = {cs.point for cs in E.call_sites(self.host) if cs.callee == target}
        ok = bool(ss) and hb.every_path_to_return_hits((0, 0), ss, include_start=True)
        if self.host != self.api:
            ab = self.w.body(self.api)
            ok = ok and ab.every_path_to_return_hits((0, 0), {self.helper_site.point}, include_start=True)
        return ok

    def changes_aggregate(self):
        """(fn, point, {field: term}) of the vt::Changes value built by the epilogue."""
        if self.host is None:
            return None
        b = self.w.body(self.host)
        T = self.w.terms(self.host)
        for bl in b.normal_blocks():
            for i, st in enumerate(b.blocks[bl]["stmts"]):
                if st["k"] == "assign" and st["rv"]["k"] == "aggregate" and st["rv"].get("adt") == "vt::Changes":
                    return self.host, (bl, i), {nm: T.operand(op, (bl, i)) for nm, op in zip(st["rv"]["field_names"], st["rv"]["ops"])}
        return None

    def returned_unchanged(self):
        """If a helper hosts the epilogue, the api returns the helper's value as is."""
        if self.host == self.api or self.host is None:
            return True
        b = self.w.body(self.api)
        T = self.w.terms(self.api)
        rts = [WD.strip_names(T.local(0, (rb, b.n_stmts(rb)))) for rb in b.return_blocks()]
        return all(t[0] == "call" and t[1] == self.host for t in rts)


def load_points(w, fn, operand, point, want_prefix, depth=0, seen=None):
    """Program points at which the value of `operand` (used at `point`) was read
    from a place under `want_prefix` (an arg-rooted path prefix), following
    copies through temporaries and user variables."""
    seen = seen if seen is not None else set()
    b = w.body(fn)
    T = w.terms(fn)
    out = set()
    if operand["k"] == "const":
        return out
    p = w.definite_path(fn, operand) if any(e["k"] == "deref" for e in operand["proj"]) else None
    if p is not None:
        if p[:len(want_prefix)] == want_prefix:
            out.add(tuple(point))
        return out
    l = operand["local"]
    if depth > 8:
        return out
    for d in b.reaching_defs(l, tuple(point)):
        if d == "entry":
            continue
        pt, kind, payload = d
        if (l, pt) in seen:
            continue
        seen.add((l, pt))
        if kind == "assign":
            rv = payload
            ops = []
            if rv["k"] in ("use", "cast", "repeat"):
                ops = [rv["op"]]
            elif rv["k"] == "aggregate":
                ops = list(rv["ops"])
            elif rv["k"] == "binop":
                ops = [rv["l"], rv["r"]]
            elif rv["k"] == "unop":
                ops = [rv["e"]]
            for o in ops:
                if o["k"] != "const":
                    out |= load_points(w, fn, o, pt, want_prefix, depth + 1, seen)
    return out


def stale_operands(ctx, w, S, R, rule, variants):
    """The cursor position handed to a buffer primitive is read AFTER the last
    write to the cursor that precedes the call (no stale copy)."""
    E = w.E
    cur = R["cursor"]
    ctx.rule(rule, "the cursor position passed to a buffer primitive is not a stale copy: no write to the cursor lies between reading it and the call")
    n = 0
    for v in variants:
        for h in w.handler(v):
            b = w.body(h)
            for cs in E.call_sites(h):
                if not (cs.local and S._impl_of(cs.callee) == S.buffer_ty and any(S.is_row_content(p) for p in cs.W)):
                    continue
                for a in cs.term["args"][1:]:
                    if a["k"] == "const":
                        continue
                    lps = load_points(w, h, a, cs.point, ("arg1", cur))
                    for lp in lps:
                        n += 1
                        bad = [q for q in b.points_between(lp, cs.point) if any(M.plain(x)[:2] == ("arg1", cur) and M.plain(x)[2:3] != ("visible",) for x in E.writes_at(h, q))]
                        ctx.check(not bad, rule, "%s:%s@%s" % (v, site_key(w, h, cs.point), site_key(w, h, lp)),
                                  "%s reads the cursor position, then changes the cursor (%s), then hands the OLD position to %s: the primitive acts at a stale column/row" %
                                  (h, w.stmt_loc(h, bad[0]) if bad else "", cs.callee), loc=w.site_loc(cs), sample={"function": v, "callee": cs.callee})
    return n


def embed(ctx, w, fn, *args, **kw):
    """Run another property's rule group inside this check (a shared necessary
    condition) without letting it overwrite this check's own description."""
    keep = (getattr(ctx, "explanation", None), getattr(ctx, "decided", None), getattr(ctx, "not_decided", None))
    try:
        return fn(ctx, w, *args, **kw)
    finally:
        ctx.explanation, ctx.decided, ctx.not_decided = keep


def mode_arm_siblings(ctx, w, S, R, rule):
    """Set / reset arms of one mode are siblings: for flag-like modes (both arms assign a constant to the same field)
    the two arms write the same state components - whatever else one of them touches (cursor homing for origin
    mode) the other touches too, and a pure flag touches nothing else."""
    E = w.E
    ctx.rule(rule, "for every flag-like mode, the arm that sets it and the arm that resets it write the same state components (a mode switch that also clears wrap-pending, homes the cursor, ... on one side only is not a pure mode change)")
    n = 0
    for hs, hr, enum in (("Decset", "Decrst", "parser::DecMode"), ("Sm", "Rm", "parser::AnsiMode")):
        variants = w.facts.enum_variants(enum) or []
        for v in variants:
            arms = []
            for hv in (hs, hr):
                for h in w.handler(hv):
                    m, i, arm = arm_for(w, h, "%s::%s" % (enum, v))
                    if arm is not None:
                        arms.append((h, arm))
            if len(arms) != 2:
                continue
            wsets = []
            consts = []
            for h, arm in arms:
                ws = set()
                cf = set()
                for sf, rhs in self_assigns(arm["body"]):
                    ws.add(tuple(sf))
                    r0 = H.unwrap(rhs)
                    if H.is_k(r0, "lit") or (H.is_k(r0, "path") and r0.get("res") == "def"):
                        cf.add(tuple(sf))
                for nd in H.walk(arm["body"]):
                    if H.is_k(nd, "mcall") and nd.get("callee_local") and nd["callee"] in E.summaries:
                        for p in E.summaries[nd["callee"]].W:
                            if p[0] == "arg1" and len(p) >= 2:
                                ws.add(tuple(x for x in p[1:3] if isinstance(x, str)))
                wsets.append(ws)
                consts.append(cf)
            if not (consts[0] & consts[1]):
                continue                       # not a flag-like mode (screen switch, save/restore cursor)
            n += 1

            def norm(ws):
                out = set()
                for p in ws:
                    out.add(p if len(p) == 1 or p[0] == R["cursor"] else p[:1])
                return out
            a, b = norm(wsets[0]), norm(wsets[1])
            ctx.check(a == b, rule, "%s::%s" % (enum, v),
                      "setting %s writes %s but resetting it writes %s: one direction of the mode switch changes state the other does not" % (v, sorted(".".join(p) for p in a), sorted(".".join(p) for p in b)),
                      loc=w.fn_loc(arms[1][0]), sample={"mode": v, "set_writes": sorted(".".join(p) for p in a), "reset_writes": sorted(".".join(p) for p in b)})
    ctx.floor(rule, 3, "flag-like modes")


class Deferred:
    """Proxy for rule groups that have BOTH a shape-matching form and a semantic (interpretive) decision of the same
    clause: when the semantic decision succeeded, a failure of the shape-matching form is not an alarm (the code was
    merely written differently); when the semantic decision failed or was impossible, the shape rules stand."""

    def __init__(self, ctx, rules, semantic_ok):
        object.__setattr__(self, "_c", ctx)
        object.__setattr__(self, "_rules", set(rules))
        object.__setattr__(self, "_sem", bool(semantic_ok))

    def __getattr__(self, k):
        return getattr(self._c, k)

    def __setattr__(self, k, v):
        setattr(self._c, k, v)

    def _soft(self, rule):
        return self._sem and rule in self._rules

    def check(self, cond, rule, subject, message, loc=None, sample=None, detail=None):
        if not cond and self._soft(rule):
            self._c.ok(rule, subject, {"shape_not_recognised": str(message)[:160], "decided": "by the semantic form of this rule"})
            return True
        return self._c.check(cond, rule, subject, message, loc=loc, sample=sample, detail=detail)

    def violation(self, rule, subject, message, loc=None, detail=None):
        if self._soft(rule):
            self._c.ok(rule, subject, {"shape_not_recognised": str(message)[:160], "decided": "by the semantic form of this rule"})
            return
        return self._c.violation(rule, subject, message, loc=loc, detail=detail)

    def missing_anchor(self, rule, anchor, why=""):
        if self._soft(rule):
            self._c.ok(rule, "anchor:" + anchor, {"shape_not_recognised": anchor, "decided": "by the semantic form of this rule"})
            return
        return self._c.missing_anchor(rule, anchor, why)

    def floor(self, rule, floor, what):
        if self._soft(rule):
            return
        return self._c.floor(rule, floor, what)


def gc_verdict(ctx, w, S, T, rule):
    """Semantic decision of the trimming clause (interpretation of the buffer's gc on symbolic rows); reported under `rule`."""
    from rules import prims
    import hir as _H
    ctx.rule(rule, "the buffer's gc interpreted on symbolic rows (1..2 rows, 0..5 scrollback lines, no limit / soft 0..3 with hard = soft or soft+1, flag set / clear): nothing happens without the flag or "
                   "without a limit; with both, iff size > hard exactly the oldest size - soft lines are removed and handed out in order; the flag is consumed; Buffer::new stores soft = L, hard = L + L/10")
    try:
        ok, info = prims.gc_semantics(w, S, T)
    except Exception as ex:
        ctx.note("semantic form of the trimming rule not applicable: %s" % (ex,))
        return None
    if ok:
        ctx.ok(rule, "all", {"cases": info})
        ctx.rule_counts[rule] = info
        return True
    ctx.violation(rule, "gc", str(info), loc=w.fn_loc(T.buf_gc))
    return False


def real_writers(w, S, ctor_fn=None):
    """{field of the terminal: functions (other than the constructor) that may change it}.  An assignment that stores
    back the value the field had before (`let keep = self.f; *self = fresh; self.f = keep`) does not change it; a
    whole-value replacement counts as a write of every field EXCEPT those restored this way in the same function.
    Calls contribute what the callee really writes (transitively), not its raw may-write summary."""
    E = w.E
    fields = [f["name"] for f in w.facts.struct_fields(S.term_ty)]
    direct = {}
    def takes_self(fn):
        ins = w.facts.fns.get(fn, {}).get("inputs", [])
        return bool(ins) and (ins[0].get("adt") == S.term_ty or ins[0]["s"].replace("&mut ", "").replace("&", "").strip() == S.term_ty)
    fns = [fn for fn in w.bodies if fn != ctor_fn and S._impl_of(fn) == S.term_ty and takes_self(fn)]
    ctor_terms = {}
    if ctor_fn:
        from rules import c19 as _c19
        for cf, cpt, crv in _c19.constructor_of(w, S.term_ty):
            if cf == ctor_fn:
                CT = w.terms(cf)
                ctor_terms = {nm: WD.strip_names(CT.operand(op, cpt)) for nm, op in zip(crv["field_names"], crv["ops"])}
    for fn in fns:
        d = set()
        preserved_pts = {}
        preserved_fields = set()
        # `*self = Terminal::new(.., self.f, ..)`: a field the constructor fills from the argument `self.f` keeps its value
        for f2, pt, p, t in w.assign_sites({fn}, lambda p: p == ("arg1",)):
            t = WD.strip_names(t)
            def via_ctor(call_t, nm):
                amap = {}
                for i, a in enumerate(call_t[2]):
                    if a[0] == "tuple":
                        for j, el in enumerate(a[1]):
                            amap[("load", ("arg%d" % (i + 1), str(j)))] = el
                    amap[("load", ("arg%d" % (i + 1),))] = a
                return nm in ctor_terms and WD.subst_term(ctor_terms[nm], amap) == ("load", ("arg1", nm))
            if t[0] == "call" and t[1] == ctor_fn and ctor_terms:
                for nm in ctor_terms:
                    if via_ctor(t, nm):
                        preserved_fields.add(nm)
            elif t[0] == "adt" and t[1] == S.term_ty and len(t) >= 5:
                # struct update: `*self = Terminal { f: self.f, ..Terminal::new(.., self.g, ..) }`
                for nm, ft in zip(t[3], t[4]):
                    if ft == ("load", ("arg1", nm)):
                        preserved_fields.add(nm)
                    elif ft[0] == "field" and ft[2] == nm and ft[1][0] == "call" and ft[1][1] == ctor_fn and via_ctor(ft[1], nm):
                        preserved_fields.add(nm)
        for f2, pt, p, t in w.assign_sites({fn}, lambda p: len(p) == 2 and p[0] == "arg1"):
            if WD.strip_names(t) == ("load", p):
                preserved_pts.setdefault(pt, set()).add(p[1])
                preserved_fields.add(p[1])
        for pt, ps in E.stmt_writes[fn].items():
            for p in ps:
                if p[0] != "arg1":
                    continue
                if len(p) == 1:
                    d |= {f for f in fields if f not in preserved_fields}
                elif p[1] in fields and p[1] not in preserved_pts.get(pt, ()):
                    d.add(p[1])
        for cs in E.sites[fn]:
            if cs.local and cs.callee in fns:
                continue
            for p in cs.W:
                if p[0] == "arg1" and len(p) >= 2 and p[1] in fields:
                    d.add(p[1])
                elif p[0] == "arg1" and len(p) == 1:
                    d |= set(fields)
        direct[fn] = d
    changed = True
    while changed:
        changed = False
        for fn in fns:
            for cs in E.sites[fn]:
                if cs.local and cs.callee in direct:
                    recv = cs.arg_vals[0] if cs.arg_vals else set()
                    if any(tuple(p)[:1] == ("arg1",) and len(p) == 1 for p in recv) or not cs.arg_vals:
                        new = direct[cs.callee] - direct[fn]
                        if new:
                            direct[fn] |= new
                            changed = True
    out = {f: set() for f in fields}
    for fn, d in direct.items():
        for f in d:
            out[f].add(fn)
    return out


def count_passthrough(ctx, w, S, R, rule, variants):
    """The repetition count of a command reaches the primitive / loop / search exactly as `default(param)`: it is not
    clamped, scaled or otherwise adjusted by the handler (the documented clamps live in the primitives)."""
    from rules import c05
    E = w.E
    helper = c05.default_helper(w)
    ctx.rule(rule, "the count of %s is handed on exactly as default(parameter): no handler-side clamp, scaling or adjustment" % "/".join(v.upper() for v in variants))
    if not helper:
        ctx.missing_anchor(rule, "default helper")
        return

    def is_count(t):
        return t[0] == "call" and t[1] == helper and len(t[2]) >= 1 and t[2][0] == ("load", ("arg2",))

    def bad_use(t, top=True):
        """a node that computes with the count (other than wrapping it)"""
        if not isinstance(t, tuple) or not t:
            return None
        if is_count(t):
            return None
        if isinstance(t[0], tuple):                 # a sequence of operand terms
            for y in t:
                r = bad_use(y, False) if isinstance(y, tuple) else None
                if r is not None:
                    return r
            return None
        contains = any(is_count(x) for x in _walk(t))
        if not contains:
            return None
        if t[0] in ("adt", "tuple", "ref", "deref", "field", "downcast", "obj", "phi", "cast"):
            for x in t:
                if isinstance(x, tuple):
                    r = bad_use(x, False)
                    if r is not None:
                        return r
                    if x and isinstance(x[0], tuple):
                        for y in x:
                            r = bad_use(y, False) if isinstance(y, tuple) else None
                            if r is not None:
                                return r
            return None
        if t[0] == "call" and (t[1].endswith("into_iter") or t[1].endswith("Iterator>::next") or t[1].endswith("::next")):
            for x in t[2]:
                r = bad_use(x, False)
                if r is not None:
                    return r
            return None
        return t
    n = 0
    for v in variants:
        for h in w.handler(v):
            T = w.terms(h)
            for cs in E.call_sites(h):
                for a in cs.term["args"]:
                    t = WD.strip_names(T.operand(a, cs.point))
                    if not any(is_count(x) for x in _walk(t)):
                        continue
                    n += 1
                    b = bad_use(t)
                    ctx.check(b is None, rule, "%s:%s" % (v, site_key(w, h, cs.point)), "%s adjusts its count before use: %s (the count must be handed on as default(parameter); clamping belongs to the primitive)" %
                              (h, w.tstr(h, b)[:100] if b is not None else ""), loc=w.site_loc(cs), sample={"handler": h, "use": w.tstr(h, t)[:80]})
    ctx.floor(rule, max(1, len(variants) - 1), "count uses")


def _walk(t):
    if isinstance(t, tuple):
        yield t
        for x in t:
            yield from _walk(x)


def invariant_rule(ctx, w, S, R, rule):
    """Every command handler and the resize entry preserve the state invariant (evaluated, hinterp.invariant_preservation); verdict cached per fact set."""
    from rules import hinterp
    ctx.rule(rule, "every command handler (all parameter classes, margins, origin mode, cursor positions incl. wrap-pending, on a wide and a tall small screen) and the resize entry, evaluated with the buffer replaced by "
                   "its contract, lead from states satisfying the state invariant to states satisfying it: cursor row < rows, col <= cols with col == cols exactly when wrap-pending, "
                   "0 <= top < bottom <= rows-1, saved cursors inside the screen, active character set index in range")
    c = getattr(w.facts, "_inv_verdict", None)
    if c is None:
        try:
            c = hinterp.invariant_preservation(w, S, R, thorough=getattr(ctx, "tier", "") == "thorough")
        except Exception as ex:
            c = ([("evaluation", "cannot evaluate the handlers: %r" % (ex,))], 0, {})
        w.facts._inv_verdict = c
    bad, n, skipped = c
    for key, text in bad:
        ctx.violation(rule, key, text, loc=None)
    evaluated = len([v for v in w.anchors["function_variants"] if v not in skipped])
    if not bad:
        ctx.ok(rule, "all", {"evaluations": n, "handlers_evaluated": evaluated, "not_evaluated": {k: v for k, v in sorted(skipped.items())}})
    ctx.rule_counts[rule] = n
    if evaluated < 32 or n < 5000:
        ctx.violation(rule, "floor", "only %d handlers / %d states could be evaluated (39 of 50 handlers / 21400 states on the reference tree; floors 32 / 5000): %s" % (evaluated, n, dict(list(skipped.items())[:6])))


def mode_rule(ctx, w, S, R, rule):
    """Per-mode decision table of SM / RM / DECSET / DECRST (hinterp.mode_semantics); verdict cached per fact set."""
    from rules import hinterp
    ctx.rule(rule, "SM / RM / DECSET / DECRST evaluated one mode at a time (both screens, both prior values, cursor mid-screen and wrap-pending, origin mode on / off inside a partial region): each mode changes exactly "
                   "the components its specification names, with the specified values - DECOM always homes, DECAWM / IRM / LNM / DECCKM / DECTCEM touch only their flag, 1048 saves / restores and never switches "
                   "screens, 47 / 1047 / 1049 switch only from the other screen, exchange the two saved contexts and the two buffers, and enter a FRESH alternate buffer")
    c = getattr(w.facts, "_mode_verdict", None)
    if c is None:
        try:
            c = hinterp.mode_semantics(w, S, R)
        except Exception as ex:
            c = ([("evaluation", "cannot evaluate the mode handlers: %r" % (ex,))], 0)
        w.facts._mode_verdict = c
    bad, n = c
    for key, text in bad[:8]:
        ctx.violation(rule, key, text, loc=None)
    if not bad:
        ctx.ok(rule, "all", {"evaluations": n})
    ctx.rule_counts[rule] = n
    if n < 200 and not bad:
        ctx.violation(rule, "floor", "only %d mode evaluations (288 on the reference tree, floor 200)" % n)
