"""Violations, known findings, evidence files."""
import json
import os
import re
import time

HERE = os.path.dirname(os.path.dirname(os.path.abspath(__file__)))
EVIDENCE_DIR = os.environ.get("AVT_EVIDENCE_DIR") or os.path.join(HERE, "evidence")
KNOWN_FILE = os.path.join(HERE, "known_findings.json")


def load_known():
    try:
        with open(KNOWN_FILE) as f:
            return json.load(f)
    except FileNotFoundError:
        return {"findings": [], "fixed": []}


class Ctx:
    """Collects rule instances for one property check."""

    def __init__(self, prop, tier, facts, seed=0):
        self.prop = prop
        self.tier = tier
        self.facts = facts
        self.seed = seed
        self.t0 = time.time()
        self.rule_counts = {}         # rule -> instances evaluated
        self.subjects = set()         # (rule, subject) distinct non-vacuous instances
        self.violations = []          # dicts
        self.samples = []
        self.notes = []
        self.explanation = ""
        self.decided = []
        self.not_decided = []
        self.assumptions = []
        self.exhaustive = None
        self.rules_text = {}
        self.extra = {}

    # -- recording ---------------------------------------------------------
    def rule(self, rule, text):
        self.rules_text[rule] = text
        self.rule_counts.setdefault(rule, 0)

    def ok(self, rule, subject, sample=None):
        self.rule_counts[rule] = self.rule_counts.get(rule, 0) + 1
        self.subjects.add((rule, str(subject)))
        if sample is not None and sum(1 for s in self.samples if s.get("rule") == rule) < 3:
            self.samples.append({"rule": rule, "subject": str(subject), "instance": sample})

    def violation(self, rule, subject, message, loc=None, detail=None):
        self.rule_counts[rule] = self.rule_counts.get(rule, 0) + 1
        self.subjects.add((rule, str(subject)))
        key = "%s/%s/%s" % (self.prop, rule, subject)
        self.violations.append(
            {"key": key, "rule": rule, "subject": str(subject), "message": message, "loc": loc, "detail": detail}
        )

    def check(self, cond, rule, subject, message, loc=None, sample=None, detail=None):
        if cond:
            self.ok(rule, subject, sample)
        else:
            self.violation(rule, subject, message, loc, detail)
        return cond

    def floor(self, rule, floor, what):
        """Fail closed when a rule matched fewer instances than were
        confirmed by reading the code: a rule matching nothing must not pass
        vacuously."""
        n = self.rule_counts.get(rule, 0)
        if n < floor:
            self.violation(
                rule,
                "floor",
                "rule %s evaluated %d instance(s) of %s, expected at least %d: an anchor no longer "
                "resolves (renamed/removed) or the construct changed shape; the rule cannot pass vacuously"
                % (rule, n, what, floor),
            )

    def missing_anchor(self, rule, anchor, why=""):
        self.violation(rule, "anchor:" + anchor, "anchor %s cannot be resolved in the current tree %s" % (anchor, why))

    def note(self, text):
        self.notes.append(text)

    def loc(self, file, line):
        return "%s:%s" % (self.facts.rel(file), line)

    # -- finishing ----------------------------------------------------------
    def finish(self):
        known = load_known()
        known_keys = {k["key"]: k for k in known.get("findings", []) if k.get("property") == self.prop}
        new = []
        kf = []
        for v in self.violations:
            if v["key"] in known_keys:
                kf.append((v, known_keys[v["key"]]))
            else:
                new.append(v)
        vdir = os.path.join(EVIDENCE_DIR, "violations")
        os.makedirs(vdir, exist_ok=True)
        # replay files of earlier runs of this property are stale now
        for old in os.listdir(vdir):
            if old.startswith(self.prop + "_"):
                try:
                    os.remove(os.path.join(vdir, old))
                except OSError:
                    pass
        lines = []
        for v, k in kf:
            lines.append("KNOWN-FINDING: property=%s %s [%s]" % (self.prop, k.get("what", v["message"]), v["key"]))
        shown = 0
        for v in new:
            shown += 1
            if shown > 15:
                continue
            fn = re.sub(r"[^A-Za-z0-9_.-]+", "_", v["key"])[:150] + ".json"
            rp = os.path.join(EVIDENCE_DIR, "violations", fn)
            with open(rp, "w") as f:
                json.dump({"property": self.prop, "tier": self.tier, **v}, f, indent=1)
            lines.append("VIOLATION property=%s replay=%s" % (self.prop, rp))
            lines.append("  rule     : %s  (%s)" % (v["rule"], self.rules_text.get(v["rule"], "")))
            lines.append("  subject  : %s" % v["subject"])
            if v.get("loc"):
                lines.append("  location : %s" % v["loc"])
            lines.append("  what     : %s" % v["message"])
            if v.get("detail"):
                for dl in str(v["detail"]).splitlines()[:40]:
                    lines.append("    | " + dl)
        if len(new) > 15:
            lines.append("  ... and %d more violation(s) of %s (keys: %s ...)" % (len(new) - 15, self.prop, ", ".join(v["key"] for v in new[15:20])))
        wall = time.time() - self.t0
        evaluations = sum(self.rule_counts.values())
        ev = {
            "property_id": self.prop,
            "tier": self.tier,
            "seed": self.seed,
            "level": "other",
            "coverage": {
                "explanation": self.explanation
                + (" DECIDED: " + "; ".join(self.decided) if self.decided else "")
                + (" NOT DECIDED (out of reach of static analysis here): " + "; ".join(self.not_decided) if self.not_decided else ""),
                "evaluations": evaluations,
                "distinct_nontrivial": len(self.subjects),
                "rule": "each evaluation is one rule instance (a table cell, call site, path obligation, field, or "
                        "operand) extracted from the type-checked program of /repo's working tree by the avt-facts "
                        "driver; distinct_nontrivial counts distinct (rule, subject) pairs whose precondition matched "
                        "real code (vacuous matches are not counted; rule floors fail closed)",
                "samples": self.samples[:40] if self.samples else [{"note": "no instance recorded"}],
                "rules": {r: {"instances": n, "text": self.rules_text.get(r, "")} for r, n in sorted(self.rule_counts.items())},
                "exhaustive": bool(self.exhaustive),
                "notes": self.notes[:50],
                "known_findings_reported": [v["key"] for v, _ in kf],
                **self.extra,
            },
            "assumptions": self.assumptions
            + [
                "rustc's name resolution, type checking, match semantics and MIR construction (facts come from the compiler itself)",
                "MIR at -Zmir-opt-level=0 with overflow checks on; only the `avt` lib target, default cfg",
                "the crate contains no unsafe block (checked on every run by rule COMMON.unsafe)",
            ],
            "wall_s": round(wall, 3),
            "violations": len(new),
        }
        os.makedirs(EVIDENCE_DIR, exist_ok=True)
        with open(os.path.join(EVIDENCE_DIR, "%s.json" % self.prop), "w") as f:
            json.dump(ev, f, indent=1)
        print(
            "[%s %s] %d rule instances over %d rules, %d distinct subjects, %d violation(s), %d known finding(s), %.1fs"
            % (self.prop, self.tier, evaluations, len(self.rule_counts), len(self.subjects), len(new), len(kf), wall)
        )
        for l in lines:
            print(l)
        return 1 if new else 0
