"""Pretty printer for the exported MIR (debug aid)."""
import json, sys

def place_s(p):
    s = "_%d" % p["local"]
    for e in p["proj"]:
        k = e["k"]
        if k == "deref": s = "(*%s)" % s
        elif k == "field": s = "%s.%s" % (s, e["name"])
        elif k == "index": s = "%s[_%d]" % (s, e["local"])
        elif k == "constindex": s = "%s[%s%d]" % (s, "-" if e["from_end"] else "", e["offset"])
        elif k == "subslice": s = "%s[%d..%s%d]" % (s, e["from"], "-" if e["from_end"] else "", e["to"])
        elif k == "downcast": s = "(%s as %s)" % (s, e.get("name", e["variant"]))
        else: s = "%s?%s" % (s, e.get("dbg"))
    return s

def op_s(o):
    k = o["k"]
    if k in ("copy", "move"):
        return ("move " if k == "move" else "") + place_s(o)
    if k == "const":
        if "fn" in o: return "fn:" + o["fn"]
        v = o.get("val")
        if v is None: return "const?(%s)" % o["ty"]["s"]
        if "int" in v: return "%d_%s" % (v["int"], o["ty"]["s"])
        if "bool" in v: return str(v["bool"]).lower()
        if "char" in v: return "'\\u{%x}'" % v["char"]
        if "str" in v: return json.dumps(v["str"])
        if "zst" in v: return "zst:" + o["ty"]["s"]
        return "const(%s:%s)" % (json.dumps(v)[:40], o["ty"]["s"]) + ((" promoted[%d]" % o["promoted"]) if "promoted" in o else "")
    return "?" + json.dumps(o)[:60]

def rv_s(r):
    k = r["k"]
    if k == "use": return op_s(r["op"])
    if k == "ref": return ("&mut " if r["mut"] else "&") + place_s(r["place"])
    if k == "rawptr": return "&raw " + place_s(r["place"])
    if k == "cast": return "%s as %s (%s)" % (op_s(r["op"]), r["to"], r["cast"])
    if k == "binop": return "%s(%s, %s)" % (r["op"], op_s(r["l"]), op_s(r["r"]))
    if k == "unop": return "%s(%s)" % (r["op"], op_s(r["e"]))
    if k == "discr": return "discriminant(%s)" % place_s(r["place"])
    if k == "aggregate":
        a = r["agg"]
        name = {"adt": lambda: r["adt"] + "::" + r["variant"], "closure": lambda: "closure:" + r["closure"]}.get(a, lambda: a)()
        return "%s{%s}" % (name, ", ".join(op_s(x) for x in r["ops"]))
    if k == "repeat": return "[%s; %s]" % (op_s(r["op"]), r["n"])
    return "?" + r.get("dbg", "")[:80]

def callee_s(c):
    if "indirect" in c: return "(*%s)" % op_s(c["indirect"])
    r = c.get("resolved") or ("?" + c["decl"])
    return r

def body_s(b):
    out = ["fn %s (args=%d)" % (b["path"], b["arg_count"])]
    for d in b["debug"]:
        if "place" in d: out.append("  debug %s => %s" % (d["name"], place_s(d["place"])))
    for bl in b["blocks"]:
        out.append("  bb%d%s:" % (bl["i"], " (cleanup)" if bl["cleanup"] else ""))
        for s in bl["stmts"]:
            if s["k"] == "assign":
                out.append("    %s = %s    // L%d" % (place_s(s["place"]), rv_s(s["rv"]), s["loc"]["line"]))
            else:
                out.append("    %s" % json.dumps(s)[:100])
        t = bl["term"]; k = t["k"]
        if k == "call":
            out.append("    %s = %s(%s) -> bb%s   // L%d" % (place_s(t["dest"]), callee_s(t["callee"]), ", ".join(op_s(a) for a in t["args"]), t["target"], t["loc"]["line"]))
        elif k == "switch":
            out.append("    switch %s [%s, otherwise bb%d]" % (op_s(t["discr"]), ", ".join("%d:bb%d" % (v, bb) for v, bb in t["targets"]), t["otherwise"]))
        elif k == "assert":
            out.append("    assert(%s == %s, %s) -> bb%d" % (op_s(t["cond"]), t["expected"], t["msg"], t["target"]))
        elif k == "drop":
            out.append("    drop(%s) -> bb%d" % (place_s(t["place"]), t["target"]))
        elif k == "goto":
            out.append("    goto bb%d" % t["target"])
        else:
            out.append("    %s %s" % (k, t.get("dbg", "")))
    return "\n".join(out)

if __name__ == "__main__":
    d = json.load(open(sys.argv[1]))
    for b in d["mir"]:
        if b["path"] == sys.argv[2] or (sys.argv[2].endswith("*") and b["path"].startswith(sys.argv[2][:-1])):
            print(body_s(b))
            for p in b["promoteds"]:
                print("promoted[%d]:" % p["promoted"]); print(body_s(p))
